//! Native replay: runs the *real* wac functions on concrete cases produced by the solver.
//! Protocol: one JSON object per stdin line -> one JSON object per stdout line.
//! A panic inside the function under test is caught and reported as {"panic": "<message>"}.
use serde_json::{json, Value};
use std::io::{BufRead, Write};
use std::panic::{catch_unwind, AssertUnwindSafe};

mod ops_names;
mod ops_lexer;
mod ops_types;
mod ops_graph;
mod ops_doc;

fn s(v: &Value, k: &str) -> String {
    // strings are passed as arrays of bytes ("bytes") or as plain JSON strings
    match &v[k] {
        Value::String(x) => x.clone(),
        Value::Array(a) => {
            let b: Vec<u8> = a.iter().map(|x| x.as_u64().unwrap() as u8).collect();
            String::from_utf8(b).expect("replay input must be UTF-8")
        }
        other => panic!("field {k} is not a string: {other}"),
    }
}

fn dispatch(v: &Value) -> Value {
    let op = v["op"].as_str().unwrap_or("");
    match op {
        "ping" => json!({"ok": true}),
        "alt_key" | "semver_compat" | "namemap" | "semver_parse" => ops_names::run(op, v),
        "lexer_spans" | "block_comment_length" | "lex_string" | "discover" | "lex_one" | "parse_pkgref" => ops_lexer::run(op, v),
        "subtype" | "package_from_wat" | "aggregate" | "validate_target" => ops_types::run(op, v),
        "package_from_wit" => ops_types::package_from_wit(v),
        "graph" => ops_graph::run(op, v),
        "resolve_doc" | "plug" => ops_doc::run(op, v),
        _ => json!({"error": format!("unknown op {op}")}),
    }
}

fn main() {
    std::panic::set_hook(Box::new(|_| {}));
    let stdin = std::io::stdin();
    let stdout = std::io::stdout();
    for line in stdin.lock().lines() {
        let line = line.unwrap();
        if line.trim().is_empty() {
            continue;
        }
        let v: Value = match serde_json::from_str(&line) {
            Ok(v) => v,
            Err(e) => {
                writeln!(stdout.lock(), "{}", json!({"error": format!("bad json: {e}")})).unwrap();
                continue;
            }
        };
        let r = catch_unwind(AssertUnwindSafe(|| dispatch(&v)));
        let out = match r {
            Ok(x) => x,
            Err(p) => {
                let msg = if let Some(s) = p.downcast_ref::<&str>() {
                    s.to_string()
                } else if let Some(s) = p.downcast_ref::<String>() {
                    s.clone()
                } else {
                    "panic".to_string()
                };
                json!({"panic": msg})
            }
        };
        let mut o = stdout.lock();
        writeln!(o, "{}", out).unwrap();
        o.flush().unwrap();
    }
}

pub(crate) use s as str_field;
