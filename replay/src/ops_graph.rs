//! C06/C02/C03/C16: drive the real CompositionGraph API from a JSON script and report results, invariants and dumps.
use crate::ops_types::{item, value_type, NAMED};
use serde_json::{json, Value};
use std::collections::HashMap;
use std::panic::{catch_unwind, AssertUnwindSafe};
use wac_graph::{types::*, CompositionGraph, EncodeOptions, NodeId, PackageId};

fn node(refs: &[Option<NodeId>], v: &Value) -> NodeId {
    refs[v.as_u64().expect("node ref = step index") as usize].expect("step did not produce a node")
}

pub fn run(_op: &str, v: &Value) -> Value {
    NAMED.with(|n| n.borrow_mut().clear());
    let mut g = CompositionGraph::new();
    let mut pkgs: HashMap<String, PackageId> = HashMap::new();
    let mut refs: Vec<Option<NodeId>> = vec![];
    let mut results: Vec<Value> = vec![];
    let mut invs: Vec<Value> = vec![];
    let steps = v["steps"].as_array().unwrap();
    for (i, st) in steps.iter().enumerate() {
        let a = st.as_array().unwrap();
        let name = a[0].as_str().unwrap().to_string();
        let r = catch_unwind(AssertUnwindSafe(|| -> (Option<NodeId>, Value) {
            match name.as_str() {
                "package" => {
                    let bytes = wat::parse_str(a[2].as_str().unwrap()).expect("wat");
                    // "name@1.2.3" registers the package under that version
                    let full = a[1].as_str().unwrap();
                    let (pname, pver) = match full.split_once('@') {
                        Some((n, v)) => (n, Some(v.parse::<semver::Version>().expect("package version"))),
                        None => (full, None),
                    };
                    let p = Package::from_bytes(pname, pver.as_ref(), bytes, g.types_mut()).expect("package");
                    match g.register_package(p) {
                        Ok(id) => {
                            pkgs.insert(a[1].as_str().unwrap().to_string(), id);
                            (None, json!({"ok": true}))
                        }
                        Err(e) => (None, json!({"err": format!("{e}")})),
                    }
                }
                "unregister" => {
                    let id = pkgs[a[1].as_str().unwrap()];
                    g.unregister_package(id);
                    (None, json!({"ok": true}))
                }
                "instantiate" => {
                    let n = g.instantiate(pkgs[a[1].as_str().unwrap()]);
                    (Some(n), json!({"node": format!("{n}")}))
                }
                "import" => {
                    let k = item(g.types_mut(), &a[2]);
                    match g.import(a[1].as_str().unwrap(), k) {
                        Ok(n) => (Some(n), json!({"node": format!("{n}")})),
                        Err(e) => (None, json!({"err": format!("{e}")})),
                    }
                }
                "define" => {
                    let vt = value_type(g.types_mut(), &a[2]);
                    match g.define_type(a[1].as_str().unwrap(), Type::Value(vt)) {
                        Ok(n) => (Some(n), json!({"node": format!("{n}")})),
                        Err(e) => (None, json!({"err": format!("{e}")})),
                    }
                }
                "mktype" => {
                    let vt = value_type(g.types_mut(), &a[2]);
                    NAMED.with(|n| n.borrow_mut().insert(a[1].as_str().unwrap().to_string(), vt));
                    (None, json!({"ok": true}))
                }
                "define_ref" => {
                    let vt = NAMED.with(|n| *n.borrow().get(a[2].as_str().unwrap()).expect("unknown named type"));
                    match g.define_type(a[1].as_str().unwrap(), Type::Value(vt)) {
                        Ok(n) => (Some(n), json!({"node": format!("{n}")})),
                        Err(e) => (None, json!({"err": format!("{e}")})),
                    }
                }
                "alias" => match g.alias_instance_export(node(&refs, &a[1]), a[2].as_str().unwrap()) {
                    Ok(n) => (Some(n), json!({"node": format!("{n}")})),
                    Err(e) => (None, json!({"err": format!("{e}")})),
                },
                "set_arg" => match g.set_instantiation_argument(node(&refs, &a[1]), a[2].as_str().unwrap(), node(&refs, &a[3])) {
                    Ok(()) => (None, json!({"ok": true})),
                    Err(e) => (None, json!({"err": format!("{e}")})),
                },
                "unset_arg" => match g.unset_instantiation_argument(node(&refs, &a[1]), a[2].as_str().unwrap(), node(&refs, &a[3])) {
                    Ok(()) => (None, json!({"ok": true})),
                    Err(e) => (None, json!({"err": format!("{e}")})),
                },
                "export" => match g.export(node(&refs, &a[1]), a[2].as_str().unwrap()) {
                    Ok(()) => (None, json!({"ok": true})),
                    Err(e) => (None, json!({"err": format!("{e}")})),
                },
                "unexport" => match g.unexport(node(&refs, &a[1])) {
                    Ok(()) => (None, json!({"ok": true})),
                    Err(e) => (None, json!({"err": format!("{e}")})),
                },
                "name" => {
                    g.set_node_name(node(&refs, &a[1]), a[2].as_str().unwrap());
                    (None, json!({"ok": true}))
                }
                "remove" => {
                    g.remove_node(node(&refs, &a[1]));
                    (None, json!({"ok": true}))
                }
                "get_export" => (None, json!({"export": g.get_export(a[1].as_str().unwrap()).map(|n| format!("{n}"))})),
                "args" => {
                    let l: Vec<(String, String)> = g
                        .get_instantiation_arguments(node(&refs, &a[1]))
                        .map(|(n, id)| (n.to_string(), format!("{id}")))
                        .collect();
                    (None, json!({"args": l}))
                }
                "imports" => {
                    let l: Vec<(String, Option<String>)> = g.imports().map(|(n, _, id)| (n.to_string(), id.map(|x| format!("{x}")))).collect();
                    (None, json!({"imports": l}))
                }
                "encode" => {
                    let validate = a.get(1).and_then(|x| x.as_bool()).unwrap_or(true);
                    match g.encode(EncodeOptions {
                        define_components: true,
                        validate,
                        processor: None,
                    }) {
                        Ok(b) => {
                            let mut h: u64 = 0xcbf29ce484222325;
                            for x in &b {
                                h ^= *x as u64;
                                h = h.wrapping_mul(0x100000001b3);
                            }
                            let text = if a.get(2).and_then(|x| x.as_bool()).unwrap_or(false) { Some(b.clone()) } else { None };
                            let (components, instances, names) = inspect(&b);
                            (None, json!({"ok": true, "len": b.len(), "hash": format!("{h:016x}"), "bytes": text, "components": components, "instances": instances, "names": names}))
                        }
                        Err(e) => (None, json!({"err": format!("{e:#}")})),
                    }
                }
                o => panic!("unknown step {o}"),
            }
        }));
        match r {
            Ok((n, val)) => {
                refs.push(n);
                results.push(val);
            }
            Err(p) => {
                let msg = if let Some(s) = p.downcast_ref::<&str>() {
                    s.to_string()
                } else if let Some(s) = p.downcast_ref::<String>() {
                    s.clone()
                } else {
                    "panic".to_string()
                };
                refs.push(None);
                results.push(json!({"panic": msg}));
                invs.push(json!(null));
                return json!({"results": results, "invariants": invs, "panic_at": i, "panic": msg});
            }
        }
        invs.push(json!(g.verif_invariants()));
    }
    json!({"results": results, "invariants": invs, "dump": g.verif_dump()})
}

/// top-level structure of an encoded component: number of embedded components, number of component instances created by
/// instantiation, and the component name section as (kind, names)
fn inspect(bytes: &[u8]) -> (usize, usize, Vec<(String, Vec<String>)>) {
    use wasmparser::{ComponentInstance, ComponentName, Parser, Payload};
    let mut components = 0;
    let mut instances = 0;
    let mut names = vec![];
    let mut depth = 0usize;
    for p in Parser::new(0).parse_all(bytes) {
        let Ok(p) = p else { break };
        match p {
            Payload::ComponentSection { .. } | Payload::ModuleSection { .. } => {
                if depth == 0 {
                    if let Payload::ComponentSection { .. } = p {
                        components += 1;
                    }
                }
                depth += 1;
            }
            Payload::End(_) => depth = depth.saturating_sub(1),
            Payload::ComponentInstanceSection(r) if depth == 0 => {
                for i in r.into_iter().flatten() {
                    if let ComponentInstance::Instantiate { .. } = i {
                        instances += 1;
                    }
                }
            }
            Payload::CustomSection(c) if depth == 0 && c.name() == "component-name" => {
                if let wasmparser::KnownCustom::ComponentName(r) = c.as_known() {
                    for n in r.into_iter().flatten() {
                        let (kind, map) = match n {
                            ComponentName::Types(m) => ("types", m),
                            ComponentName::Funcs(m) => ("funcs", m),
                            ComponentName::Instances(m) => ("instances", m),
                            ComponentName::Components(m) => ("components", m),
                            ComponentName::CoreModules(m) => ("core_modules", m),
                            ComponentName::Values(m) => ("values", m),
                            _ => continue,
                        };
                        names.push((kind.to_string(), map.into_iter().flatten().map(|x| x.name.to_string()).collect()));
                    }
                }
            }
            _ => {}
        }
    }
    (components, instances, names)
}
