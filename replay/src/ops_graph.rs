//! C06/C02/C03/C16: drive the real CompositionGraph API from a JSON script and report results, invariants and dumps.
use crate::ops_types::{item, value_type, NAMED};
use serde_json::{json, Value};
use std::collections::HashMap;
use std::panic::{catch_unwind, AssertUnwindSafe};
use wac_graph::{types::*, CompositionGraph, EncodeOptions, NodeId, PackageId};

fn node(refs: &[Option<NodeId>], v: &Value) -> NodeId {
    refs[v.as_u64().expect("node ref = step index") as usize].expect("step did not produce a node")
}

pub fn run(_op: &str, v: &Value) -> Value {
    NAMED.with(|n| n.borrow_mut().clear());
    let mut g = CompositionGraph::new();
    let mut pkgs: HashMap<String, PackageId> = HashMap::new();
    let mut refs: Vec<Option<NodeId>> = vec![];
    let mut results: Vec<Value> = vec![];
    let mut invs: Vec<Value> = vec![];
    let steps = v["steps"].as_array().unwrap();
    for (i, st) in steps.iter().enumerate() {
        let a = st.as_array().unwrap();
        let name = a[0].as_str().unwrap().to_string();
        let r = catch_unwind(AssertUnwindSafe(|| -> (Option<NodeId>, Value) {
            match name.as_str() {
                "package" => {
                    let bytes = wat::parse_str(a[2].as_str().unwrap()).expect("wat");
                    let p = Package::from_bytes(a[1].as_str().unwrap(), None, bytes, g.types_mut()).expect("package");
                    match g.register_package(p) {
                        Ok(id) => {
                            pkgs.insert(a[1].as_str().unwrap().to_string(), id);
                            (None, json!({"ok": true}))
                        }
                        Err(e) => (None, json!({"err": format!("{e}")})),
                    }
                }
                "unregister" => {
                    let id = pkgs[a[1].as_str().unwrap()];
                    g.unregister_package(id);
                    (None, json!({"ok": true}))
                }
                "instantiate" => {
                    let n = g.instantiate(pkgs[a[1].as_str().unwrap()]);
                    (Some(n), json!({"node": format!("{n}")}))
                }
                "import" => {
                    let k = item(g.types_mut(), &a[2]);
                    match g.import(a[1].as_str().unwrap(), k) {
                        Ok(n) => (Some(n), json!({"node": format!("{n}")})),
                        Err(e) => (None, json!({"err": format!("{e}")})),
                    }
                }
                "define" => {
                    let vt = value_type(g.types_mut(), &a[2]);
                    match g.define_type(a[1].as_str().unwrap(), Type::Value(vt)) {
                        Ok(n) => (Some(n), json!({"node": format!("{n}")})),
                        Err(e) => (None, json!({"err": format!("{e}")})),
                    }
                }
                "mktype" => {
                    let vt = value_type(g.types_mut(), &a[2]);
                    NAMED.with(|n| n.borrow_mut().insert(a[1].as_str().unwrap().to_string(), vt));
                    (None, json!({"ok": true}))
                }
                "define_ref" => {
                    let vt = NAMED.with(|n| *n.borrow().get(a[2].as_str().unwrap()).expect("unknown named type"));
                    match g.define_type(a[1].as_str().unwrap(), Type::Value(vt)) {
                        Ok(n) => (Some(n), json!({"node": format!("{n}")})),
                        Err(e) => (None, json!({"err": format!("{e}")})),
                    }
                }
                "alias" => match g.alias_instance_export(node(&refs, &a[1]), a[2].as_str().unwrap()) {
                    Ok(n) => (Some(n), json!({"node": format!("{n}")})),
                    Err(e) => (None, json!({"err": format!("{e}")})),
                },
                "set_arg" => match g.set_instantiation_argument(node(&refs, &a[1]), a[2].as_str().unwrap(), node(&refs, &a[3])) {
                    Ok(()) => (None, json!({"ok": true})),
                    Err(e) => (None, json!({"err": format!("{e}")})),
                },
                "unset_arg" => match g.unset_instantiation_argument(node(&refs, &a[1]), a[2].as_str().unwrap(), node(&refs, &a[3])) {
                    Ok(()) => (None, json!({"ok": true})),
                    Err(e) => (None, json!({"err": format!("{e}")})),
                },
                "export" => match g.export(node(&refs, &a[1]), a[2].as_str().unwrap()) {
                    Ok(()) => (None, json!({"ok": true})),
                    Err(e) => (None, json!({"err": format!("{e}")})),
                },
                "unexport" => match g.unexport(node(&refs, &a[1])) {
                    Ok(()) => (None, json!({"ok": true})),
                    Err(e) => (None, json!({"err": format!("{e}")})),
                },
                "name" => {
                    g.set_node_name(node(&refs, &a[1]), a[2].as_str().unwrap());
                    (None, json!({"ok": true}))
                }
                "remove" => {
                    g.remove_node(node(&refs, &a[1]));
                    (None, json!({"ok": true}))
                }
                "get_export" => (None, json!({"export": g.get_export(a[1].as_str().unwrap()).map(|n| format!("{n}"))})),
                "args" => {
                    let l: Vec<(String, String)> = g
                        .get_instantiation_arguments(node(&refs, &a[1]))
                        .map(|(n, id)| (n.to_string(), format!("{id}")))
                        .collect();
                    (None, json!({"args": l}))
                }
                "imports" => {
                    let l: Vec<(String, Option<String>)> = g.imports().map(|(n, _, id)| (n.to_string(), id.map(|x| format!("{x}")))).collect();
                    (None, json!({"imports": l}))
                }
                "encode" => {
                    let validate = a.get(1).and_then(|x| x.as_bool()).unwrap_or(true);
                    match g.encode(EncodeOptions {
                        define_components: true,
                        validate,
                        processor: None,
                    }) {
                        Ok(b) => {
                            let mut h: u64 = 0xcbf29ce484222325;
                            for x in &b {
                                h ^= *x as u64;
                                h = h.wrapping_mul(0x100000001b3);
                            }
                            let text = if a.get(2).and_then(|x| x.as_bool()).unwrap_or(false) { Some(b.clone()) } else { None };
                            (None, json!({"ok": true, "len": b.len(), "hash": format!("{h:016x}"), "bytes": text}))
                        }
                        Err(e) => (None, json!({"err": format!("{e:#}")})),
                    }
                }
                o => panic!("unknown step {o}"),
            }
        }));
        match r {
            Ok((n, val)) => {
                refs.push(n);
                results.push(val);
            }
            Err(p) => {
                let msg = if let Some(s) = p.downcast_ref::<&str>() {
                    s.to_string()
                } else if let Some(s) = p.downcast_ref::<String>() {
                    s.clone()
                } else {
                    "panic".to_string()
                };
                refs.push(None);
                results.push(json!({"panic": msg}));
                invs.push(json!(null));
                return json!({"results": results, "invariants": invs, "panic_at": i, "panic": msg});
            }
        }
        invs.push(json!(g.verif_invariants()));
    }
    json!({"results": results, "invariants": invs, "dump": g.verif_dump()})
}
