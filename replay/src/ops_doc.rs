//! C04/C17/C02/C03: resolve a whole WAC document against in-memory packages with the real parser + resolver and describe the graph.
use indexmap::IndexMap;
use serde_json::{json, Map, Value};
use wac_graph::{types::BorrowedPackageKey, CompositionGraph, EncodeOptions, NodeId, NodeKind};

fn describe(g: &CompositionGraph, id: NodeId, depth: usize) -> String {
    let n = &g[id];
    match n.kind() {
        NodeKind::Import(name) => format!("import:{name}"),
        NodeKind::Definition => format!("def:{}", n.name().unwrap_or("")),
        NodeKind::Instantiation(_) => format!("inst:{}", n.name().unwrap_or("")),
        NodeKind::Alias => match g.get_alias_source(id) {
            Some((src, export)) if depth < 8 => format!("alias:{export}@{}", describe(g, src, depth + 1)),
            _ => "alias".to_string(),
        },
    }
}

/// {"socket": wat, "plugs": [wat, ...]} -> wac_graph::plug on a fresh graph, then the wiring of the result
fn run_plug(v: &Value) -> Value {
    use wac_graph::{plug, types::Package, PlugError};
    let mut g = CompositionGraph::new();
    let reg = |g: &mut CompositionGraph, name: &str, w: &Value| {
        let bytes = wat::parse_str(w.as_str().unwrap()).expect("wat");
        let p = Package::from_bytes(name, None, bytes, g.types_mut()).expect("package");
        g.register_package(p).expect("register")
    };
    let socket = reg(&mut g, "t:socket", &v["socket"]);
    let plugs: Vec<_> = v["plugs"].as_array().unwrap().iter().enumerate().map(|(i, w)| reg(&mut g, &format!("t:plug{i}"), w)).collect();
    let r = plug(&mut g, plugs, socket);
    let result = match &r {
        Ok(()) => "ok".to_string(),
        Err(PlugError::NoPlugHappened) => "no-plug".to_string(),
        Err(PlugError::GraphError { source }) => format!("graph-error: {source:#}"),
    };
    let pkg_name = |id: NodeId| g[id].package().map(|p| g[p].name().to_string());
    let mut insts = vec![];
    let mut socket_args = Map::new();
    let mut exports = Map::new();
    for id in g.node_ids() {
        let n = &g[id];
        if let NodeKind::Instantiation(_) = n.kind() {
            insts.push(json!(pkg_name(id)));
            if pkg_name(id).as_deref() == Some("t:socket") {
                for (name, src) in g.get_instantiation_arguments(id) {
                    let d = match g.get_alias_source(src) {
                        Some((s, e)) => json!([pkg_name(s), e]),
                        None => json!(describe(&g, src, 0)),
                    };
                    socket_args.insert(name.to_string(), d);
                }
            }
        }
        if let Some(e) = n.export_name() {
            let d = match g.get_alias_source(id) {
                Some((s, x)) => json!([pkg_name(s), x]),
                None => json!(describe(&g, id, 0)),
            };
            exports.insert(e.to_string(), d);
        }
    }
    let imports: Vec<String> = g.imports().map(|(n, _, _)| n.to_string()).collect();
    let mut out = json!({"result": result, "instantiated": insts, "socket_args": socket_args, "exports": exports, "imports": imports});
    if r.is_ok() {
        match g.encode(EncodeOptions::default()) {
            Ok(b) => out["valid"] = json!(wasmparser::Validator::new_with_features(wasmparser::WasmFeatures::all()).validate_all(&b).is_ok()),
            Err(e) => out["encode_error"] = json!(format!("{e:#}")),
        }
    }
    out
}

/// {"doc": source, "packages": {"ns:name[@ver]": wat}, "encode": bool}
pub fn run(op: &str, v: &Value) -> Value {
    if op == "plug" {
        return run_plug(v);
    }
    let src = crate::str_field(v, "doc");
    let doc = match wac_parser::Document::parse(&src) {
        Ok(d) => d,
        Err(e) => return json!({"parse_error": format!("{e:?}")}),
    };
    let mut owned: Vec<(String, Option<semver::Version>, Vec<u8>)> = vec![];
    if let Some(m) = v["packages"].as_object() {
        for (k, w) in m {
            let bytes = match wat::parse_str(w.as_str().unwrap()) {
                Ok(b) => b,
                Err(e) => return json!({"wat_error": format!("{k}: {e}")}),
            };
            let (name, ver) = match k.split_once('@') {
                Some((n, ver)) => (n.to_string(), Some(ver.parse().expect("package version"))),
                None => (k.clone(), None),
            };
            owned.push((name, ver, bytes));
        }
    }
    let mut pk: IndexMap<BorrowedPackageKey, Vec<u8>> = IndexMap::new();
    for (n, ver, b) in &owned {
        pk.insert(BorrowedPackageKey::from_name_and_version(n, ver.as_ref()), b.clone());
    }
    let res = match doc.resolve(pk) {
        Ok(r) => r,
        Err(e) => return json!({"error": format!("{e}"), "debug": format!("{e:?}")}),
    };
    let g = res.graph();
    let mut nodes = vec![];
    for id in g.node_ids() {
        let n = &g[id];
        let mut args = Map::new();
        for (name, src) in g.get_instantiation_arguments(id) {
            args.insert(name.to_string(), json!(describe(g, src, 0)));
        }
        nodes.push(json!({"desc": describe(g, id, 0), "name": n.name(), "export": n.export_name(), "args": args}));
    }
    let imports: Vec<String> = g.imports().map(|(n, _, _)| n.to_string()).collect();
    // every export of the composition (names from the structural dump, nodes through the public query)
    let mut exports = Map::new();
    let dump = g.verif_dump();
    if let Some(i) = dump.rfind("exports[") {
        for kv in dump[i + 8..dump.len() - 1].split(',').filter(|s| !s.is_empty()) {
            if let Some((name, _)) = kv.rsplit_once('=') {
                let d = g.get_export(name).map(|id| describe(g, id, 0));
                exports.insert(name.to_string(), json!(d));
            }
        }
    }
    let mut out = json!({"ok": true, "nodes": nodes, "implicit_and_explicit_imports": imports, "exports": exports});
    if v["encode"].as_bool().unwrap_or(false) {
        match res.encode(EncodeOptions::default()) {
            Ok(b) => {
                out["encoded_len"] = json!(b.len());
                out["valid"] = json!(wasmparser::Validator::new_with_features(wasmparser::WasmFeatures::all()).validate_all(&b).is_ok());
            }
            Err(e) => out["encode_error"] = json!(format!("{e}")),
        }
    }
    out
}
