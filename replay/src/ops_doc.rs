//! C04/C17/C02/C03: resolve a whole WAC document against in-memory packages with the real parser + resolver and describe the graph.
use indexmap::IndexMap;
use serde_json::{json, Map, Value};
use wac_graph::{types::BorrowedPackageKey, CompositionGraph, EncodeOptions, NodeId, NodeKind};

fn describe(g: &CompositionGraph, id: NodeId, depth: usize) -> String {
    let n = &g[id];
    match n.kind() {
        NodeKind::Import(name) => format!("import:{name}"),
        NodeKind::Definition => format!("def:{}", n.name().unwrap_or("")),
        NodeKind::Instantiation(_) => format!("inst:{}", n.name().unwrap_or("")),
        NodeKind::Alias => match g.get_alias_source(id) {
            Some((src, export)) if depth < 8 => format!("alias:{export}@{}", describe(g, src, depth + 1)),
            _ => "alias".to_string(),
        },
    }
}

/// {"doc": source, "packages": {"ns:name[@ver]": wat}, "encode": bool}
pub fn run(_op: &str, v: &Value) -> Value {
    let src = crate::str_field(v, "doc");
    let doc = match wac_parser::Document::parse(&src) {
        Ok(d) => d,
        Err(e) => return json!({"parse_error": format!("{e:?}")}),
    };
    let mut owned: Vec<(String, Option<semver::Version>, Vec<u8>)> = vec![];
    if let Some(m) = v["packages"].as_object() {
        for (k, w) in m {
            let bytes = match wat::parse_str(w.as_str().unwrap()) {
                Ok(b) => b,
                Err(e) => return json!({"wat_error": format!("{k}: {e}")}),
            };
            let (name, ver) = match k.split_once('@') {
                Some((n, ver)) => (n.to_string(), Some(ver.parse().expect("package version"))),
                None => (k.clone(), None),
            };
            owned.push((name, ver, bytes));
        }
    }
    let mut pk: IndexMap<BorrowedPackageKey, Vec<u8>> = IndexMap::new();
    for (n, ver, b) in &owned {
        pk.insert(BorrowedPackageKey::from_name_and_version(n, ver.as_ref()), b.clone());
    }
    let res = match doc.resolve(pk) {
        Ok(r) => r,
        Err(e) => return json!({"error": format!("{e}"), "debug": format!("{e:?}")}),
    };
    let g = res.graph();
    let mut nodes = vec![];
    for id in g.node_ids() {
        let n = &g[id];
        let mut args = Map::new();
        for (name, src) in g.get_instantiation_arguments(id) {
            args.insert(name.to_string(), json!(describe(g, src, 0)));
        }
        nodes.push(json!({"desc": describe(g, id, 0), "name": n.name(), "export": n.export_name(), "args": args}));
    }
    let imports: Vec<String> = g.imports().map(|(n, _, _)| n.to_string()).collect();
    let mut out = json!({"ok": true, "nodes": nodes, "implicit_and_explicit_imports": imports});
    if v["encode"].as_bool().unwrap_or(false) {
        match res.encode(EncodeOptions::default()) {
            Ok(b) => {
                out["encoded_len"] = json!(b.len());
                out["valid"] = json!(wasmparser::Validator::new_with_features(wasmparser::WasmFeatures::all()).validate_all(&b).is_ok());
            }
            Err(e) => out["encode_error"] = json!(format!("{e}")),
        }
    }
    out
}
