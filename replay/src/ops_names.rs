//! C15: names.rs
use crate::str_field;
use serde_json::{json, Value};
use wac_types::{are_semver_compatible, NameMap, NameMapNoIntern};

pub fn run(op: &str, v: &Value) -> Value {
    match op {
        "alt_key" => {
            let name = str_field(v, "name");
            match wac_types::verif::alternate_lookup_key(&name) {
                None => json!({"some": false}),
                Some((k, ver)) => json!({"some": true, "key": k, "major": ver.major, "minor": ver.minor, "patch": ver.patch}),
            }
        }
        "semver_compat" => {
            let a = str_field(v, "a");
            let b = str_field(v, "b");
            json!({"compat": are_semver_compatible(&a, &b)})
        }
        "semver_parse" => {
            let t = str_field(v, "text");
            match semver::Version::parse(&t) {
                Ok(ver) => json!({"ok": true, "major": ver.major, "minor": ver.minor, "patch": ver.patch,
                                  "pre": ver.pre.as_str(), "build": ver.build.as_str()}),
                Err(_) => json!({"ok": false}),
            }
        }
        "namemap" => {
            // {"inserts":[{"name":..,"shadow":bool}], "get": name}
            let mut m: NameMap<String, u64> = NameMap::default();
            let mut cx = NameMapNoIntern;
            let mut results = vec![];
            for (i, ins) in v["inserts"].as_array().unwrap().iter().enumerate() {
                let name = str_field(ins, "name");
                let sh = ins["shadow"].as_bool().unwrap_or(false);
                let r = m.insert(&name, &mut cx, sh, i as u64);
                results.push(r.is_ok());
            }
            let q = str_field(v, "get");
            let got = m.get(&q, &NameMapNoIntern).copied();
            let raw: Vec<(String, u64)> = m.raw_iter().map(|(k, v)| (k.clone(), *v)).collect();
            json!({"inserts_ok": results, "get": got, "raw": raw})
        }
        _ => unreachable!(),
    }
}
