//! C12/C14: lexer kernels through the public `wac_parser::lexer` API (+ hooks for private helpers)
use crate::str_field;
use serde_json::{json, Value};
use wac_parser::lexer::Lexer;

pub fn run(op: &str, v: &Value) -> Value {
    match op {
        // spans reported by Lexer::span() before the first token and after every next() until the end of input
        "lexer_spans" => {
            let src = str_field(v, "source");
            match Lexer::new(&src) {
                Err((e, span)) => json!({"screened": format!("{e:?}"), "span": [span.offset(), span.len()], "len": src.len()}),
                Ok(mut lx) => {
                    let mut spans = vec![];
                    let mut toks = vec![];
                    let s = lx.span();
                    spans.push(json!([s.offset(), s.len()]));
                    for _ in 0..64 {
                        match lx.next() {
                            None => {
                                let s = lx.span();
                                spans.push(json!([s.offset(), s.len()]));
                                break;
                            }
                            Some((r, sp)) => {
                                toks.push(json!({"ok": r.is_ok(), "tok": format!("{r:?}"), "span": [sp.offset(), sp.len()]}));
                                let s = lx.span();
                                spans.push(json!([s.offset(), s.len()]));
                            }
                        }
                    }
                    let bounds: Vec<usize> = (0..=src.len()).filter(|i| src.is_char_boundary(*i)).collect();
                    json!({"spans": spans, "tokens": toks, "len": src.len(), "boundaries": bounds})
                }
            }
        }
        "block_comment_length" => {
            let b: Vec<u8> = v["bytes"].as_array().unwrap().iter().map(|x| x.as_u64().unwrap() as u8).collect();
            json!({"len": wac_parser::lexer::verif::block_comment_length(&b)})
        }
        "lex_string" => {
            // source = `"` + body : the string token (or error) as the public lexer reports it
            let src = str_field(v, "source");
            match Lexer::new(&src) {
                Err(_) => json!({"screened": true}),
                Ok(mut lx) => match lx.next() {
                    None => json!({"none": true}),
                    Some((r, sp)) => json!({"ok": r.is_ok(), "tok": format!("{r:?}"), "span": [sp.offset(), sp.len()]}),
                },
            }
        }
        "lex_one" => {
            let src = str_field(v, "source");
            match Lexer::new(&src) {
                Err((e, _)) => json!({"screened": format!("{e:?}")}),
                Ok(lx) => {
                    let toks: Vec<Value> = lx.take(16).map(|(r, sp)| json!({"tok": format!("{r:?}"), "span": [sp.offset(), sp.len()]})).collect();
                    json!({"tokens": toks})
                }
            }
        }
        "parse_pkgref" => {
            use wac_parser::{Document, ImportType, PrimaryExpr, Statement};
            let src = str_field(v, "source");
            match Document::parse(&src) {
                Err(e) => {
                    let s = format!("{e:?}");
                    if s.contains("InvalidVersion") { json!({"parts": {"error": "InvalidVersion"}, "detail": s}) } else { json!({"parse_error": s}) }
                }
                Ok(doc) => {
                    let mut out = json!({"none": true});
                    for st in &doc.statements {
                        match st {
                            Statement::Import(i) => {
                                if let ImportType::Package(p) = &i.ty {
                                    out = json!({"parts": {"name": p.name, "segments": p.segments, "version": p.version.as_ref().map(|v| v.to_string())},
                                                 "span": [p.span.offset(), p.span.len()]});
                                }
                            }
                            Statement::Let(l) => {
                                if let PrimaryExpr::New(n) = &l.expr.primary {
                                    out = json!({"parts": {"name": n.package.name, "version": n.package.version.as_ref().map(|v| v.to_string())}});
                                }
                            }
                            _ => {}
                        }
                    }
                    out
                }
            }
        }
        "discover" => {
            let src = str_field(v, "source");
            match wac_parser::Document::parse(&src) {
                Err(e) => json!({"parse_error": format!("{e:?}")}),
                Ok(doc) => match wac_resolver::packages(&doc) {
                    Err(e) => json!({"error": format!("{e:?}")}),
                    Ok(keys) => {
                        let ks: Vec<String> = keys
                            .keys()
                            .map(|k| match k.version {
                                Some(v) => format!("{}@{}", k.name, v),
                                None => k.name.to_string(),
                            })
                            .collect();
                        json!({"packages": ks})
                    }
                },
            }
        }
        _ => unreachable!(),
    }
}
