//! C07/C09/C11: build wac `Types` from a small JSON type language and run the real checker on them.
use serde_json::{json, Value};
use std::collections::HashSet;
use wac_types::*;

pub fn prim(s: &str) -> PrimitiveType {
    match s {
        "u8" => PrimitiveType::U8,
        "s8" => PrimitiveType::S8,
        "u16" => PrimitiveType::U16,
        "s16" => PrimitiveType::S16,
        "u32" => PrimitiveType::U32,
        "s32" => PrimitiveType::S32,
        "u64" => PrimitiveType::U64,
        "s64" => PrimitiveType::S64,
        "f32" => PrimitiveType::F32,
        "f64" => PrimitiveType::F64,
        "char" => PrimitiveType::Char,
        "bool" => PrimitiveType::Bool,
        "string" => PrimitiveType::String,
        "error-context" => PrimitiveType::ErrorContext,
        _ => panic!("unknown primitive {s}"),
    }
}

thread_local! {
    /// named types created by `mktype` steps of a graph script ({"ref": name} refers to them)
    pub static NAMED: std::cell::RefCell<std::collections::HashMap<String, ValueType>> = Default::default();
}

fn opt_vt(t: &mut Types, v: &Value) -> Option<ValueType> {
    if v.is_null() {
        None
    } else {
        Some(value_type(t, v))
    }
}

pub fn value_type(t: &mut Types, v: &Value) -> ValueType {
    let o = v.as_object().expect("type object");
    let (k, x) = o.iter().next().expect("one key");
    let d = match k.as_str() {
        "prim" => return ValueType::Primitive(prim(x.as_str().unwrap())),
        "ref" => return NAMED.with(|n| *n.borrow().get(x.as_str().unwrap()).expect("unknown named type")),
        "tuple" => DefinedType::Tuple(x.as_array().unwrap().iter().map(|e| value_type(t, e)).collect()),
        "list" => DefinedType::List(value_type(t, x)),
        "fixed" => {
            let a = x.as_array().unwrap();
            DefinedType::FixedSizeList(value_type(t, &a[0]), a[1].as_u64().unwrap() as u32)
        }
        "option" => DefinedType::Option(value_type(t, x)),
        "result" => {
            let a = x.as_array().unwrap();
            DefinedType::Result {
                ok: opt_vt(t, &a[0]),
                err: opt_vt(t, &a[1]),
            }
        }
        "variant" => DefinedType::Variant(Variant {
            cases: x
                .as_array()
                .unwrap()
                .iter()
                .map(|c| (c[0].as_str().unwrap().to_string(), opt_vt(t, &c[1])))
                .collect(),
        }),
        "record" => DefinedType::Record(Record {
            fields: x
                .as_array()
                .unwrap()
                .iter()
                .map(|c| (c[0].as_str().unwrap().to_string(), value_type(t, &c[1])))
                .collect(),
        }),
        "flags" => DefinedType::Flags(Flags(x.as_array().unwrap().iter().map(|n| n.as_str().unwrap().to_string()).collect())),
        "enum" => DefinedType::Enum(Enum(x.as_array().unwrap().iter().map(|n| n.as_str().unwrap().to_string()).collect())),
        "stream" => DefinedType::Stream(opt_vt(t, x)),
        "future" => DefinedType::Future(opt_vt(t, x)),
        "alias" => DefinedType::Alias(value_type(t, x)),
        "own" | "borrow" => {
            let id = t.add_resource(Resource {
                name: x.as_str().unwrap().to_string(),
                alias: None,
            });
            return if k == "own" { ValueType::Own(id) } else { ValueType::Borrow(id) };
        }
        _ => panic!("unknown type constructor {k}"),
    };
    ValueType::Defined(t.add_defined_type(d))
}

fn core_type(v: &Value) -> CoreType {
    match v.as_str().unwrap() {
        "i32" => CoreType::I32,
        "i64" => CoreType::I64,
        "f32" => CoreType::F32,
        "f64" => CoreType::F64,
        "v128" => CoreType::V128,
        "funcref" => CoreType::Ref(CoreRefType {
            nullable: true,
            heap_type: HeapType::Func,
        }),
        "externref" => CoreType::Ref(CoreRefType {
            nullable: true,
            heap_type: HeapType::Extern,
        }),
        o => panic!("core type {o}"),
    }
}

fn ref_type(v: &Value) -> CoreRefType {
    match v.as_str().unwrap_or("funcref") {
        "externref" => CoreRefType {
            nullable: true,
            heap_type: HeapType::Extern,
        },
        _ => CoreRefType {
            nullable: true,
            heap_type: HeapType::Func,
        },
    }
}

pub fn core_extern(v: &Value) -> CoreExtern {
    let o = v.as_object().unwrap();
    let (k, x) = o.iter().next().unwrap();
    let sig = |x: &Value| CoreFuncType {
        params: x[0].as_array().unwrap().iter().map(core_type).collect(),
        results: x[1].as_array().unwrap().iter().map(core_type).collect(),
    };
    match k.as_str() {
        "func" => CoreExtern::Func(sig(x)),
        "tag" => CoreExtern::Tag(sig(x)),
        "table" => CoreExtern::Table {
            element_type: ref_type(&x["element_type"]),
            initial: x["initial"].as_u64().unwrap(),
            maximum: x["maximum"].as_u64(),
            table64: x["table64"].as_bool().unwrap(),
            shared: x["shared"].as_bool().unwrap(),
        },
        "memory" => CoreExtern::Memory {
            memory64: x["memory64"].as_bool().unwrap(),
            shared: x["shared"].as_bool().unwrap(),
            initial: x["initial"].as_u64().unwrap(),
            maximum: x["maximum"].as_u64(),
            page_size_log2: x["page_size_log2"].as_u64().map(|p| p as u32),
        },
        "global" => CoreExtern::Global {
            val_type: core_type(&x["val_type"]),
            mutable: x["mutable"].as_bool().unwrap(),
            shared: x["shared"].as_bool().unwrap(),
        },
        _ => panic!("extern {k}"),
    }
}

pub fn item(t: &mut Types, v: &Value) -> ItemKind {
    let o = v.as_object().expect("item object");
    let (k, x) = o.iter().next().unwrap();
    match k.as_str() {
        "value" => ItemKind::Value(value_type(t, x)),
        "type" => ItemKind::Type(Type::Value(value_type(t, x))),
        "func" => {
            let params = x["params"]
                .as_array()
                .unwrap()
                .iter()
                .map(|p| (p[0].as_str().unwrap().to_string(), value_type(t, &p[1])))
                .collect();
            let result = opt_vt(t, &x["result"]);
            ItemKind::Func(t.add_func_type(FuncType {
                params,
                result,
                is_async: x["async"].as_bool().unwrap_or(false),
            }))
        }
        "instance" => {
            let exports = x
                .as_array()
                .unwrap()
                .iter()
                .map(|e| (e[0].as_str().unwrap().to_string(), item(t, &e[1])))
                .collect();
            ItemKind::Instance(t.add_interface(Interface {
                id: None,
                uses: Default::default(),
                exports,
            }))
        }
        "component" => {
            let imports = x["imports"]
                .as_array()
                .unwrap()
                .iter()
                .map(|e| (e[0].as_str().unwrap().to_string(), item(t, &e[1])))
                .collect();
            let exports = x["exports"]
                .as_array()
                .unwrap()
                .iter()
                .map(|e| (e[0].as_str().unwrap().to_string(), item(t, &e[1])))
                .collect();
            ItemKind::Component(t.add_world(World {
                id: None,
                uses: Default::default(),
                imports,
                exports,
            }))
        }
        "module" => {
            let imports = x["imports"]
                .as_array()
                .unwrap()
                .iter()
                .map(|e| ((e[0][0].as_str().unwrap().to_string(), e[0][1].as_str().unwrap().to_string()), core_extern(&e[1])))
                .collect();
            let exports = x["exports"]
                .as_array()
                .unwrap()
                .iter()
                .map(|e| (e[0].as_str().unwrap().to_string(), core_extern(&e[1])))
                .collect();
            ItemKind::Module(t.add_module_type(ModuleType { imports, exports }))
        }
        _ => panic!("item {k}"),
    }
}

pub fn run(op: &str, v: &Value) -> Value {
    match op {
        // {"a": item, "b": item, "same_arena": bool, "warm": [[item,item]..]} -> is a <: b ?
        "subtype" => {
            let mut ta = Types::default();
            let mut tb = Types::default();
            let same = v["same_arena"].as_bool().unwrap_or(false);
            let a = item(&mut ta, &v["a"]);
            let b = if same { item(&mut ta, &v["b"]) } else { item(&mut tb, &v["b"]) };
            let mut cache = HashSet::new();
            let mut c = SubtypeChecker::new(&mut cache);
            if v["contravariant"].as_bool().unwrap_or(false) {
                c.invert();
            }
            let r = if same { c.is_subtype(a, &ta, b, &ta) } else { c.is_subtype(a, &ta, b, &tb) };
            // a second query through the same (now populated) memo must agree
            let r2 = if same { c.is_subtype(a, &ta, b, &ta) } else { c.is_subtype(a, &ta, b, &tb) };
            json!({"ok": r.is_ok(), "again": r2.is_ok(), "err": r.err().map(|e| format!("{e:#}"))})
        }
        // {"reqs": [[name, item], ...]} : aggregate the requirements in order (each from its own Types collection)
        "aggregate" => {
            let mut agg = TypeAggregator::default();
            let mut cache = HashSet::new();
            let mut checker = SubtypeChecker::new(&mut cache);
            let mut names = vec![];
            let mut srcs: Vec<(Types, ItemKind)> = vec![];
            for r in v["reqs"].as_array().unwrap() {
                let name = r[0].as_str().unwrap().to_string();
                let mut t = Types::default();
                let k = item(&mut t, &r[1]);
                names.push(name);
                srcs.push((t, k));
            }
            for (i, (t, k)) in srcs.iter().enumerate() {
                agg = match agg.aggregate(&names[i], t, *k, &mut checker) {
                    Ok(a) => a,
                    Err(e) => return json!({"error": format!("{e:#}"), "at": i}),
                };
            }
            let imports: Vec<String> = agg.imports().map(|(n, _)| n.to_string()).collect();
            let canon: Vec<String> = names.iter().map(|n| agg.canonical_import_name(n).to_string()).collect();
            // does the merged import satisfy every contributor?  merged <: contributor
            let mut sat = vec![];
            for (i, (t, k)) in srcs.iter().enumerate() {
                let c = agg.canonical_import_name(&names[i]).to_string();
                let merged = agg.imports().find(|(n, _)| *n == c).map(|(_, k)| k);
                match merged {
                    None => sat.push(Value::Null),
                    Some(mk) => {
                        let mut cache2 = HashSet::new();
                        let mut c2 = SubtypeChecker::new(&mut cache2);
                        sat.push(json!(c2.is_subtype(mk, agg.types(), *k, t).is_ok()));
                    }
                }
            }
            json!({"imports": imports, "canonical": canon, "satisfies": sat})
        }
        // {"world": {imports, exports}, "component": {imports, exports}} -> wac_types::validate_target
        "validate_target" => {
            let mut t = Types::default();
            let w = match item(&mut t, &json!({"component": v["world"]})) { ItemKind::Component(id) => id, _ => unreachable!() };
            let c = match item(&mut t, &json!({"component": v["component"]})) { ItemKind::Component(id) => id, _ => unreachable!() };
            match validate_target(&t, w, c) {
                Ok(()) => json!({"ok": true}),
                Err(r) => json!({"ok": false, "imports_not_in_target": r.imports_not_in_target().collect::<Vec<_>>(),
                                 "missing_exports": r.missing_exports().map(|(n, _)| n).collect::<Vec<_>>(),
                                 "mismatched": r.mismatched_types().map(|(n, _, _)| n).collect::<Vec<_>>()}),
            }
        }
        "package_from_wat" => {
            let wat_text = v["wat"].as_str().unwrap();
            let bytes = match wat::parse_str(wat_text) {
                Ok(b) => b,
                Err(e) => return json!({"wat_error": format!("{e}")}),
            };
            let mut types = Types::default();
            match Package::from_bytes("test:pkg", None, bytes, &mut types) {
                Ok(p) => json!({"ok": true, "definitions": p.definitions().keys().cloned().collect::<Vec<_>>()}),
                Err(e) => json!({"error": format!("{e:#}")}),
            }
        }
        _ => unreachable!(),
    }
}

/// {"wit": text, "world": name}: build a real component for the world (dummy core module), load it with Package::from_bytes and
/// describe the converted world: imports / exports with kinds, function signatures, interface ids, `use` tables, resource aliases
pub fn package_from_wit(v: &Value) -> Value {
    use wit_component::{ComponentEncoder, StringEncoding};
    let wit = v["wit"].as_str().unwrap();
    let world_name = v["world"].as_str().unwrap_or("w");
    let mut resolve = wit_parser::Resolve::default();
    let id = match resolve.push_str("test.wit", wit) {
        Ok(id) => id,
        Err(e) => return json!({"wit_error": format!("{e:#}")}),
    };
    let world = match resolve.select_world(&[id], Some(world_name)) {
        Ok(w) => w,
        Err(e) => return json!({"wit_error": format!("{e:#}")}),
    };
    let mut module = wit_component::dummy_module(&resolve, world, wit_parser::ManglingAndAbi::Legacy(wit_parser::LiftLowerAbi::Sync));
    if let Err(e) = wit_component::embed_component_metadata(&mut module, &resolve, world, StringEncoding::default()) {
        return json!({"wit_error": format!("{e:#}")});
    }
    let bytes = match ComponentEncoder::default().validate(true).module(&module).and_then(|mut e| e.encode()) {
        Ok(b) => b,
        Err(e) => return json!({"wit_error": format!("{e:#}")}),
    };
    let mut types = Types::default();
    let pkg = match Package::from_bytes("test:pkg", None, bytes, &mut types) {
        Ok(p) => p,
        Err(e) => return json!({"error": format!("{e:#}")}),
    };
    let w = &types[pkg.ty()];
    json!({"imports": w.imports.iter().map(|(n, k)| json!([n, describe_item(&types, *k, 0)])).collect::<Vec<_>>(),
           "exports": w.exports.iter().map(|(n, k)| json!([n, describe_item(&types, *k, 0)])).collect::<Vec<_>>()})
}

fn describe_vt(t: &Types, v: ValueType) -> String {
    match v {
        ValueType::Primitive(p) => format!("{p:?}").to_lowercase(),
        ValueType::Borrow(r) => format!("borrow<{}>", t[r].name),
        ValueType::Own(r) => format!("own<{}>", t[r].name),
        ValueType::Defined(id) => match &t[id] {
            DefinedType::Tuple(ts) => format!("tuple<{}>", ts.iter().map(|x| describe_vt(t, *x)).collect::<Vec<_>>().join(",")),
            DefinedType::List(x) => format!("list<{}>", describe_vt(t, *x)),
            DefinedType::Option(x) => format!("option<{}>", describe_vt(t, *x)),
            DefinedType::Result { ok, err } => format!("result<{},{}>", ok.map(|x| describe_vt(t, x)).unwrap_or("_".into()), err.map(|x| describe_vt(t, x)).unwrap_or("_".into())),
            DefinedType::Record(r) => format!("record{{{}}}", r.fields.iter().map(|(n, x)| format!("{n}:{}", describe_vt(t, *x))).collect::<Vec<_>>().join(",")),
            DefinedType::Variant(r) => format!("variant{{{}}}", r.cases.iter().map(|(n, x)| format!("{n}:{}", x.map(|x| describe_vt(t, x)).unwrap_or("_".into()))).collect::<Vec<_>>().join(",")),
            DefinedType::Flags(f) => format!("flags{{{}}}", f.0.iter().cloned().collect::<Vec<_>>().join(",")),
            DefinedType::Enum(f) => format!("enum{{{}}}", f.0.iter().cloned().collect::<Vec<_>>().join(",")),
            DefinedType::Alias(x) => format!("alias<{}>", describe_vt(t, *x)),
            other => format!("{other:?}"),
        },
    }
}

fn describe_item(t: &Types, k: ItemKind, depth: usize) -> Value {
    if depth > 3 {
        return json!("...");
    }
    match k {
        ItemKind::Func(id) => {
            let f = &t[id];
            json!({"func": {"params": f.params.iter().map(|(n, x)| json!([n, describe_vt(t, *x)])).collect::<Vec<_>>(), "result": f.result.map(|x| describe_vt(t, x)), "async": f.is_async}})
        }
        ItemKind::Instance(id) => {
            let i = &t[id];
            json!({"instance": {"id": i.id, "uses": i.uses.iter().map(|(n, u)| json!([n, t[u.interface].id, u.name])).collect::<Vec<_>>(),
                                "exports": i.exports.iter().map(|(n, k)| json!([n, describe_item(t, *k, depth + 1)])).collect::<Vec<_>>()}})
        }
        ItemKind::Type(Type::Resource(r)) => json!({"resource": {"name": t[r].name, "alias_of": t[r].alias.map(|a| t[a.source].name.clone()), "alias_owner": t[r].alias.and_then(|a| a.owner).map(|o| t[o].id.clone())}}),
        ItemKind::Type(Type::Value(v)) => json!({"type": describe_vt(t, v)}),
        ItemKind::Type(other) => json!({"type": format!("{other:?}")}),
        ItemKind::Value(v) => json!({"value": describe_vt(t, v)}),
        other => json!(format!("{other:?}")),
    }
}
