"""C08 — decoding a package preserves its component type (conversion rules of TypeConverter, assume-guarantee per rule).

Encoded (real MIR, wac-types dump): TypeConverter::{entity, ty, component_val_type, component_func_type, component_instance_type,
component_type, component_defined_type, resource, use_or_own, find_owner}. The input is wasmparser's type arena: every `wasm_types[id]`
is a lazily instantiated value of the wasmparser struct / enum (declarations read from the wasmparser sources in the cargo registry),
`peel_alias` is an uninterpreted partial function. For the rule under check every *other* converter call is replaced by its contract
(an arbitrary result per argument, success decided by an uninterpreted predicate) - the same induction on type depth as C07.
The output arena (`Types::add_*`) is modelled as events carrying the value added.
NOT claimed: that wasmparser's arena has the shape wasmparser documents (ids, alias chains) - that is the validator's business;
module_type / entity_type / func_type (core types); the second half of the property (re-encoded component types, encoding.rs).
"""
import sys, os, re, json, itertools
sys.path.insert(0, os.path.dirname(os.path.dirname(os.path.abspath(__file__))))
import z3
from z3 import And, Or, Not, If, BoolVal, BitVecVal, ULT, ULE, UGT, UGE, Implies, Int, Function, IntSort, BoolSort, BitVec, Bool
from m2s import harness, engine, models, containers, rustdecl
from m2s.engine import Lazy, Agg, Enum, StrV, Ref, Opaque, bv64, UNIT, fresh_id
from m2s.containers import VecV, MapV, lazy_atom, Atom, to_atom
from m2s.harness import ev_int, ev_bool, run_fn, Inconclusive

CONV_OK = Function('conv_ok', IntSort(), IntSort(), BoolSort())      # converter #f succeeds on the argument with identity a
PEEL_SOME = Function('peel_some', IntSort(), BoolSort())

SUBS = ['entity', 'ty', 'component_val_type', 'component_func_type', 'component_instance_type', 'component_type', 'component_defined_type', 'resource', 'module_type',
        'use_or_own', 'find_owner']
RET_TY = {'entity': 'component::ItemKind', 'ty': 'component::Type', 'component_val_type': 'component::ValueType', 'component_func_type': 'component::FuncTypeId',
          'component_instance_type': 'component::InterfaceId', 'component_type': 'component::WorldId', 'component_defined_type': 'component::ValueType',
          'resource': 'component::ResourceId', 'module_type': 'core::ModuleTypeId'}

def ident(x):
    """identity (Int) of a wasmparser id / value: lazily instantiated values by their atom; enum aggregates built by the MIR by (variant, payload identity)"""
    if isinstance(x, Lazy): return lazy_atom(x).t
    if isinstance(x, Atom): return x.t
    raise engine.EngineError(f'identity of {x!r}')

class C8:
    def __init__(s, chk):
        s.chk = chk; s.fns = chk.load('wac-types'); s.decls = chk.decls('wac-types')
        rustdecl.load_extern(s.decls, 'wasmparser-0.247.0', ['src/validator/component_types.rs', 'src/validator/types.rs', 'src/validator/core.rs', 'src/readers/component/types.rs'])
        s.K = chk.pick(2, 3)
        # wasmparser's own declarations (a homonym in the repository must not shadow them)
        s.ext = rustdecl.Decls()
        import glob
        base = sorted(glob.glob(os.path.expanduser('~/.cargo/registry/src/*/wasmparser-0.247.0')))[-1]
        for f in ('src/validator/component_types.rs', 'src/validator/types.rs', 'src/readers/component/types.rs'): rustdecl.parse_file(os.path.join(base, f), s.ext)
    def fidx(s, struct, field):
        d = s.ext if struct in s.ext.structs else s.decls
        return [n for n, t in d.structs[struct][1]].index(field)
    def vidx(s, enum, variant):
        d = s.ext if enum in s.ext.enums else s.decls
        return d.enum_index(enum, variant)
    def variants(s, enum):
        d = s.ext if enum in s.ext.enums else s.decls
        return d.enums[enum]
    def fn(s, eng, name):
        c = [n for n in eng.fns if re.search(r'^package::<impl at [^>]*>::' + name + r'$', n) and 'TypeConverter' in eng.fns[n].header]
        if len(c) != 1: raise engine.EngineError(f'TypeConverter::{name}: {c}')
        return c[0]

def make_engine(C, rule, loop=None):
    chk = C.chk
    def key_of(ctx, v):
        v = ctx.deref(v) if isinstance(v, Ref) else v
        if isinstance(v, Lazy): return v.name
        if isinstance(v, Enum):
            var = list(v.vars)[0]; fs = v.vars[var]
            return f'{var}({",".join(key_of(ctx, f) for f in fs)})'
        if isinstance(v, Agg): return '(' + ','.join(key_of(ctx, f) for f in v.f) + ')'
        if isinstance(v, Atom): return str(v.t)
        return repr(v)
    def m_wasm_index(ctx):
        idv = ctx.deref(ctx.args[1]); ty = re.search(r'Index<(?:wasmparser::\w+::)?(\w+)>', ctx.callee).group(1)
        tyname = {'ComponentFuncTypeId': 'ComponentFuncType', 'ComponentInstanceTypeId': 'ComponentInstanceType', 'ComponentTypeId': 'ComponentType',
                  'ComponentDefinedTypeId': 'ComponentDefinedType', 'ComponentCoreModuleTypeId': 'ModuleType', 'CoreTypeId': 'SubType'}.get(ty, ty)
        return ctx.ret(Ref(Lazy(f'wasm[{key_of(ctx, idv)}]', tyname), ()))
    def m_identity(ctx): return ctx.ret(ctx.args[0])
    def m_deref_val(ctx): return ctx.ret(ctx.deref(ctx.args[0]))
    def m_peel(ctx):
        idv = ctx.deref(ctx.args[1]); k = key_of(ctx, idv); nxt = Lazy(f'peel({k})', 'ComponentAnyTypeId'); a = anyid_ident(C, ctx, idv)
        ctx.event('peel', a); return ctx.ret(models.opt(PEEL_SOME(a), nxt))
    def m_add(ctx):
        kind = re.search(r'Types::add_(\w+)$', ctx.callee).group(1); val = ctx.args[1]
        k = len(ctx.st.trace); cell = ctx.st.alloc(val); ctx.event('add', kind, cell, k)
        return ctx.ret(Agg((Agg((bv64(cell), BitVecVal(1, 32)), 'Id'),), 'arena:' + kind))      # XId(id_arena::Id { idx, arena_id })
    def m_arena_index(ctx):
        idv = ctx.deref(ctx.args[1])
        if isinstance(idv, Agg) and (idv.ty or '').startswith('arena:'): return ctx.ret(Ref(z3.simplify(idv.f[0].f[0]).as_long()))
        if isinstance(idv, Lazy):
            # an id produced by another converter (contract): its arena slot is an arbitrary value that this rule may update in place
            key = 'arena:' + idv.name
            if key not in ctx.st.ghost:
                ty = re.search(r'Index(?:Mut)?<(?:component::)?(\w+)Id>', ctx.callee); tn = ty.group(1) if ty else None
                slot = Lazy(f'arena[{idv.name}]', tn)
                if tn in ('Interface', 'World'):
                    # stated bound: the owner's `uses` table is empty before the call (other fields arbitrary)
                    so = [x for x, t in C.decls.structs[tn][1]]
                    slot = Agg(tuple(MapV(()) if x == 'uses' else slot.kid(str(i)) for i, x in enumerate(so)), tn)
                ctx.st.ghost[key] = ctx.st.alloc(slot)
            return ctx.ret(Ref(ctx.st.ghost[key]))
        raise engine.EngineError(f'arena index with {idv!r}')
    def sub(name):
        fi = SUBS.index(name)
        def h(ctx):
            args = [ctx.deref(a) if isinstance(a, Ref) else a for a in ctx.args[1:]]
            k = '|'.join(key_of(ctx, a) for a in args)
            ids = [arg_ident(C, ctx, a) for a in args]
            ctx.event('call', name, tuple(ids), tuple(args))
            if name == 'use_or_own': return ctx.ret(UNIT)
            if name == 'find_owner':
                return ctx.ret(models.opt(Bool(f'owner_found({k})'), Ref(Lazy(f'owner({k})', '(package::Owner, std::string::String)'), ())))
            res = Lazy(f'{name}({k})', RET_TY[name])
            if name == 'resource': return ctx.ret(res)
            a = z3.Sum([z3.IntVal(0)] + [x * (7 ** i_) for i_, x in enumerate(ids) if x is not None]) if ids else z3.IntVal(0)
            return ctx.ret(models.result(CONV_OK(z3.IntVal(fi), a), res, Opaque(f'conv-error:{name}')))
        return h
    ov = [(r'^<(?:std::rc::)?Rc<wasmparser::types::Types> as Clone>::clone$', m_deref_val), (r'^<(?:std::rc::)?Rc<wasmparser::types::Types> as Deref>::deref$', m_identity),
          (r'^<wasmparser::types::Types as Index<.*>>::index$', m_wasm_index), (r'peel_alias(?:::<.*>)?$', m_peel),
          (r'^component::Types::add_\w+$', m_add), (r'^<component::Types as Index(?:Mut)?<.*>>::index(?:_mut)?$', m_arena_index),
          (r'^<(?:wasmparser::names::)?KebabStr(?:ing)? as (?:ToString>::to_string|ToOwned>::to_owned|Deref>::deref)$|^(?:wasmparser::names::)?KebabStr(?:ing)?::as_str$|^<str as ToOwned>::to_owned$', m_identity),
          (r'^<(?:wasmparser::names::)?KebabString as Clone>::clone$|^<std::string::String as Clone>::clone$', m_deref_val)]
    for n in SUBS:
        if n != rule: ov.append((r'^TypeConverter::<.*>::' + n + r'$', sub(n)))
    eng = chk.engine(C.fns, C.decls, overrides=ov, vec_cap=C.K, loop_bound=(loop or C.K) + 3, rec_bound=1); eng.atom_strings = True; eng.hash_order_symbolic = False
    def eq_hook(a, b):
        t = (a.ty or b.ty or '')
        if t == '' or t.endswith('Id') or 'Id@' in t or 'TypeId' in t or 'Kebab' in t or t.endswith('String') or t.endswith('str'): return lazy_atom(a).t == lazy_atom(b).t
        return None
    eng.eq_hook = eq_hook
    return eng

def anyid_ident(C, ctx, v):
    """identity of a ComponentAnyTypeId value (lazy, or an enum aggregate built around a lazy id)"""
    v = ctx.deref(v) if isinstance(v, Ref) else v
    if isinstance(v, Lazy): return lazy_atom(v).t
    if isinstance(v, Enum):
        var = list(v.vars)[0]
        if not v.vars[var]: raise engine.EngineError('no payload')
        inner = v.vars[var][0]
        return C.vidx('ComponentAnyTypeId', var) * 1000003 + anyid_ident(C, ctx, inner) if var in [x[0] for x in C.variants('ComponentAnyTypeId')] else anyid_ident(C, ctx, inner)
    if isinstance(v, Agg) and len(v.f) == 1: return anyid_ident(C, ctx, v.f[0])
    raise engine.EngineError(f'identity of type id {v!r}')
def arg_ident(C, ctx, a):
    try:
        if isinstance(a, (Lazy, Enum)) or (isinstance(a, Agg) and len(a.f) == 1): return anyid_ident(C, ctx, a)
        if isinstance(a, Atom): return a.t
    except engine.EngineError: return None
    return None

def converter(C, st, cache=(), owners=(), resource_map=()):
    order = [n for n, t in C.decls.structs['TypeConverter'][1]]
    f = [None] * len(order)
    f[order.index('types')] = Ref(Lazy('out_types', 'component::Types'), ()); f[order.index('wasm_types')] = Lazy('wasm_types', 'wasmparser::types::Types')
    f[order.index('cache')] = MapV(tuple(cache), hashed=True); f[order.index('resource_map')] = MapV(tuple(resource_map), hashed=True); f[order.index('owners')] = MapV(tuple(owners), hashed=True)
    cell = st.alloc(Agg(f, 'TypeConverter'))
    return cell, order

def run_rule(C, rule, args, cache=(), owners=(), resource_map=(), assumes=(), loop=None):
    eng = make_engine(C, rule, loop)
    for a in assumes: eng.assume(a)
    fname = C.fn(eng, rule)
    st = engine.State(); cell, order = converter(C, st, cache, owners, resource_map)
    fn = eng.fns[fname]; fr = engine.Frame(fn)
    vals = [Ref(cell)] + list(args)
    assert len(vals) == fn.nargs, (rule, len(vals), fn.nargs)
    for (loc, ty), a in zip(fn.params, vals): fr.env[loc] = st.alloc(a)
    st.frames = [fr]; eng.run(st); C.chk.account(eng, [fname])
    return eng, eng.out, cell, order

def any_key(C, variant, idv):
    """AnyTypeId::Component(ComponentAnyTypeId::<variant>(id)) as the MIR builds it"""
    return Enum('AnyTypeId', bv64(C.vidx('AnyTypeId', 'Component')), {'Component': (Enum('ComponentAnyTypeId', bv64(C.vidx('ComponentAnyTypeId', variant)), {variant: (idv,)}),)})

def post_cache(eng, o, cell, order): return o.st.heap[cell].f[order.index('cache')]
def adds(o): return [t for t in o.st.trace if t[0] == 'add']
def calls(o, name=None): return [t for t in o.st.trace if t[0] == 'call' and (name is None or t[1] == name)]

def decide(C, what, eng, bads, base_extra=()):
    base = list(eng.assumptions) + list(base_extra)
    kinds = {}
    bads = [b if len(b) == 4 else b + (None,) for b in bads]
    for k, o, c, _ in bads: kinds[k] = kinds.get(k, 0) + 1
    C.chk.notes.append(f'{what}: outcome classes {kinds}')
    r, m = C.chk.obligation(what, base + [Or([c for _, _, c, _ in bads] + [BoolVal(False)])], base=base)
    if r == 'sat':
        hit = [(k, o) for k, o, c, _ in bads if ev_bool(m, c)]
        if os.environ.get('C08_DEBUG'):
            for k, o, c, cs in bads:
                if ev_bool(m, c) and cs:
                    for i, x in enumerate(cs):
                        if not ev_bool(m, x): print('  failing clause', i, str(z3.simplify(x))[:300])
                    print('  trace', [t[:3] for t in o.st.trace]); break
        role = 'convert-' + what.split(':')[0].strip().replace(' ', '-')
        C.chk.finding(role, f'{what}: outcome `{hit[0][0] if hit else "?"}` {hit[0][1].site if hit and hit[0][1].site else ""} contradicts the conversion rule (rule-level counterexample over the MIR; calls {[(t[1]) for t in (calls(hit[0][1]) if hit else [])][:8]})', {'rule': what})
    return r

def unbox(l):
    """the slice behind a lazily instantiated Box<[T]> (Box -> Unique -> NonNull -> *)"""
    return l.kid('0').kid('0').kid('*')
def okres(v): return isinstance(v, Enum) and 'Ok' in v.vars
def lz_items(l, n, fmt='[{}]'): return [l.kid(fmt.format(i)) for i in range(n)]

# ---------------------------------------------------------------------------- rules

def cache_variants(C, variant, idv, val_variant):
    """pre-states of the cache: empty / holding the key being converted / holding an unrelated key"""
    hit_val = Lazy('cached_id', 'cached')
    ent = Enum('Entity', bv64(C.vidx('Entity', 'Type')), {'Type': (Enum('Type@component.rs' if 'Type@component.rs' in C.decls.enums else 'Type', bv64(type_idx(C, val_variant)), {val_variant: (hit_val,)}),)})
    other = Lazy('other_id', type(idv).__name__)
    return [('empty', (), None), ('hit', ((any_key(C, variant, idv), ent),), hit_val)]

def type_idx(C, v):
    key = C.decls.find_enum(['component', 'Type'], v)[0]
    return C.decls.enum_index(key, v)

def rule_func_type(C):
    K = C.K
    fid = Lazy('func_id', 'ComponentFuncTypeId')
    for label, cache, hit_val in cache_variants(C, 'Func', fid, 'Func'):
        eng, outs, cell, order = run_rule(C, 'component_func_type', [fid], cache=cache)
        src = Lazy(f'wasm[{fid.name}]', 'ComponentFuncType')
        params = unbox(src.kid(str(C.fidx('ComponentFuncType', 'params')))); res = src.kid(str(C.fidx('ComponentFuncType', 'result'))); asy = src.kid(str(C.fidx('ComponentFuncType', 'async_')))
        n = params.len(); eng.assume(ULE(n, bv64(K)))
        # wasmparser validates that parameter names are unique
        for a_, b_ in itertools.combinations(range(K), 2): eng.assume(lazy_atom(params.kid(f'[{a_}]').kid('0')).t != lazy_atom(params.kid(f'[{b_}]').kid('0')).t)
        bads = []
        for o in outs:
            if o.kind == 'bound': continue
            if o.kind != 'ret': bads.append(('panic', o, o.cond())); continue
            v = o.value; cv = calls(o, 'component_val_type'); ad = adds(o)
            fi = SUBS.index('component_val_type')
            if hit_val is not None:
                ok = BoolVal(okres(v) and not ad and not cv and v.vars['Ok'][0] is hit_val)
                bads.append(('hit', o, And(o.cond(), Not(ok)))); continue
            # documented: convert every parameter type in order, then the result; stop at the first failure
            npar = len([t for t in cv]); cs = []
            if okres(v):
                cs.append(BoolVal(len(ad) == 1 and ad[0][1] == 'func_type'))
                if len(ad) == 1:
                    ft = o.st.heap[ad[0][2]]; fo = [x for x, t in C.decls.structs['FuncType'][1]]
                    pm = ft.f[fo.index('params')]; rs = ft.f[fo.index('result')]; ia = ft.f[fo.index('is_async')]
                    ents = pm.entries if isinstance(pm, MapV) else None
                    cs.append(BoolVal(ents is not None))
                    if ents is not None:
                        cs.append(n == bv64(len(ents)))
                        for i, (k, val) in enumerate(ents):
                            cs.append(to_atom(eng, eng.deref(o.st, k)).t == lazy_atom(params.kid(f'[{i}]').kid('0')).t)
                            cs.append(BoolVal(isinstance(val, Lazy) and val.name == f'component_val_type({params.kid(f"[{i}]").kid("1").name})'))
                        has_res = res.disc == bv64(1)
                        if isinstance(rs, Enum):
                            cs.append((rs.disc == bv64(1)) == has_res)
                            if 'Some' in rs.vars and rs.vars['Some']:
                                r0 = rs.vars['Some'][0]; cs.append(Implies(has_res, BoolVal(isinstance(r0, Lazy) and r0.name == f'component_val_type({res.kid("Some.0").name})')))
                        else: cs.append(BoolVal(False))
                        cs.append(eng.term(ia, 'bool') == asy.scalar('bool'))
                    pc = post_cache(eng, o, cell, order)
                    cs.append(BoolVal(len(pc.entries) == 1))
                    newid = v.vars['Ok'][0]
                    cs.append(BoolVal(isinstance(newid, Agg) and newid.ty == 'arena:func_type'))
                # every sub-conversion succeeded
                for t in cv: cs.append(CONV_OK(z3.IntVal(fi), t[2][0]))
                bads.append(('ok', o, And(o.cond(), Not(And(cs))), cs))
            else:
                # an error is returned exactly when the last sub-conversion made failed; nothing is added, the cache is unchanged
                cs = [BoolVal(len(cv) > 0 and not ad and len(post_cache(eng, o, cell, order).entries) == 0)]
                if cv: cs.append(Not(CONV_OK(z3.IntVal(fi), cv[-1][2][0])))
                bads.append(('err', o, And(o.cond(), Not(And(cs)))))
        decide(C, f'component_func_type [{label}]: parameter names and converted types in order, converted result, async flag; cached id reused', eng, bads)

def rule_entity(C):
    ent = Lazy('entity', 'ComponentEntityType'); name = Lazy('name', '&str')
    eng, outs, cell, order = run_rule(C, 'entity', [name, ent])
    variants = [v[0] for v in C.variants('ComponentEntityType')]
    eng.assume(ULT(ent.disc, bv64(len(variants))))
    want = {'Module': ('module_type', 'Module'), 'Func': ('component_func_type', 'Func'), 'Value': ('component_val_type', 'Value'), 'Type': ('ty', 'Type'),
            'Instance': ('component_instance_type', 'Instance'), 'Component': ('component_type', 'Component')}
    bads = []
    for o in outs:
        if o.kind == 'bound': continue
        if o.kind != 'ret': bads.append(('panic', o, o.cond())); continue
        cl = calls(o); v = o.value
        cs = [BoolVal(len(cl) == 1)]
        if len(cl) == 1:
            sub, ids, args = cl[0][1], cl[0][2], cl[0][3]
            alts = []
            for var, (fn_, kind) in want.items():
                if fn_ != sub: continue
                c = [ent.disc == bv64(C.vidx('ComponentEntityType', var))]
                # the payload handed on is the payload of the entity (for Type: the *created* id), the name is passed where the rule takes one
                payload = args[-1]
                fld = 'Type.1' if var == 'Type' else f'{var}.0'
                if var == 'Type':
                    ev_ = [f for f, t in [x for x in C.variants('ComponentEntityType') if x[0] == 'Type'][0][2]]
                    fld = f'Type.{ev_.index("created")}'
                c.append(BoolVal(isinstance(payload, Lazy) and payload is ent.kid(fld)))
                if okres(v):
                    iv = v.vars['Ok'][0]
                    c.append(BoolVal(isinstance(iv, Enum) and list(iv.vars)[0] == kind))
                    c.append(CONV_OK(z3.IntVal(SUBS.index(sub)), z3.Sum([z3.IntVal(0)] + [x * (7 ** i_) for i_, x in enumerate(ids) if x is not None])))
                else:
                    c.append(Not(CONV_OK(z3.IntVal(SUBS.index(sub)), z3.Sum([z3.IntVal(0)] + [x * (7 ** i_) for i_, x in enumerate(ids) if x is not None]))))
                alts.append(And(c))
            cs.append(Or(alts + [BoolVal(False)]))
        bads.append(('ret', o, And(o.cond(), Not(And(cs)))))
    decide(C, 'entity: each kind of entity is converted by the converter of that kind on its own payload and wrapped in the item kind of the same name', eng, bads)

def rule_find_owner(C):
    """find_owner(id): the owner recorded for the first type of the alias chain id, peel(id), peel(peel(id)), ... that has one"""
    L = C.chk.pick(3, 4)
    C.chk.bounds['find_owner'] = {'alias_chain_length_max': L, 'owners': 2}
    idv = Lazy('start_id', 'ComponentAnyTypeId')
    o1 = Lazy('owned1', 'ComponentAnyTypeId'); o2 = Lazy('owned2', 'ComponentAnyTypeId')
    w1 = Lazy('owner1', '(package::Owner, std::string::String)'); w2 = Lazy('owner2', '(package::Owner, std::string::String)')
    eng, outs, cell, order = run_rule(C, 'find_owner', [idv], owners=((o1, w1), (o2, w2)), loop=L + 1)
    a = lambda x: lazy_atom(x).t
    chain = [idv]
    for i in range(L): chain.append(Lazy(f'peel({chain[-1].name})', 'ComponentAnyTypeId'))
    base = [a(o1) != a(o2)] + [Not(PEEL_SOME(a(chain[L])))]        # stated bound: alias chains have at most L links
    def owner_of(x): return If(a(x) == a(o1), 1, If(a(x) == a(o2), 2, 0))
    # reference: first element of the chain (within its actual length) with an owner
    want = z3.IntVal(0)
    for i in reversed(range(L + 1)):
        reach = And([PEEL_SOME(a(chain[j])) for j in range(i)]) if i else BoolVal(True)
        want = If(And(reach, owner_of(chain[i]) != 0, And([owner_of(chain[j]) == 0 for j in range(i)])), owner_of(chain[i]), want)
    bads = []
    for o in outs:
        if o.kind == 'bound': bads.append(('bound', o, o.cond())); continue
        if o.kind != 'ret': bads.append(('panic', o, o.cond())); continue
        v = o.value
        got = z3.IntVal(0)
        if isinstance(v, Enum) and 'Some' in v.vars and v.vars['Some']:
            r = v.vars['Some'][0]; rv = eng.deref(o.st, r)
            which = 1 if rv is w1 else 2 if rv is w2 else 3
            got = If(v.disc == bv64(1), which, 0)
        bads.append(('ret', o, And(o.cond(), got != want)))
    decide(C, f'find_owner: the owner of the first type on the alias chain (<= {L} links) that has one', eng, bads, base_extra=base)

def rule_ty(C):
    tid = Lazy('any_id', 'ComponentAnyTypeId'); name = Lazy('name', '&str')
    eng, outs, cell, order = run_rule(C, 'ty', [name, tid])
    variants = [v[0] for v in C.variants('ComponentAnyTypeId')]
    eng.assume(ULT(tid.disc, bv64(len(variants))))
    want = {'Defined': ('component_defined_type', 'Value'), 'Func': ('component_func_type', 'Func'), 'Component': ('component_type', 'World'),
            'Instance': ('component_instance_type', 'Interface'), 'Resource': ('resource', 'Resource')}
    bads = []
    for o in outs:
        if o.kind == 'bound': continue
        if o.kind != 'ret': bads.append(('panic', o, o.cond())); continue
        cl = calls(o); v = o.value; cs = [BoolVal(len(cl) == 1)]
        if len(cl) == 1:
            sub, ids, args = cl[0][1], cl[0][2], cl[0][3]; alts = []
            for var, (fn_, kind) in want.items():
                if fn_ != sub: continue
                c = [tid.disc == bv64(C.vidx('ComponentAnyTypeId', var)), BoolVal(args[-1] is tid.kid(f'{var}.0'))]
                if okres(v): c.append(BoolVal(list(v.vars['Ok'][0].vars)[0] == kind))
                alts.append(And(c))
            cs.append(Or(alts + [BoolVal(False)]))
        bads.append(('ret', o, And(o.cond(), Not(And(cs)))))
    decide(C, 'ty: each kind of type id is converted by the converter of that kind on its own payload and wrapped in the type kind of the same meaning', eng, bads)

def exports_rule(C, rule, which):
    """component_instance_type / component_type: names and converted entities in order; identifier kept only for interface-like names; `use`/ownership bookkeeping called for type entries"""
    K = C.K
    tid = Lazy('the_id', 'ComponentInstanceTypeId' if rule == 'component_instance_type' else 'ComponentTypeId')
    has_name = Bool('has_name'); nm = Lazy('the_name', '&str'); colon = Function('has_colon', IntSort(), BoolSort())
    name = Enum('Option', If(has_name, bv64(1), bv64(0)), {'None': (), 'Some': (nm,)})
    def m_contains(ctx): return ctx.ret(colon(to_atom(ctx.eng, ctx.deref(ctx.args[0])).t))
    wsrc = 'ComponentInstanceType' if rule == 'component_instance_type' else 'ComponentType'
    eng = None
    for label, cache, hit_val in cache_variants(C, 'Instance' if rule == 'component_instance_type' else 'Component', tid, 'Interface' if rule == 'component_instance_type' else 'World'):
        eng = make_engine(C, rule)
        eng.overrides = [(re.compile(r'^core::str::<impl str>::contains::<char>$'), m_contains)] + eng.overrides
        fname = C.fn(eng, rule); st = engine.State(); cell, order = converter(C, st, cache)
        fn = eng.fns[fname]; fr = engine.Frame(fn)
        for (loc, ty), a in zip(fn.params, [Ref(cell), name, tid]): fr.env[loc] = st.alloc(a)
        src = Lazy(f'wasm[{tid.name}]', wsrc)
        lists = {w: src.kid(str(C.fidx(wsrc, w))) for w in which}
        for w, l in lists.items():
            eng.assume(ULE(l.len(), bv64(K)))
            for a_, b_ in itertools.combinations(range(K), 2): eng.assume(lazy_atom(l.kid(f'[{a_}].k')).t != lazy_atom(l.kid(f'[{b_}].k')).t)       # keys of an IndexMap
        st.frames = [fr]; eng.run(st); C.chk.account(eng, [fname]); outs = eng.out
        bads = []
        fi = SUBS.index('entity')
        for o in outs:
            if o.kind == 'bound': continue
            if o.kind != 'ret': bads.append(('panic', o, o.cond())); continue
            v = o.value; ad = adds(o); ce = calls(o, 'entity'); cu = calls(o, 'use_or_own')
            if hit_val is not None:
                bads.append(('hit', o, And(o.cond(), Not(BoolVal(okres(v) and not ad and not ce and v.vars['Ok'][0] is hit_val))))); continue
            cs = [BoolVal(len(ad) == 1)]
            if len(ad) == 1:
                val = o.st.heap[ad[0][2]]; so = [x for x, t in C.decls.structs['Interface' if rule == 'component_instance_type' else 'World'][1]]
                idf = val.f[so.index('id')]
                # id: Some(name) exactly when a name is given and it contains ':'
                want_id = And(has_name, colon(lazy_atom(nm).t))
                cs.append((idf.disc == bv64(1)) == want_id if isinstance(idf, Enum) else BoolVal(False))
                pos = 0
                for w in which:
                    l = lists[w]; m_ = val.f[so.index(w)]
                    ents = m_.entries if isinstance(m_, MapV) else None
                    if ents is None: cs.append(BoolVal(False)); continue
                    if okres(v): cs.append(l.len() == bv64(len(ents)))
                    for i, (k, x) in enumerate(ents):
                        cs.append(to_atom(eng, eng.deref(o.st, k)).t == lazy_atom(l.kid(f'[{i}].k')).t)
                        cs.append(BoolVal(isinstance(x, Lazy) and x.name.startswith('entity(') and l.kid(f'[{i}].v').name in x.name))
                # every entity conversion made succeeded, except possibly the last one on an error
                for t in (ce if okres(v) else ce[:-1]): cs.append(CONV_OK(z3.IntVal(fi), z3.Sum([z3.IntVal(0)] + [x * (7 ** i_) for i_, x in enumerate(t[2]) if x is not None])))
                if not okres(v): cs.append(BoolVal(len(ce) > 0)); cs.append(Not(CONV_OK(z3.IntVal(fi), z3.Sum([z3.IntVal(0)] + [x * (7 ** i_) for i_, x in enumerate(ce[-1][2]) if x is not None]))) if ce else BoolVal(False))
                # ownership bookkeeping: called for exactly the type entries (imports of a component, exports of an instance), with (referenced, created) of that entry
                tv = C.vidx('ComponentEntityType', 'Type'); fields = [f for f, t in [x for x in C.variants('ComponentEntityType') if x[0] == 'Type'][0][2]]
                lw = lists[which[0]]
                ncalls = z3.Sum([z3.IntVal(0)] + [If(And(ULT(bv64(i), lw.len()), lw.kid(f'[{i}].v').disc == bv64(tv)), 1, 0) for i in range(min(K, len(ce)))])
                if okres(v): cs.append(ncalls == len(cu))
                for t in cu:
                    args = t[3]
                    cs.append(Or([And(BoolVal(getattr(args[2], 'name', None) == lw.kid(f'[{i}].v').kid(f'Type.{fields.index("referenced")}').name and getattr(args[3], 'name', None) == lw.kid(f'[{i}].v').kid(f'Type.{fields.index("created")}').name),
                                      to_atom(eng, args[1]).t == lazy_atom(lw.kid(f'[{i}].k')).t) for i in range(K)] + [BoolVal(False)]))
                if okres(v):
                    pc = post_cache(eng, o, cell, order); cs.append(BoolVal(len(pc.entries) == 1))
            bads.append(('ok' if okres(v) else 'err', o, And(o.cond(), Not(And(cs))), cs))
        decide(C, f'{rule} [{label}]: entries in order with their names and converted entities, identifier only for `ns:pkg/...` names, ownership bookkeeping for type entries, cached id reused', eng, bads)

def conv_name(src): return f'component_val_type({src.name})'
def is_conv(x, src): return isinstance(x, Lazy) and x.name == conv_name(src)
def ok_of(o, cv_calls): return [CONV_OK(z3.IntVal(SUBS.index('component_val_type')), t[2][0]) for t in cv_calls]

def rule_defined_type(C):
    K = C.K
    did = Lazy('defined_id', 'ComponentDefinedTypeId')
    variants = [v[0] for v in C.variants('ComponentDefinedType')]
    dt_key = C.decls.find_enum(['component', 'DefinedType'], 'Record')[0]
    for label, cache, hit_val in [('empty', (), None)]:
        eng, outs, cell, order = run_rule(C, 'component_defined_type', [did], cache=cache)
        src = Lazy(f'wasm[{did.name}]', 'ComponentDefinedType')
        eng.assume(ULT(src.disc, bv64(len(variants))))
        # payload accessors (declaration order of the wasmparser structs)
        rec = src.kid('Record.0').kid(str(C.fidx('RecordType', 'fields'))); var = src.kid('Variant.0').kid(str(C.fidx('VariantType', 'cases')))
        tup = unbox(src.kid('Tuple.0').kid(str(C.fidx('TupleType', 'types')))); flags = src.kid('Flags.0'); enum = src.kid('Enum.0')
        for l in (rec, var, tup, flags, enum):
            eng.assume(ULE(l.len(), bv64(K)))
        for l in (rec, var):
            for a_, b_ in itertools.combinations(range(K), 2): eng.assume(lazy_atom(l.kid(f'[{a_}].k')).t != lazy_atom(l.kid(f'[{b_}].k')).t)
        for l in (flags, enum):
            for a_, b_ in itertools.combinations(range(K), 2): eng.assume(lazy_atom(l.kid(f'[{a_}]')).t != lazy_atom(l.kid(f'[{b_}]')).t)
        vcase_ty = C.fidx('VariantCase', 'ty')
        is_v = lambda name: src.disc == bv64(C.vidx('ComponentDefinedType', name))
        bads = []
        for o in outs:
            if o.kind == 'bound': continue
            v = o.value; ad = adds(o); cv = calls(o, 'component_val_type')
            if o.kind != 'ret':
                # documented panic: own / borrow of a resource that was not converted before (cache miss)
                bads.append(('panic', o, And(o.cond(), Not(Or(is_v('Own'), is_v('Borrow')))))); continue
            if not okres(v):
                cs = [Or(is_v('Map'), And(BoolVal(len(cv) > 0), Not(ok_of(o, cv)[-1]) if cv else BoolVal(False))), BoolVal(not ad and len(post_cache(eng, o, cell, order).entries) == 0)]
                bads.append(('err', o, And(o.cond(), Not(And(cs))), cs)); continue
            res = v.vars['Ok'][0]; cs = list(ok_of(o, cv))
            rvar = list(res.vars)[0] if isinstance(res, Enum) else None
            alts = []
            if rvar in ('Own', 'Borrow'):
                alts.append(And(is_v(rvar), BoolVal(not ad)))
            elif rvar == 'Defined' and len(ad) == 1 and ad[0][1] == 'defined_type':
                d = o.st.heap[ad[0][2]]; dv = list(d.vars)[0] if isinstance(d, Enum) else None; fs = d.vars[dv] if dv else ()
                def seq(ents, l, key_fmt, val_of):
                    c = [l.len() == bv64(len(ents))]
                    for i, e in enumerate(ents): c.append(val_of(i, e))
                    return And(c)
                if dv == 'Record':
                    ents = fs[0].f[0].entries if isinstance(fs[0], Agg) and isinstance(fs[0].f[0], MapV) else None
                    if ents is not None: alts.append(And(is_v('Record'), seq(ents, rec, None, lambda i, e: And(to_atom(eng, eng.deref(o.st, e[0])).t == lazy_atom(rec.kid(f'[{i}].k')).t, BoolVal(is_conv(e[1], rec.kid(f'[{i}].v')))))))
                elif dv == 'Variant':
                    ents = fs[0].f[0].entries if isinstance(fs[0], Agg) and isinstance(fs[0].f[0], MapV) else None
                    def case_ok(i, e):
                        src_ty = var.kid(f'[{i}].v').kid(str(vcase_ty)); val = e[1]
                        c = [to_atom(eng, eng.deref(o.st, e[0])).t == lazy_atom(var.kid(f'[{i}].k')).t]
                        if isinstance(val, Enum):
                            c.append((val.disc == bv64(1)) == (src_ty.disc == bv64(1)))
                            if 'Some' in val.vars and val.vars['Some']: c.append(Implies(src_ty.disc == bv64(1), BoolVal(is_conv(val.vars['Some'][0], src_ty.kid('Some.0')))))
                        else: c.append(BoolVal(False))
                        return And(c)
                    if ents is not None: alts.append(And(is_v('Variant'), seq(ents, var, None, case_ok)))
                elif dv == 'Tuple':
                    items = fs[0].items if isinstance(fs[0], VecV) else None
                    if items is not None: alts.append(And(is_v('Tuple'), seq(items, tup, None, lambda i, e: BoolVal(is_conv(e, tup.kid(f'[{i}]'))))))
                elif dv in ('Flags', 'Enum'):
                    l = flags if dv == 'Flags' else enum
                    ents = fs[0].f[0].entries if isinstance(fs[0], Agg) and isinstance(fs[0].f[0], MapV) else None
                    if ents is not None: alts.append(And(is_v(dv), seq(ents, l, None, lambda i, e: to_atom(eng, eng.deref(o.st, e[0])).t == lazy_atom(l.kid(f'[{i}]')).t)))
                elif dv in ('List', 'Option'):
                    alts.append(And(is_v(dv), BoolVal(is_conv(fs[0], src.kid(f'{dv}.0')))))
                elif dv == 'FixedSizeList':
                    alts.append(And(is_v('FixedLengthList'), BoolVal(is_conv(fs[0], src.kid('FixedLengthList.0'))), eng.term(fs[1], 'u32') == src.kid('FixedLengthList.1').scalar('u32')))
                elif dv in ('Stream', 'Future'):
                    so = src.kid(f'{dv}.0'); val = fs[0]
                    c = [is_v(dv)]
                    if isinstance(val, Enum):
                        c.append((val.disc == bv64(1)) == (so.disc == bv64(1)))
                        if 'Some' in val.vars and val.vars['Some']: c.append(Implies(so.disc == bv64(1), BoolVal(is_conv(val.vars['Some'][0], so.kid('Some.0')))))
                    else: c.append(BoolVal(False))
                    alts.append(And(c))
                elif dv == 'Result':
                    c = [is_v('Result')]
                    rf = [f for f, t in [x for x in C.variants('ComponentDefinedType') if x[0] == 'Result'][0][2]]
                    df = [f for f, t in [x for x in C.decls.enums[dt_key] if x[0] == 'Result'][0][2]]
                    for nm in ('ok', 'err'):
                        so = src.kid(f'Result.{rf.index(nm)}'); val = fs[df.index(nm)]
                        if isinstance(val, Enum):
                            c.append((val.disc == bv64(1)) == (so.disc == bv64(1)))
                            if 'Some' in val.vars and val.vars['Some']: c.append(Implies(so.disc == bv64(1), BoolVal(is_conv(val.vars['Some'][0], so.kid('Some.0')))))
                        else: c.append(BoolVal(False))
                    alts.append(And(c))
                elif dv == 'Alias':
                    alts.append(is_v('Primitive'))
            cs.append(Or(alts + [BoolVal(False)]))
            cs.append(BoolVal(len(post_cache(eng, o, cell, order).entries) == 1))
            bads.append(('ok', o, And(o.cond(), Not(And(cs))), cs))
        decide(C, 'component_defined_type: every constructor is converted to the constructor of the same meaning with its members (names, converted types, sizes) in order', eng, bads)

def rule_val_type(C):
    vt = Lazy('val_type', 'ComponentValType')
    eng, outs, cell, order = run_rule(C, 'component_val_type', [vt])
    eng.assume(ULT(vt.disc, bv64(2)))
    wprim = [v[0] for v in C.variants('PrimitiveValType')]; oprim = [v[0] for v in C.decls.enums['PrimitiveType']]
    eng.assume(ULT(vt.kid('Primitive.0').disc, bv64(len(wprim))))
    bads = []
    for o in outs:
        if o.kind == 'bound': continue
        if o.kind != 'ret': bads.append(('panic', o, o.cond())); continue
        v = o.value; cl = calls(o)
        if okres(v):
            r = v.vars['Ok'][0]
            if isinstance(r, Enum) and list(r.vars)[0] == 'Primitive':
                p = r.vars['Primitive'][0]
                # the primitive of the same name
                same = Or([And(vt.kid('Primitive.0').disc == bv64(i), (p.disc if isinstance(p, (Enum, Lazy)) else bv64(99)) == bv64(oprim.index(nm_))) for i, nm_ in enumerate(wprim) if nm_ in oprim] + [BoolVal(False)])
                cs = [vt.disc == bv64(C.vidx('ComponentValType', 'Primitive')), BoolVal(not cl), same]
            else:
                cs = [vt.disc == bv64(C.vidx('ComponentValType', 'Type')), BoolVal(len(cl) == 1 and cl[0][1] == 'component_defined_type' and getattr(cl[0][3][0], 'name', '') == vt.kid('Type.0').name),
                      BoolVal(isinstance(r, Lazy) and r.name == f'component_defined_type({vt.kid("Type.0").name})')]
        else:
            cs = [vt.disc == bv64(C.vidx('ComponentValType', 'Type')), BoolVal(len(cl) == 1)]
        bads.append(('ret', o, And(o.cond(), Not(And(cs))), cs))
    decide(C, 'component_val_type: a primitive becomes the primitive of the same name, a type reference the converted defined type', eng, bads)

def rule_use_or_own(C):
    owner = Lazy('owner', 'package::Owner'); name = Lazy('name', '&str'); referenced = Lazy('referenced', 'ComponentAnyTypeId'); created = Lazy('created', 'ComponentAnyTypeId')
    eng, outs, cell, order = run_rule(C, 'use_or_own', [owner, name, referenced, created])
    eng.assume(ULT(owner.disc, bv64(2)))
    bads = []
    found = Bool(f'owner_found({referenced.name})'); other = Lazy(f'owner({referenced.name})', '(package::Owner, std::string::String)')
    eng.assume(ULT(other.kid('0').disc, bv64(2)))
    iface = C.vidx('Owner', 'Interface')
    def owner_eq(a, b):
        ia = a.kid('Interface.0').kid('0'); ib = b.kid('Interface.0').kid('0'); wa = a.kid('World.0').kid('0'); wb = b.kid('World.0').kid('0')
        same_id = lambda x, y: And(x.kid('0', 'usize').scalar('usize') == y.kid('0', 'usize').scalar('usize'), x.kid('1', 'u32').scalar('u32') == y.kid('1', 'u32').scalar('u32'))
        return And(a.disc == b.disc, If(a.disc == bv64(iface), same_id(ia, ib), same_id(wa, wb)))
    uses_idx = {w: [x for x, t in C.decls.structs[w][1]].index('uses') for w in ('Interface', 'World')}
    for o in outs:
        if o.kind == 'bound': continue
        if o.kind != 'ret': bads.append(('panic', o, o.cond())); continue
        ow = o.st.heap[cell].f[order.index('owners')].entries
        # where did a `uses` entry go? (the arena slot of the owner, reached through a contract id)
        used = []
        for k, c_ in o.st.ghost.items():
            if not k.startswith('arena:'): continue
            slot = o.st.heap[c_]
            if isinstance(slot, Agg):
                for fidx, val in enumerate(slot.f):
                    if isinstance(val, MapV) and val.entries: used.append((k, fidx, val.entries))
        use_other = And(found, other.kid('0').disc == bv64(iface), Not(owner_eq(owner, other.kid('0'))))
        cs = []
        if used:
            cs.append(use_other); cs.append(BoolVal(len(used) == 1 and len(used[0][2]) == 1 and not ow))
            if len(used) == 1 and len(used[0][2]) == 1:
                k_, fidx, ents = used[0]; key, ut = ents[0]
                cs.append(to_atom(eng, eng.deref(o.st, key)).t == lazy_atom(name).t)
                uo = [x for x, t in C.decls.structs['UsedType'][1]]
                ui = ut.f[uo.index('interface')]; un = ut.f[uo.index('name')]
                cs.append(BoolVal(getattr(ui, 'name', None) == other.kid('0').kid('Interface.0').name))
                renamed = lazy_atom(name).t != lazy_atom(other.kid('1')).t
                cs.append((un.disc == bv64(1)) == renamed if isinstance(un, Enum) else BoolVal(False))
                if isinstance(un, Enum) and 'Some' in un.vars and un.vars['Some']: cs.append(Implies(renamed, to_atom(eng, eng.deref(o.st, un.vars['Some'][0])).t == lazy_atom(other.kid('1')).t))
                # the entry is added to the `uses` of the owner's own arena slot
                cs.append(BoolVal(fidx == uses_idx['Interface'] or fidx == uses_idx['World']))
        elif ow:
            cs.append(Not(found)); cs.append(BoolVal(len(ow) == 1))
            k_, val = ow[0]
            cs.append(BoolVal(getattr(k_, 'name', None) == created.name and isinstance(val, Agg) and val.f[0] is owner)); cs.append(to_atom(eng, eng.deref(o.st, val.f[1])).t == lazy_atom(name).t if isinstance(val, Agg) else BoolVal(False))
        else:
            cs.append(And(found, Not(use_other)))
        bads.append(('ret', o, And(o.cond(), Not(And(cs))), cs))
    decide(C, 'use_or_own: a type first seen here is owned under this name; a type owned by another interface becomes a `use` of that interface (with the original name when renamed); nothing otherwise', eng, bads)

def rule_resource(C):
    rid = Lazy('resource_id', 'AliasableResourceId'); name = Lazy('name', '&str')
    known = Lazy('known_resource', 'ResourceId'); base_key = Lazy('mapped_key', 'ResourceId@wasm')
    def m_resource_of(ctx):
        x = ctx.deref(ctx.args[0]); return ctx.ret(Lazy(f'resource_of({x.name})', 'ResourceId@wasm'))
    for label, rmap in (('new resource', ()), ('alias of a known resource', ((Lazy(f'resource_of({rid.name})', 'ResourceId@wasm'), known),)), ('unrelated resource known', ((base_key, known),))):
        eng = make_engine(C, 'resource')
        eng.overrides = [(re.compile(r'AliasableResourceId::resource$'), m_resource_of)] + eng.overrides
        fname = C.fn(eng, 'resource'); st = engine.State(); cell, order = converter(C, st, (), (), rmap)
        fn = eng.fns[fname]; fr = engine.Frame(fn)
        for (loc, ty), a in zip(fn.params, [Ref(cell), name, rid]): fr.env[loc] = st.alloc(a)
        if label.startswith('unrelated'): eng.assume(lazy_atom(base_key).t != lazy_atom(Lazy(f'resource_of({rid.name})', 'ResourceId@wasm')).t)
        st.frames = [fr]; eng.run(st); C.chk.account(eng, [fname]); outs = eng.out
        ro = [x for x, t in C.decls.structs['Resource'][1]]; ao = [x for x, t in C.decls.structs['ResourceAlias'][1]]
        owner_found = None
        bads = []
        for o in outs:
            if o.kind == 'bound': continue
            if o.kind != 'ret': bads.append(('panic', o, o.cond())); continue
            ad = adds(o); cs = [BoolVal(len(ad) == 1 and ad[0][1] == 'resource')]
            if len(ad) == 1:
                r = o.st.heap[ad[0][2]]
                cs.append(to_atom(eng, eng.deref(o.st, r.f[ro.index('name')])).t == lazy_atom(name).t)
                al = r.f[ro.index('alias')]
                is_alias = label.startswith('alias')
                cs.append(BoolVal(isinstance(al, Enum) and (('Some' in al.vars and bool(al.vars.get('Some'))) == is_alias)))
                if is_alias and isinstance(al, Enum) and al.vars.get('Some'):
                    ra = al.vars['Some'][0]
                    cs.append(BoolVal(ra.f[ao.index('source')] is known))
                    fo = calls(o, 'find_owner'); cs.append(BoolVal(len(fo) == 1))
                    ow = ra.f[ao.index('owner')]
                    if fo and isinstance(ow, Enum):
                        key = f'Resource({rid.name})'
                        found = Bool(f'owner_found({key})'); other = Lazy(f'owner({key})', '(package::Owner, std::string::String)')
                        cs.append((ow.disc == bv64(1)) == And(found, other.kid('0').disc == bv64(C.vidx('Owner', 'Interface'))))
                pm = o.st.heap[cell].f[order.index('resource_map')].entries; pc = post_cache(eng, o, cell, order).entries
                cs.append(BoolVal(len(pc) == 1 and len(pm) == (len(rmap) if is_alias else len(rmap) + 1)))
                cs.append(BoolVal(isinstance(o.value, Agg) and (o.value.ty or '') == 'arena:resource'))
            bads.append(('ret', o, And(o.cond(), Not(And(cs))), cs))
        decide(C, f'resource [{label}]: a resource keeps its name; a second id of a known resource becomes an alias of the first one, owned by the interface that owns the type', eng, bads)

# ---------------------------------------------------------------------------- native battery (real components built from WIT)

WIT_CHAIN = """package test:pkg;
interface base { resource token; record stamp { at: u64 } }
interface mid { use base.{token, stamp}; }
interface upper { use mid.{token, stamp}; }
interface api { use upper.{token, stamp as mark}; open: func() -> token; when: func(t: borrow<token>, n: u8) -> mark; }
world w { export api; }"""
WIT_SHAPES = """package test:pkg;
interface shapes {
  record r { a: u8, b: string }
  variant v { x, y(u32) }
  enum e { p, q }
  flags f { m, n }
  f1: func(first: r, second: v, third: list<e>) -> result<option<f>, tuple<u8, s64>>;
  f2: func();
}
world w { import shapes; export run: func(z: bool) -> char; }"""

def battery(chk):
    """-> list of (what, case, got, documented) that disagree with the documented decoding"""
    bad = []
    def find(items, name): return next((x[1] for x in items if x[0] == name), None)
    case = {'op': 'package_from_wit', 'world': 'w', 'wit': WIT_CHAIN}; nat = chk.native(case)
    api = (find(nat.get('exports', []), 'test:pkg/api') or {}).get('instance', {})
    chk.sample({'wit': 'use chain api -> upper -> mid -> base', 'uses': api.get('uses'), 'token': find(api.get('exports', []), 'token')})
    want_uses = [['token', 'test:pkg/base', None], ['mark', 'test:pkg/base', 'stamp']]
    if api.get('uses') != want_uses: bad.append(('used-type provenance through a `use` chain (with a rename)', case, api.get('uses'), want_uses))
    tok = (find(api.get('exports', []), 'token') or {}).get('resource', {})
    if tok.get('alias_owner') != 'test:pkg/base' or tok.get('alias_of') != 'token': bad.append(('owner of a resource used through a chain', case, tok, {'alias_of': 'token', 'alias_owner': 'test:pkg/base'}))
    when = (find(api.get('exports', []), 'when') or {}).get('func', {})
    if when.get('params') != [['t', 'borrow<token>'], ['n', 'u8']] or when.get('result') != 'record{at:u64}': bad.append(('function signature (borrow parameter, record result)', case, when, 'when: func(t: borrow<token>, n: u8) -> record{at:u64}'))
    case2 = {'op': 'package_from_wit', 'world': 'w', 'wit': WIT_SHAPES}; nat2 = chk.native(case2)
    sh = (find(nat2.get('imports', []), 'test:pkg/shapes') or {}).get('instance', {})
    f1 = (find(sh.get('exports', []), 'f1') or {}).get('func', {})
    want_f1 = {'params': [['first', 'record{a:u8,b:string}'], ['second', 'variant{x:_,y:u32}'], ['third', 'list<enum{p,q}>']], 'result': 'result<option<flags{m,n}>,tuple<u8,s64>>', 'async': False}
    chk.sample({'wit': 'all value constructors', 'f1': f1})
    if f1 != want_f1: bad.append(('value type constructors, member names and order', case2, f1, want_f1))
    run = (find(nat2.get('exports', []), 'run') or {}).get('func', {})
    if run != {'params': [['z', 'bool']], 'result': 'char', 'async': False}: bad.append(('exported function', case2, run, 'run: func(z: bool) -> char'))
    names = [x[0] for x in sh.get('exports', [])]
    if names != ['r', 'v', 'e', 'f', 'f1', 'f2']: bad.append(('export order of an interface', case2, names, ['r', 'v', 'e', 'f', 'f1', 'f2']))
    return bad

# ---------------------------------------------------------------------------- encoding half: one kernel (TypeEncoder::use_aliases)

def rule_use_aliases(chk):
    """the per-scope table of used types holds, after use_aliases, exactly the used types of the interface being encoded: each aliased from the
    instance of its owning interface under its original name, at the index the alias receives; nothing survives from a previous interface"""
    K = 2       # 3 used types did not finish within 80 min (lazy map lookups fork per entry)
    chk.bounds['use_aliases'] = {'used_types': K, 'stale_entries_before': 1}
    fns = chk.load('wac-graph'); decls = chk.decls('wac-graph'); wt = chk.decls('wac-types')
    COUNT = Function('type_count_at', IntSort(), z3.BitVecSort(32))
    def m_type_count(ctx):
        k = len([t for t in ctx.st.trace if t[0] == 'alias']); ctx.event('count', k); return ctx.ret(COUNT(z3.IntVal(k)))
    def m_alias(ctx): ctx.event('alias', ctx.args[1]); return ctx.ret(UNIT)
    def m_iface(ctx):
        idv = ctx.deref(ctx.args[1]); return ctx.ret(Ref(Lazy(f'iface[{idv.name}]', 'Interface'), ()))
    def m_desc(ctx): return ctx.ret(Opaque('desc'))
    ov = [(r'^(?:encoding::)?Encodable::type_count$', m_type_count), (r'^(?:encoding::)?Encodable::alias$', m_alias), (r'^<wac_types::Types as Index<(?:wac_types::)?InterfaceId>>::index$', m_iface),
          (r'^(?:wac_types::)?ItemKind::desc$', m_desc)]
    eng = chk.engine(fns, decls, overrides=ov, vec_cap=K, loop_bound=K + 3); eng.atom_strings = True
    def eq_hook(a, b):
        t = (a.ty or b.ty or '')
        if 'Type' in t or t.endswith('Id') or t == '': return lazy_atom(a).t == lazy_atom(b).t
        return None
    eng.eq_hook = eq_hook
    c = [n for n in eng.fns if re.search(r'^encoding::<impl at [^>]*>::use_aliases$', n)]
    if len(c) != 1: raise engine.EngineError(f'TypeEncoder::use_aliases: {c}')
    fname = c[0]
    at = lambda x: lazy_atom(x).t
    names = [Lazy(f'use.name{i}', 'std::string::String') for i in range(K)]; ifaces = [Lazy(f'use.interface{i}', 'InterfaceId') for i in range(K)]
    renamed = [Bool(f'use.renamed{i}') for i in range(K)]; orig = [Lazy(f'use.original{i}', 'std::string::String') for i in range(K)]
    uo = [x for x, t in wt.structs['UsedType'][1]]
    def used(i):
        f = [None, None]; f[uo.index('interface')] = ifaces[i]; f[uo.index('name')] = Enum('Option', If(renamed[i], bv64(1), bv64(0)), {'None': (), 'Some': (orig[i],)})
        return Agg(f, 'UsedType')
    io = [x for x, t in wt.structs['Interface'][1]]
    iid = [Lazy(f'iface[{ifaces[i].name}]', 'Interface').kid(str(io.index('id'))).kid('Some.0') for i in range(K)]
    inst_idx = [BitVec(f'instance_index{i}', 32) for i in range(K)]
    stale_name = Lazy('stale.name', 'std::string::String'); stale_idx = BitVec('stale.index', 32)
    so = [x for x, t in decls.structs['Scope'][1]]; sto = [x for x, t in decls.structs['State'][1]]
    for nu in range(1, K + 1):
        st = engine.State()
        scope = [Opaque('scope-field')] * len(so)
        scope[so.index('type_indexes')] = MapV(()); scope[so.index('type_aliases')] = MapV(((stale_name, stale_idx),))
        # every owning interface is available as an imported instance (the encoder imports them first); two uses of one interface share the entry
        inst_entries = [(iid[i], inst_idx[i]) for i in range(nu)]
        scope[so.index('instances')] = MapV(tuple(inst_entries)); scope[so.index('encodable')] = Opaque('encodable')
        sf = [Opaque('state-field')] * len(sto); sf[sto.index('current')] = Agg(scope, 'Scope'); sf[sto.index('scopes')] = VecV(())
        scell = st.alloc(Agg(sf, 'State'))
        uses = Ref(st.alloc(MapV(tuple((names[i], used(i)) for i in range(nu))))); items = Ref(Lazy('items', 'IndexMap<String, ItemKind>'), ())
        fn = eng.fns[fname]; fr = engine.Frame(fn)
        for (loc, ty), a in zip(fn.params, [Ref(st.alloc(Agg((Ref(Lazy('types', 'Types'), ()),), 'TypeEncoder'))), Ref(scell), uses, items]): fr.env[loc] = st.alloc(a)
        n0 = len(eng.out); st.frames = [fr]; eng.run(st); outs = eng.out[n0:]; chk.account(eng, [fname])
        base = list(eng.assumptions) + [at(a) != at(b) for a, b in itertools.combinations(names[:nu], 2)] + [at(stale_name) != at(n) for n in names[:nu]]
        # the interface ids of the used types are present and distinct interfaces have distinct ids / instance entries
        for i in range(nu):
            base.append(Lazy(f'iface[{ifaces[i].name}]', 'Interface').kid(str(io.index('id'))).disc == bv64(1))
        for i, j in itertools.combinations(range(nu), 2): base.append(at(iid[i]) != at(iid[j]))
        bads = []
        for o in outs:
            if o.kind == 'bound': continue
            if o.kind != 'ret':
                if os.environ.get('C08_DEBUG'): print('  non-ret', o.kind, o.site, o.value)
                # preconditions of a well-formed Types collection: the owning interface has an id and exports the used name (their violation panics by design)
                if o.kind == 'panic' and str(o.value) in ('unwrap on None', 'expect on None'): continue
                bads.append(o.cond()); continue     # (a missing export of the owning interface would panic: excluded by the lazily instantiated `get` returning Some - see below)
            post = o.st.heap[scell].f[sto.index('current')].f[so.index('type_aliases')].entries
            al = [t for t in o.st.trace if t[0] == 'alias']
            cs = [BoolVal(len(post) == nu and len(al) == nu)]
            if len(post) == nu and len(al) == nu:
                for i in range(nu):
                    k, v = post[i]
                    cs.append(to_atom(eng, eng.deref(o.st, k)).t == at(names[i])); cs.append(eng.term(v, 'u32') == COUNT(z3.IntVal(i)))
                    a = al[i][1]; a = eng.deref(o.st, a) if isinstance(a, Ref) else a
                    fs = a.f if isinstance(a, Agg) else (list(a.vars.values())[0] if isinstance(a, Enum) else None)
                    if fs is None: cs.append(BoolVal(False)); continue
                    cs.append(eng.term(fs[0], 'u32') == inst_idx[i])
                    cs.append(to_atom(eng, eng.deref(o.st, fs[2])).t == If(renamed[i], at(orig[i]), at(names[i])))
            bads.append(And(o.cond(), Not(And(cs))))
        r, m = chk.obligation(f'TypeEncoder::use_aliases ({nu} used types): afterwards the scope\'s alias table is exactly the used types of this interface (in order, at the index each alias receives), each aliased from the instance of its owning interface under its original name',
                              base + [Or(bads + [BoolVal(False)])], base=base)
        if r == 'sat':
            chk.finding('use-aliases-table', 'TypeEncoder::use_aliases leaves an entry of a previously encoded interface in the alias table, or aliases a used type from the wrong instance / name / index (rule-level counterexample over the MIR)', {'rule': 'use_aliases'})

def body(chk):
    chk.assumptions += ['the wasmparser arena is arbitrary: every `wasm_types[id]` is an unconstrained value of the declared wasmparser type; `peel_alias` is an uninterpreted partial function',
                        'assume-guarantee: while one converter is checked, every other converter returns an arbitrary value per argument and fails or succeeds by an uninterpreted predicate',
                        'collections bounded as stated; component_defined_type, resource, use_or_own, module/core types, and the whole re-encoding half of the property are outside this check']
    C = C8(chk)
    chk.bounds['collections'] = {'params / exports / imports': C.K}
    chk.part('find_owner', rule_find_owner, C)
    chk.part('entity', rule_entity, C)
    chk.part('ty', rule_ty, C)
    chk.part('component_val_type', rule_val_type, C)
    chk.part('component_defined_type', rule_defined_type, C)
    chk.part('use_or_own', rule_use_or_own, C)
    chk.part('resource', rule_resource, C)
    chk.part('component_func_type', rule_func_type, C)
    chk.part('component_instance_type', exports_rule, C, 'component_instance_type', ['exports'])
    chk.part('component_type', exports_rule, C, 'component_type', ['imports', 'exports'])
    chk.part('TypeEncoder::use_aliases', rule_use_aliases, chk)
    bad = battery(chk)
    if chk.violations:
        # attach the documents that expose the deviation (the rule-level findings above are over the MIR)
        for what, case, got, want in bad: chk.finding('decode-' + what.split(' ')[0], f'{what}: the real Package::from_bytes gives {json.dumps(got)[:300]}, documented {json.dumps(want)[:300]}', case)
    elif bad:
        chk.inconclusive.append('battery'); chk.notes.append(f'INCONCLUSIVE: the conversion rules hold but real components decode differently from the documented shape: {[(w, g) for w, c, g, d in bad]}')
        print(f'INCONCLUSIVE property=C08 part=battery: {[(w, g) for w, c, g, d in bad]}'[:600], flush=True)

if __name__ == '__main__':
    harness.run_check('C08', body)
