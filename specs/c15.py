"""C15 — semver-compatible name matching is the semver track relation; highest wins.

Encoded (real MIR from the wac-types dump): names::alternate_lookup_key, names::are_semver_compatible,
NameMap::<K,V>::{insert, get} with NameMapNoIntern::{intern, lookup}.
"""
import sys, os, itertools
sys.path.insert(0, os.path.dirname(os.path.dirname(os.path.abspath(__file__))))
import z3
from z3 import And, Or, Not, If, BoolVal, BitVecVal, ULT, ULE, UGT, UGE, Implies
from m2s import harness, engine, models, containers
from m2s.engine import Lazy, Agg, Enum, StrV, Ref, bv64, UNIT
from m2s.models import find_byte, substr, semver_parse, str_eq, byte_at, lazy_str, opt, semver_value
from m2s.containers import MapV, Atom
from m2s.harness import ev_bytes, ev_int, ev_bool, run_fn, Inconclusive

ALPHABET = b'abz019:/@.+-'     # used for witnesses and for the relation queries (stated bound)

def in_alphabet(sv, alphabet=None):
    if alphabet is None:
        return And([ULT(b, BitVecVal(128, 8)) for b in sv.buf])
    return And([Or([b == BitVecVal(c, 8) for c in alphabet]) for b in sv.buf])

def oracle(name):
    """semver-track specification of a name, independent of the implementation's slicing: split at the first '@',
    parse the rest as a semver version."""
    has_at, at = find_byte(name, ord('@'))
    ver = substr(name, at + 1, name.len)
    p = semver_parse(ver)
    release = And(p['ok'], p['pre'][1] == bv64(0))
    on_track = And(has_at, release, Or(p['major'] != bv64(0), p['minor'] != bv64(0)))
    keylen = If(p['major'] != bv64(0), at + 1 + p['ndig'][0], at + 1 + p['ndig'][0] + 1 + p['ndig'][1])
    return dict(has_at=has_at, at=at, p=p, on_track=z3.simplify(on_track), keylen=z3.simplify(keylen))

def part_alt_key(chk, fns, decls):
    N = chk.pick(12, 16)
    chk.bounds['alternate_lookup_key'] = {'name_bytes_max': N, 'alphabet': 'all ASCII (no-panic and agreement)', 'loop_unrolling': 'none needed (loop-free MIR)'}
    eng = chk.engine(fns, decls, str_cap=N)
    name = Lazy('name', '&str')
    outs = run_fn(eng, 'alternate_lookup_key', [name])
    chk.account(eng, ['alternate_lookup_key'])
    sv = lazy_str(eng, name)
    base = list(eng.assumptions) + [in_alphabet(sv)]
    # (1) no panic
    bad = [o.cond() for o in outs if o.kind != 'ret']
    r, m = chk.obligation('alt_key/no-panic (any ASCII name)', base + [Or(bad) if bad else BoolVal(False)])
    if r == 'sat':
        nm = ev_bytes(m, sv); nat = chk.native({'op': 'alt_key', 'name': list(nm)})
        if 'panic' in nat: chk.finding('alt-key-panic', f'alternate_lookup_key panics on {nm!r}: {nat["panic"]}', {'op': 'alt_key', 'name': list(nm)})
        else: raise Inconclusive(f'encoding predicts a panic on {nm!r} that the real code does not show')
    # (2) agreement with the specification
    o_ = oracle(sv)
    diffs = []
    for o in outs:
        if o.kind != 'ret': continue
        v = o.value
        is_some = v.disc == bv64(1)
        if 'Some' in v.vars:
            key, ver = v.vars['Some'][0].f
            same = And(key.off == bv64(0), key.len == o_['keylen'], ver.f[0] == o_['p']['major'], ver.f[1] == o_['p']['minor'], ver.f[2] == o_['p']['patch'])
            diffs.append(And(o.cond(), Or(is_some != o_['on_track'], And(is_some, Not(same)))))
        else:
            diffs.append(And(o.cond(), is_some != o_['on_track']))
    r, m = chk.obligation('alt_key/agrees with track specification', base + [Or(diffs)])
    if r == 'sat':
        nm = ev_bytes(m, sv); nat = chk.native({'op': 'alt_key', 'name': list(nm)})
        exp_some = ev_bool(m, o_['on_track']); exp_key = nm[:ev_int(m, o_['keylen'])].decode() if exp_some else None
        if nat.get('some') != exp_some or (exp_some and nat.get('key') != exp_key):
            chk.finding('alt-key-wrong', f'alternate_lookup_key({nm!r}) = {nat} but the semver track key is {exp_key!r}', {'op': 'alt_key', 'name': list(nm), 'expect': {'some': exp_some, 'key': exp_key}})
        else: raise Inconclusive(f'encoding disagrees with the real alternate_lookup_key on {nm!r}: native {nat}')
    # witnesses: one per path, replayed natively and compared with the encoding's prediction
    for o in outs:
        r, m = chk.solve('alt_key/witness', list(eng.assumptions) + [in_alphabet(sv, ALPHABET), o.cond()], want_model=True)
        if r != 'sat': continue
        nm = ev_bytes(m, sv); nat = chk.native({'op': 'alt_key', 'name': list(nm)})
        if o.kind != 'ret':
            pred = {'panic': True}
            okk = 'panic' in nat
        else:
            some_ = ev_int(m, o.value.disc) == 1
            pred = {'some': some_}
            if some_:
                key = o.value.vars['Some'][0].f[0]; pred['key'] = nm[ev_int(m, key.off):ev_int(m, key.off) + ev_int(m, key.len)].decode()
            okk = nat.get('some') == pred['some'] and (not some_ or nat.get('key') == pred['key'])
        chk.sample({'fn': 'alternate_lookup_key', 'name': nm.decode(), 'native': nat})
        if not okk: raise Inconclusive(f'witness mismatch on {nm!r}: encoding predicts {pred}, native {nat}')
    return eng

def part_compat(chk, fns, decls):
    N = chk.pick(9, 12)
    chk.bounds['are_semver_compatible'] = {'name_bytes_max': N, 'alphabet': ALPHABET.decode()}
    eng = chk.engine(fns, decls, str_cap=N)
    a = Lazy('a', '&str'); b = Lazy('b', '&str')
    outs = run_fn(eng, 'are_semver_compatible', [a, b])
    chk.account(eng, ['are_semver_compatible'])
    sa = lazy_str(eng, a); sb = lazy_str(eng, b)
    base = list(eng.assumptions) + [in_alphabet(sa, ALPHABET), in_alphabet(sb, ALPHABET)]
    oa = oracle(sa); ob = oracle(sb)
    same_base = str_eq(substr(sa, bv64(0), oa['at']), substr(sb, bv64(0), ob['at']))
    pa, pb = oa['p'], ob['p']
    track = Or(And(pa['major'] != bv64(0), pa['major'] == pb['major']),
               And(pa['major'] == bv64(0), pb['major'] == bv64(0), pa['minor'] == pb['minor']))
    spec = Or(str_eq(sa, sb), And(oa['on_track'], ob['on_track'], same_base, track))
    bad = [o.cond() for o in outs if o.kind != 'ret']
    r, m = chk.obligation('compat/no-panic', base + [Or(bad) if bad else BoolVal(False)])
    if r == 'sat':
        x, y = ev_bytes(m, sa), ev_bytes(m, sb); nat = chk.native({'op': 'semver_compat', 'a': list(x), 'b': list(y)})
        if 'panic' in nat: chk.finding('compat-panic', f'are_semver_compatible panics on {x!r},{y!r}', {'op': 'semver_compat', 'a': list(x), 'b': list(y)})
        else: raise Inconclusive('predicted panic does not reproduce')
    diffs = [And(o.cond(), o.value != spec) for o in outs if o.kind == 'ret']
    r, m = chk.obligation('compat/equals the track relation', base + [Or(diffs)])
    if r == 'sat':
        x, y = ev_bytes(m, sa), ev_bytes(m, sb); nat = chk.native({'op': 'semver_compat', 'a': list(x), 'b': list(y)})
        exp = ev_bool(m, spec)
        if nat.get('compat') != exp:
            chk.finding('compat-wrong', f'are_semver_compatible({x!r},{y!r}) = {nat.get("compat")} but the track relation says {exp}',
                        {'op': 'semver_compat', 'a': list(x), 'b': list(y), 'expect': exp})
        else: raise Inconclusive(f'encoding disagrees with the real are_semver_compatible on {x!r},{y!r}')
    # witnesses for true / false verdicts of each path
    for o in outs:
        if o.kind != 'ret': continue
        for want in (True, False):
            r, m = chk.solve('compat/witness', base + [o.cond(), o.value == BoolVal(want)])
            if r != 'sat': continue
            x, y = ev_bytes(m, sa), ev_bytes(m, sb); nat = chk.native({'op': 'semver_compat', 'a': list(x), 'b': list(y)})
            chk.sample({'fn': 'are_semver_compatible', 'a': x.decode(), 'b': y.decode(), 'native': nat})
            if nat.get('compat') != want: raise Inconclusive(f'witness mismatch on {x!r},{y!r}: predicted {want}, native {nat}')

def part_namemap(chk, fns, decls):
    """NameMap insert/get over abstract names (assume-guarantee: alternate_lookup_key replaced by its verified contract,
    a function from names to Option<(track key, version)>; string equality = identity of the abstract name)."""
    K = chk.pick(3, 4)
    chk.bounds['NameMap'] = {'inserts_max': K, 'names': 'abstract (identity + track key + version triple + build rank), all insertion orders',
                             'allow_shadowing': 'symbolic per insert'}
    I = z3.IntSort(); B = z3.BoolSort(); BV = z3.BitVecSort(64)
    alt_some = z3.Function('alt_some', I, B); alt_key = z3.Function('alt_key', I, I)
    vmaj = z3.Function('v_major', I, BV); vmin = z3.Function('v_minor', I, BV); vpat = z3.Function('v_patch', I, BV); vbuild = z3.Function('v_buildrank', I, I)
    def name_atom(i): return Atom(z3.Int(f'n{i}'), f'n{i}')
    def version_of(t): return Agg((vmaj(t), vmin(t), vpat(t), Agg((Atom(z3.IntVal(0)),), 'Prerelease'), Agg((Atom(vbuild(t)),), 'BuildMetadata')), 'Version')
    def m_alt(ctx):
        n = containers.to_atom(ctx.eng, ctx.deref(ctx.args[0]))
        # key atoms live in a disjoint id space (negative numbers) so that a track key never equals a full name
        return ctx.ret(opt(alt_some(n.t), Agg((Atom(-1 - alt_key(n.t)), version_of(n.t)))))
    def m_version_lt(ctx):
        a = ctx.deref(ctx.args[0]); b = ctx.deref(ctx.args[1])
        am, an, ap = a.f[0], a.f[1], a.f[2]; bm, bn, bp = b.f[0], b.f[1], b.f[2]
        ab = a.f[4].f[0].t; bb = b.f[4].f[0].t
        lt = Or(ULT(am, bm), And(am == bm, Or(ULT(an, bn), And(an == bn, Or(ULT(ap, bp), And(ap == bp, ab < bb))))))
        eq = And(am == bm, an == bn, ap == bp, ab == bb)
        op = ctx.callee.rsplit('::', 1)[1]
        return ctx.ret({'lt': lt, 'le': Or(lt, eq), 'gt': Not(Or(lt, eq)), 'ge': Not(lt)}[op])
    def m_intern(ctx): return ctx.ret(ctx.deref(ctx.args[1]))
    def m_lookup(ctx): return ctx.ret(models.some(ctx.deref(ctx.args[1])))
    def m_clone(ctx): return ctx.ret(ctx.deref(ctx.args[0]))
    overrides = [(r'^alternate_lookup_key$', m_alt), (r'^<semver::Version as PartialOrd>::(?:lt|le|gt|ge)$', m_version_lt),
                 (r'^<I as NameMapIntern>::intern$', m_intern), (r'^<I as NameMapIntern>::lookup$', m_lookup),
                 (r'^<K as Clone>::clone$|^<semver::Version as Clone>::clone$', m_clone)]
    eng = chk.engine(fns, decls, overrides=overrides)
    insert = eng.find_fn(r'names::<impl at [^>]*>::insert$'); get = eng.find_fn(r'names::<impl at [^>]*>::get$')
    # chain: k inserts then one get, starting from the empty map
    names = [name_atom(i) for i in range(K)]; shadow = [z3.Bool(f'shadow{i}') for i in range(K)]; q = Atom(z3.Int('q'), 'q')
    for a in names + [q]: eng.assume(a.t >= 0)
    for i in range(K):
        eng.assume(alt_key(names[i].t) >= 0); eng.assume(vbuild(names[i].t) >= 0)
    eng.assume(alt_key(q.t) >= 0)
    # linking facts that follow from the contract of alternate_lookup_key verified above: a track key determines the
    # track component of the version; versions are small (stated bound)
    alln = names + [q]
    for a in alln:
        eng.assume(Implies(alt_some(a.t), Or(vmaj(a.t) != bv64(0), vmin(a.t) != bv64(0))))
        eng.assume(And(ULT(vmaj(a.t), bv64(1000)), ULT(vmin(a.t), bv64(1000)), ULT(vpat(a.t), bv64(1000))))
    for a, b in itertools.combinations(alln, 2):
        eng.assume(Implies(And(alt_some(a.t), alt_some(b.t), alt_key(a.t) == alt_key(b.t)),
                           And(vmaj(a.t) == vmaj(b.t), Implies(vmaj(a.t) == bv64(0), vmin(a.t) == vmin(b.t)))))
    total_paths = 0
    for k in range(1, K + 1):
        st0 = engine.State()
        mcell = st0.alloc(Agg((MapV(()), MapV(())), 'NameMap')); cxcell = st0.alloc(Agg((), 'NameMapNoIntern'))
        states = [(st0, [])]
        for i in range(k):
            nxt = []
            for st, res in states:
                st2 = st.fork() if False else st
                fr = engine.Frame(eng.fns[insert])
                for (loc, ty), a in zip(eng.fns[insert].params, [Ref(mcell), names[i], Ref(cxcell), shadow[i], bv64(i)]): fr.env[loc] = st2.alloc(a)
                st2.frames = [fr]
                n0 = len(eng.out); eng.run(st2)
                for o in eng.out[n0:]:
                    if o.kind != 'ret':
                        nxt.append((o.st, res + [('panic', o)])); continue
                    s3 = o.st; s3.pc = list(o.pc); nxt.append((s3, res + [o.value]))
            states = nxt
        # get
        finals = []
        for st, res in states:
            if any(isinstance(r, tuple) for r in res): finals.append((st, res, ('panic', None))); continue
            fr = engine.Frame(eng.fns[get])
            for (loc, ty), a in zip(eng.fns[get].params, [Ref(mcell), q, Ref(cxcell)]): fr.env[loc] = st.alloc(a)
            st.frames = [fr]; n0 = len(eng.out); eng.run(st)
            for o in eng.out[n0:]: finals.append((o.st, res, o))
        total_paths += len(finals)
        # reference semantics of the same history
        # surviving exact entries: name i is present with value = index of the last successful insert of that name
        def ins_ok(i):  # insert i succeeds iff no earlier *successful or failed* insert of the same name exists, or shadowing allowed
            dup = Or([names[j].t == names[i].t for j in range(i)]) if i else BoolVal(False)
            return Or(Not(dup), shadow[i])
        def value_of(t):
            """value stored under exact name t after the k inserts: (present, value)"""
            present = BoolVal(False); val = bv64(0)
            for i in range(k):
                hit = And(names[i].t == t, ins_ok(i))
                first = And(names[i].t == t, Not(Or([names[j].t == t for j in range(i)]) if i else BoolVal(False)))
                present = Or(present, names[i].t == t)
                val = If(hit, bv64(i), val)
            return present, val
        bads = []; panics = []
        for st, res, o in finals:
            if isinstance(o, tuple) or o.kind != 'ret':
                panics.append(And(st.pc) if st.pc else BoolVal(True)); continue
            pc = o.cond()
            # insert results
            for i in range(k):
                r_ok = res[i].disc == bv64(0)
                bads.append(And(pc, r_ok != ins_ok(i)))
            got = o.value
            g_some = got.disc == bv64(1)
            g_val = None
            if 'Some' in got.vars:
                p = got.vars['Some'][0]
                g_val = eng.deref(o.st, p)
            ex_present, ex_val = value_of(q.t)
            # track candidates: inserted names on q's track (the insert must have happened: failed duplicate inserts still register nothing new)
            cand = [And(alt_some(names[i].t), alt_some(q.t), alt_key(names[i].t) == alt_key(q.t)) for i in range(k)]
            def ver_lt(i, j):   # version of name i strictly lower than version of name j (triple only; build metadata left open)
                a, b = names[i].t, names[j].t
                return Or(ULT(vmaj(a), vmaj(b)), And(vmaj(a) == vmaj(b), Or(ULT(vmin(a), vmin(b)), And(vmin(a) == vmin(b), ULT(vpat(a), vpat(b))))))
            any_cand = Or(cand)
            if g_val is not None:
                # the returned value must be the stored value of some name w that is either q itself (exact) or a highest-version candidate
                okv = []
                for w in range(k):
                    pw, vw = value_of(names[w].t)
                    is_best = And(cand[w], And([Or(Not(cand[j]), Not(ver_lt(w, j))) for j in range(k)]))
                    okv.append(And(g_val == vw, Or(And(ex_present, names[w].t == q.t), And(Not(ex_present), is_best))))
                good_some = Or(okv)
            else:
                good_some = BoolVal(False)
            spec_some = Or(ex_present, any_cand)
            bads.append(And(pc, Or(g_some != spec_some, And(g_some, Not(good_some)))))
        base = list(eng.assumptions)
        r, m = chk.obligation(f'namemap/{k} inserts + get: no panic', base + [Or(panics) if panics else BoolVal(False)])
        if r == 'sat': raise Inconclusive('NameMap panic path predicted; needs triage')
        r, m = chk.obligation(f'namemap/{k} inserts + get: exact hit, else highest on track, else none; duplicate insert fails and leaves map unchanged', base + [Or(bads)])
        if r == 'sat':
            case = realise_namemap(m, names[:k], shadow[:k], q, alt_some, alt_key, vmaj, vmin, vpat)
            nat = chk.native(case)
            exp = expected_namemap(case)
            if nat.get('get') not in exp['get'] or nat.get('inserts_ok') != exp['inserts_ok']:
                chk.finding('namemap-wrong', f'NameMap history {case} gives {nat}, reference says {exp}', {**case, 'expect': exp})
            else:
                raise Inconclusive(f'abstract NameMap counterexample does not reproduce natively: {case} -> {nat}')
        # witness: a history with a semver fallback hit, replayed natively
        for st, res, o in finals[:: max(1, len(finals) // 6)]:
            if isinstance(o, tuple) or o.kind != 'ret': continue
            r, m = chk.solve('namemap/witness', base + [o.cond()])
            if r != 'sat': continue
            case = realise_namemap(m, names[:k], shadow[:k], q, alt_some, alt_key, vmaj, vmin, vpat)
            nat = chk.native(case); exp = expected_namemap(case)
            pred_some = ev_int(m, o.value.disc) == 1
            chk.sample({'fn': 'NameMap', 'case': case, 'native': nat})
            if (nat.get('get') is not None) != pred_some or nat.get('inserts_ok') != [ev_int(m, r_.disc) == 0 for r_ in res]:
                raise Inconclusive(f'NameMap witness mismatch: {case}: native {nat}')
    chk.account(eng, [insert, get])
    chk.notes.append(f'NameMap: {total_paths} symbolic histories (paths) over {K} insert depths')

def realise_namemap(m, names, shadow, q, alt_some, alt_key, vmaj, vmin, vpat):
    """turn an abstract model into concrete name strings: same abstract identity -> same string; names on one track share
    the base `t<key>` and the track component of the version (guaranteed by the linking assumptions)"""
    seen = {}
    def render(a):
        t = m.eval(a.t, model_completion=True); ident = t.as_long()
        if ident in seen: return seen[ident]
        if z3.is_true(m.eval(alt_some(t), model_completion=True)):
            key = m.eval(alt_key(t), model_completion=True).as_long()
            mj = m.eval(vmaj(t), model_completion=True).as_long(); mn = m.eval(vmin(t), model_completion=True).as_long()
            pt = m.eval(vpat(t), model_completion=True).as_long()
            s_ = f't{key}@{mj}.{mn}.{pt}+i{ident}'
        else:
            s_ = f'p{ident}'
        seen[ident] = s_; return s_
    out = [render(a) for a in names] + [render(q)]
    ins = [{'name': out[i], 'shadow': bool(z3.is_true(m.eval(shadow[i], model_completion=True)))} for i in range(len(names))]
    return {'op': 'namemap', 'inserts': ins, 'get': out[-1]}

def expected_namemap(case):
    """independent reference in plain Python over concrete strings; `get` is the set of acceptable answers
    (ties on the version triple, i.e. names differing only in build metadata, are left open by the property)"""
    import re as _re
    def track(n):
        if '@' not in n: return None
        base, v = n.split('@', 1)
        mm = _re.match(r'^(0|[1-9]\d*)\.(0|[1-9]\d*)\.(0|[1-9]\d*)(?:\+[0-9A-Za-z.-]+)?$', v)
        if not mm: return None
        a, b, c = int(mm.group(1)), int(mm.group(2)), int(mm.group(3))
        if a: return (base, a), (a, b, c)
        if b: return (base, 0, b), (a, b, c)
        return None
    store = {}; oks = []
    for i, ins in enumerate(case['inserts']):
        n = ins['name']
        if n in store and not ins['shadow']: oks.append(False); continue
        store[n] = i; oks.append(True)
    q = case['get']
    if q in store: return {'inserts_ok': oks, 'get': [store[q]]}
    tq = track(q)
    if tq is None: return {'inserts_ok': oks, 'get': [None]}
    cands = [(track(n)[1], v) for n, v in store.items() if track(n) and track(n)[0] == tq[0]]
    if not cands: return {'inserts_ok': oks, 'get': [None]}
    best = max(c[0] for c in cands)
    return {'inserts_ok': oks, 'get': [v for t, v in cands if t == best]}

def model_validation(chk):
    """differential validation of the semver model against the real crate (natively), exhaustively over short strings"""
    alphabet = b'019.-+a'
    L = chk.pick(3, 5)
    n = 0; bad = None
    for ln in range(0, L + 1):
        for tup in itertools.product(alphabet, repeat=ln):
            b = bytes(tup)
            p = semver_parse(engine.const_str(b))
            okm = z3.is_true(z3.simplify(p['ok']))
            nat = chk.replay().ask({'op': 'semver_parse', 'text': b.decode()})
            n += 1
            if nat['ok'] != okm: bad = (b, okm, nat); break
            if okm:
                got = (z3.simplify(p['major']).as_long(), z3.simplify(p['minor']).as_long(), z3.simplify(p['patch']).as_long(),
                       z3.simplify(p['pre'][1]).as_long(), z3.simplify(p['build'][1]).as_long())
                want = (nat['major'], nat['minor'], nat['patch'], len(nat['pre']), len(nat['build']))
                if got != want: bad = (b, got, want); break
        if bad: break
    chk.notes.append(f'semver model validated against the real semver crate on {n} strings (all strings of length <= {L} over {alphabet.decode()!r})')
    if bad: raise Inconclusive(f'MODEL-MISMATCH semver_parse on {bad}')

def body(chk):
    fns = chk.load('wac-types'); decls = chk.decls()
    chk.assumptions += ['semver::Version::parse replaced by an exact bounded automaton (validated natively, see notes)',
                        'names are ASCII; non-ASCII names are outside the claim',
                        'NameMap: string equality abstracted to identity of abstract names; alternate_lookup_key replaced by its contract (verified in the first two parts)',
                        'IndexMap modelled as an insertion-ordered association list',
                        'ordering of build metadata left uninterpreted (property says build metadata is ignored)']
    chk.part('semver model validation', model_validation, chk)
    chk.part('alternate_lookup_key', part_alt_key, chk, fns, decls)
    chk.part('are_semver_compatible', part_compat, chk, fns, decls)
    chk.part('NameMap', part_namemap, chk, fns, decls)

if __name__ == '__main__':
    harness.run_check('C15', body)
