"""C03 — output imports are exactly those implied; implicit imports are shared (graph-side half).

Encoded (real MIR, wac-graph dump):
  A. CompositionGraphEncoder::resolve_imports from an arbitrary graph state satisfying the representation invariant of C06:
     which (name, kind) requirements are handed to the aggregator and in which order, the implicit / explicit bookkeeping, the
     two error conditions.  TypeAggregator::aggregate is replaced by its contract (C09): an event, success decided by an
     uninterpreted predicate.
  B. CompositionGraph::imports from the same states: the listing is exactly the unsatisfied arguments of live instantiations
     (node order, world order) followed by the explicit imports (node order) - hence it agrees with what resolve_imports requires.
  C. CompositionGraphEncoder::encode_imports with resolve_imports replaced by its contract (A) and the aggregator by C09's
     contract: every aggregated import is emitted exactly once, instances first; implicit arguments and explicit import nodes
     are bound to the index of their canonical import.
The emitted *bytes* (ComponentBuilder, TypeEncoder) are outside the claim; `State::import` / `self.import` are events.
"""
import sys, os, re, json, itertools
sys.path.insert(0, os.path.dirname(os.path.dirname(os.path.abspath(__file__))))
import z3
from z3 import And, Or, Not, If, BoolVal, BitVecVal, ULT, ULE, UGT, UGE, Implies, Int, Function, IntSort, BoolSort, BitVec, Bool
from m2s import harness, engine, models, containers, graphmodel
from m2s.engine import Lazy, Agg, Enum, StrV, Ref, Opaque, bv64, UNIT, fresh_id
from m2s.containers import VecV, MapV, lazy_atom, Atom, to_atom
from m2s.graphmodel import node_index, idx_term, bv32, GMapV
from m2s.harness import ev_int, ev_bool, run_fn, Inconclusive
from specs import c06
from specs.c06 import DEF, IMP, INST, ALIAS

AGG_OK = Function('aggregate_ok', IntSort(), BoolSort())          # the k-th aggregate call succeeds

def encoder_fn(eng, name):
    c = [n for n in eng.fns if re.search(r'^graph::<impl at [^>]*>::' + name + r'$', n) and 'CompositionGraphEncoder' in eng.fns[n].header]
    if len(c) != 1: raise engine.EngineError(f'CompositionGraphEncoder::{name} not found: {c}')
    return c[0]

def setup(chk, fns, decls, NN, EE, MM, ARGS, P, extra_ov=()):
    eng = c06.make_engine(chk, fns, decls, ARGS, 2)
    def m_agg_default(ctx): return ctx.ret(Agg((), 'TypeAggregator'))
    def m_aggregate(ctx):
        name = to_atom(ctx.eng, ctx.deref(ctx.args[1])).t; kind = ctx.deref(ctx.args[3])
        k = len([t for t in ctx.st.trace if t[0] == 'aggregate'])
        ctx.event('aggregate', name, c06.type_ident(kind) if isinstance(kind, (Lazy, Enum)) else None, kind)
        return ctx.ret(models.result(AGG_OK(z3.IntVal(k)), Agg((), 'TypeAggregator'), Opaque('merge-error')))
    def m_compat(ctx):
        from specs import absnames as AN
        a = to_atom(ctx.eng, ctx.deref(ctx.args[0])).t; b = to_atom(ctx.eng, ctx.deref(ctx.args[1])).t
        return ctx.ret(Or(a == b, AN.same_track(a, b)))
    eng.overrides = [(re.compile(p), h) for p, h in [(r'^<(?:wac_types::)?TypeAggregator as Default>::default$', m_agg_default), (r'^(?:wac_types::)?TypeAggregator::aggregate$', m_aggregate),
                                                     (r'^<HashSet<.*> as Default>::default$', lambda ctx: ctx.ret(Opaque('cache'))),
                                                     (r'^(?:wac_types::)?PackageKey::new$', lambda ctx: ctx.ret(Opaque('package-key'))),
                                                     (r'^(?:wac_types::)?are_semver_compatible$', m_compat)] + list(extra_ov)] + eng.overrides
    M_ = c06.Model('s_', NN, EE, MM, ARGS, P)
    st = engine.State(); gcell = st.alloc(M_.value(decls))
    view = c06.View(eng, st, st.heap[gcell], decls, ARGS, P)
    for c in c06.RI(view).values(): eng.assume(c)
    for p in range(P): eng.assume(Implies(M_.pk_some[p], M_.pk_gen[p] == bv64(0)))
    return eng, M_, st, gcell

def world_imports(M_, decls, chk, p):
    wt = chk.decls('wac-types'); wi = [n for n, t in wt.structs['World'][1]].index('imports')
    return M_.gtypes.kid(f'[{M_.pkg[p].kid("!world").name}]').kid(str(wi))

def requirements(M_, decls, chk):
    """the documented list: for every live instantiation (node order) every unsatisfied world import (world order) -> [(guard, name, kindid, node)]"""
    out = []
    for i in range(M_.NN):
        for p in range(M_.P):
            w = world_imports(M_, decls, chk, p)
            for k in range(M_.ARGS):
                g = And(M_.live[i], M_.kind[i] == bv64(INST), M_.pidx[i] == bv64(p), ULT(bv64(k), w.len()), Not(M_.sat[i][k]))
                out.append((g, lazy_atom(w.kid(f'[{k}].k')).t, w.kid(f'[{k}].v'), i))
    return out

def seq_matches(items, events, key):
    """items: [(guard, ...)] in documented order; events: concrete-length list -> formula: the events are exactly the items whose guard holds, in order.
    key(item, event) -> equality formula"""
    cs = []; pos = z3.IntVal(0); m = len(events)
    for it in items:
        g = it[0]
        hit = Or([And(pos == j, key(it, events[j])) for j in range(m)] + [BoolVal(False)])
        cs.append(Implies(g, hit)); pos = If(g, pos + 1, pos)
    cs.append(pos == m)
    return And(cs)

# ---------------------------------------------------------------------------- A. resolve_imports

def part_resolve_imports(chk, fns, decls, case):
    NN, EE, MM, ARGS, P = chk.pick((3, 1, 2, 2, 1), (4, 2, 2, 2, 2)); NI = 2
    chk.bounds['resolve_imports'] = {'node_slots': NN, 'import_map_entries': MM, 'world_imports': ARGS, 'packages': P, 'explicit_import_nodes_passed': NI}
    eng, M_, st, gcell = setup(chk, fns, decls, NN, EE, MM, ARGS, P)
    fname = encoder_fn(eng, 'resolve_imports')
    # import_nodes: the caller passes the Import nodes in topological order; here: an arbitrary duplicate-free list of live import nodes
    n_imp = case
    inodes = [BitVec(f'import_node{j}', 32) for j in range(n_imp)]
    for j, n in enumerate(inodes): eng.assume(Or([And(n == bv32(i), M_.live[i], M_.kind[i] == bv64(IMP)) for i in range(NN)]))
    for a, b in itertools.combinations(inodes, 2): eng.assume(a != b)
    # world import lists are duplicate free (IndexMap) and bounded
    for p in range(P):
        w = world_imports(M_, decls, chk, p); eng.assume(ULE(w.len(), bv64(ARGS)))
        for a, b in itertools.combinations(range(ARGS), 2): eng.assume(lazy_atom(w.kid(f'[{a}].k')).t != lazy_atom(w.kid(f'[{b}].k')).t)
    icell = st.alloc(VecV(())); ecell = st.alloc(MapV((), hashed=True))
    fn = eng.fns[fname]; fr = engine.Frame(fn)
    slf = Ref(st.alloc(Agg((Ref(gcell),), 'CompositionGraphEncoder')))
    for (loc, ty), a in zip(fn.params, [slf, VecV(tuple(node_index(n) for n in inodes)), Ref(icell), Ref(ecell)]): fr.env[loc] = st.alloc(a)
    st.frames = [fr]; eng.run(st); outs = eng.out; chk.account(eng, [fname])
    base = list(eng.assumptions)
    rb, _ = chk.solve(f'resolve_imports [{n_imp} import nodes]: case is non-empty', base)
    if rb != 'sat': chk.notes.append(f'resolve_imports [{n_imp}]: empty case'); return
    reqs = requirements(M_, decls, chk)
    imap = [(l, lazy_atom(k).t, v) for (l, k, v) in M_.imports]
    in_imports = lambda t: Or([And(l, k == t) for (l, k, v) in imap] + [BoolVal(False)])
    impname = lambda n: [lazy_atom(M_.impname[i]).t for i in range(NN)]
    def sel(n, vals):
        r = vals[-1]
        for i in reversed(range(len(vals) - 1)): r = If(n == bv32(i), vals[i], r)
        return r
    names_of = [lazy_atom(M_.impname[i]).t for i in range(NN)]
    kinds_of = [c06.type_ident(M_.ik[i]) for i in range(NN)]
    explicit = [(BoolVal(True), sel(n, names_of), sel(n, kinds_of), n) for n in inodes]
    bads = []
    # position (in the documented requirement list) of the first conflict / first failing aggregate
    for o in outs:
        if o.kind == 'bound': continue
        ev = [t for t in o.st.trace if t[0] == 'aggregate']
        if o.kind != 'ret':
            # the only documented panic: none. (`.unwrap()` on the aggregate of an explicit import is reported as a finding candidate)
            bads.append(('panic', o, o.cond())); continue
        v = o.value
        n_impl_ev = None
        if 'Ok' in v.vars:
            items = [(g, nm, c06.type_ident(kd), node) for (g, nm, kd, node) in reqs] + explicit
            okc = seq_matches(items, ev, lambda it, e: And(it[1] == e[1], it[2] == e[2]) if e[2] is not None else it[1] == e[1])
            no_conflict = And([Implies(g, Not(in_imports(nm))) for (g, nm, kd, node) in reqs])
            all_ok = And([AGG_OK(z3.IntVal(k)) for k in range(len(ev))])
            # bookkeeping: implicit_imports = the requirement list with its nodes; explicit_imports maps each import name to its node
            impl = o.st.heap[icell].items
            impl_items = [(eng.deref(o.st, x) if isinstance(x, Ref) else x) for x in impl]
            impl_ev = [(to_atom(eng, eng.deref(o.st, x.f[0])).t, idx_term(eng, o.st, x.f[1])) for x in impl_items]
            book = seq_matches([(g, nm, None, bv32(node)) for (g, nm, kd, node) in reqs], impl_ev, lambda it, e: And(it[1] == e[0], it[3] == e[1]))
            em = o.st.heap[ecell].entries
            em_ev = [(to_atom(eng, eng.deref(o.st, k)).t, idx_term(eng, o.st, v_)) for k, v_ in em]
            ebook = And([Or([And(nm == k, n == v_) for k, v_ in em_ev] + [BoolVal(False)]) for (_, nm, _, n) in explicit] + [BoolVal(len(em_ev) == len(explicit))])
            bads.append(('ok-but-wrong', o, And(o.cond(), Not(And(okc, no_conflict, all_ok, book, ebook)))))
        else:
            e = v.vars['Err'][0]; cls = list(e.vars)[0] if isinstance(e, Enum) and e.vars else 'opaque'
            if cls == 'ImplicitImportConflict':
                # some requirement's name is an explicit import, and every earlier requirement was aggregated successfully
                okc = Or([And(g, in_imports(nm)) for (g, nm, kd, node) in reqs] + [BoolVal(False)])
            elif cls == 'ImportTypeMergeConflict':
                okc = And(BoolVal(len(ev) > 0), Not(AGG_OK(z3.IntVal(len(ev) - 1))))
            else: okc = BoolVal(False)
            bads.append((f'err-{cls}', o, And(o.cond(), Not(okc))))
    r, m = chk.obligation(f'resolve_imports [{n_imp} import nodes]: requirements = unsatisfied arguments (node order, world order) then explicit imports; conflict and merge errors exactly as documented; no panic',
                          base + [Or([c for _, _, c in bads] + [BoolVal(False)])], base=base)
    if r == 'sat':
        hit = [(k, o) for k, o, c in bads if ev_bool(m, c)]
        kind = hit[0][0] if hit else '?'
        if kind == 'panic':
            confirm_unwrap_panic(chk, hit[0][1])
        else:
            chk.finding('resolve-imports-' + kind, f'resolve_imports: outcome `{kind}` contradicts the documented import resolution (rule-level counterexample over the MIR; aggregate calls: {[(str(t[1]),) for t in hit[0][1].st.trace if t[0] == "aggregate"][:6]})', {'rule': 'resolve_imports', 'outcome': kind})

def confirm_unwrap_panic(chk, o):
    """`aggregate(...).unwrap()` for explicit imports: reachable when an explicit import shares a semver track with an unsatisfied argument of an incompatible type"""
    FUNC = {'func': {'params': [], 'result': None}}
    steps = [['package', 't:p0', '(component (import "foo:bar/x@1.1.0" (instance (export "f" (func (param "a" u8))))))'],
             ['instantiate', 't:p0'], ['import', 'foo:bar/x@1.0.0', {'instance': [['f', FUNC]]}], ['imports'], ['encode']]
    case = {'op': 'graph', 'steps': steps}
    nat = chk.native(case)
    res = (nat.get('results') or [{}])[-1]
    chk.sample({'script': steps, 'encode': res, 'panic': nat.get('panic')})
    if nat.get('panic') or 'panic' in json.dumps(res):
        chk.finding('resolve-imports-explicit-merge-panic', f'encode() panics when an explicit import and an unsatisfied argument share a semver track but have incompatible types (`aggregate(..).unwrap()` in resolve_imports): {json.dumps(nat)[:400]}  [script: {json.dumps(steps)}]', case)
    else:
        raise Inconclusive(f'resolve_imports: a panic path exists in the MIR ({o.site[1] if o.site else o.value}) but the realisation does not panic natively: {json.dumps(nat)[:400]}')

# ---------------------------------------------------------------------------- B. imports() listing content

def part_listing(chk, fns, decls):
    NN, EE, MM, ARGS, P = chk.pick((3, 1, 2, 2, 1), (4, 2, 2, 2, 2))
    chk.bounds['imports()'] = {'node_slots': NN, 'world_imports': ARGS, 'packages': P}
    eng, M_, st, gcell = setup(chk, fns, decls, NN, EE, MM, ARGS, P)
    fname = c06.op_fn(eng, 'imports')
    for p in range(P):
        w = world_imports(M_, decls, chk, p); eng.assume(ULE(w.len(), bv64(ARGS)))
    fn = eng.fns[fname]; fr = engine.Frame(fn)
    for (loc, ty), a in zip(fn.params, [Ref(gcell)]): fr.env[loc] = st.alloc(a)
    st.frames = [fr]; eng.run(st); outs = eng.out; chk.account(eng, [fname])
    base = list(eng.assumptions)
    reqs = requirements(M_, decls, chk)
    expl = [(And(M_.live[i], M_.kind[i] == bv64(IMP)), lazy_atom(M_.impname[i]).t, None, i) for i in range(NN)]
    bads = []
    for o in outs:
        if o.kind == 'bound': continue
        if o.kind != 'ret': bads.append(o.cond()); continue
        v = o.value; v = eng.deref(o.st, v) if isinstance(v, Ref) else v
        items = v.items if isinstance(v, VecV) else (v.a if isinstance(v, containers.It) and v.kind == 'seq' else None)
        if items is None: raise Inconclusive(f'imports(): unexpected return value {v!r}')
        evs = []
        for it in items:
            it = eng.deref(o.st, it); nm = to_atom(eng, eng.deref(o.st, it.f[0])).t; opt = it.f[2]
            some = opt.disc == bv64(1) if isinstance(opt, Enum) else BoolVal(False)
            nid = idx_term(eng, o.st, opt.vars['Some'][0]) if isinstance(opt, Enum) and 'Some' in opt.vars and opt.vars['Some'] else None
            evs.append((nm, some, nid))
        def key(it, e):
            if it[2] is None and isinstance(it[3], int) and it in expl: return And(it[1] == e[0], e[1], e[2] == bv32(it[3])) if e[2] is not None else BoolVal(False)
            return And(it[1] == e[0], Not(e[1]))
        okc = seq_matches([(g, nm, kd, node) for (g, nm, kd, node) in reqs] + expl, evs, key)
        bads.append(And(o.cond(), Not(okc)))
    r, m = chk.obligation('CompositionGraph::imports: exactly the unsatisfied arguments of live instantiations (node order, world order; no node id) followed by the explicit imports (node order, with their node id)',
                          base + [Or(bads + [BoolVal(False)])], base=base)
    # translator validation: pre-states of a few paths are built through the public API and the real listing is compared with the documented one
    from specs.c06_realise import realise
    seen_shapes = set()
    for o in [o for o in outs if o.kind == 'ret'][:: max(1, len(outs) // 6)]:
        r2, m2 = chk.solve('imports()/witness', base + [o.cond()] + [world_imports(M_, decls, chk, p).len() == bv64(ARGS) for p in range(P)])      # the realiser's packages have exactly ARGS imports
        if r2 != 'sat': continue
        script, final = realise(M_, m2, 'none', {}, {})
        if script is None: continue
        nat = chk.native({'op': 'graph', 'steps': script})
        lst = next((x['imports'] for x in (nat.get('results') or []) if isinstance(x, dict) and 'imports' in x), None)
        if lst is None: continue
        want = []
        for (g, nm, kd, node) in reqs:
            if ev_bool(m2, g): want.append('implicit')
        for (g, nm, kd, node) in expl:
            if ev_bool(m2, g): want.append('explicit')
        got = ['explicit' if x[1] is not None else 'implicit' for x in lst]
        chk.sample({'fn': 'imports()', 'script': script, 'native': lst, 'documented_shape': want})
        if got != want: raise Inconclusive(f'imports() witness: native listing {lst} has shape {got}, the documented listing for the model is {want}; script {json.dumps(script)}')
    if r == 'sat':
        chk.finding('imports-listing-content', 'CompositionGraph::imports() does not list exactly the implied imports (rule-level counterexample over the MIR)', {'rule': 'CompositionGraph::imports'})

# ---------------------------------------------------------------------------- C. encode_imports

def part_encode_imports(chk, fns, decls):
    K = chk.pick(2, 3); NI = chk.pick(2, 2); NE = chk.pick(1, 2)
    chk.bounds['encode_imports'] = {'aggregated_imports': K, 'implicit_imports': NI, 'explicit_imports': NE}
    wt = chk.decls('wac-types'); inst_idx = wt.enum_index('ItemKind', 'Instance')
    CANON = Function('canonical_name', IntSort(), IntSort())
    agg_names = [Lazy(f'agg.name{i}', '&str') for i in range(K)]; agg_kinds = [Lazy(f'agg.kind{i}', 'ItemKind') for i in range(K)]
    impl = [(Lazy(f'implicit.name{i}', '&str'), BitVec(f'implicit.node{i}', 32)) for i in range(NI)]
    expl = [(Lazy(f'explicit.name{i}', '&str'), BitVec(f'explicit.node{i}', 32)) for i in range(NE)]
    at = lambda x: lazy_atom(x).t
    def m_resolve(ctx):
        # contract of resolve_imports (part A): fills the two collections, returns the aggregator
        ctx.eng.write_ref(ctx.st, ctx.args[2], VecV(tuple(Agg((n, node_index(v))) for n, v in impl)))
        ctx.eng.write_ref(ctx.st, ctx.args[3], MapV(tuple((n, node_index(v)) for n, v in expl), hashed=True))
        return ctx.ret(models.ok(Agg((), 'TypeAggregator')))
    def m_agg_imports(ctx): return ctx.ret(containers.It('seq', tuple(Agg((n, k)) for n, k in zip(agg_names, agg_kinds)), 0))
    def m_agg_types(ctx): return ctx.ret(Ref(Lazy('agg.types', 'Types'), ()))
    def m_canon(ctx):
        t = to_atom(ctx.eng, ctx.deref(ctx.args[1])).t
        # C09: the canonical name of a required name is one of the aggregated imports
        alts = [(CANON(t) == at(agg_names[i]), agg_names[i]) for i in range(K)]
        return ctx.forks(alts)
    def m_import(ctx):
        name = to_atom(ctx.eng, ctx.deref(ctx.args[2])).t; kind = ctx.deref(ctx.args[4])
        k = len([t for t in ctx.st.trace if t[0] == 'emit']); ctx.event('emit', name, kind, k)
        return ctx.ret(BitVecVal(100 + k, 32))
    def m_into_kind(ctx):
        k = ctx.deref(ctx.args[0]); return ctx.ret(Agg((k,), 'ComponentExportKind'))
    ov = [(r'resolve_imports$', m_resolve), (r'^(?:wac_types::)?TypeAggregator::imports$', m_agg_imports), (r'^(?:wac_types::)?TypeAggregator::types$', m_agg_types),
          (r'^(?:wac_types::)?TypeAggregator::canonical_import_name$', m_canon), (r'^graph::CompositionGraphEncoder::<.*>::import$|::import$', m_import),
          (r'^<(?:wac_types::)?ItemKind as Into<ComponentExportKind>>::into$', m_into_kind)]
    eng = chk.engine(fns, decls, overrides=ov, loop_bound=K + NI + NE + 3, vec_cap=3); eng.atom_strings = True; eng.hash_order_symbolic = False
    fname = encoder_fn(eng, 'encode_imports')
    state_decl = [n for n, t in decls.structs['State'][1]]
    sf = [Opaque('state-field')] * len(state_decl)
    sf[state_decl.index('node_indexes')] = MapV((), hashed=True); sf[state_decl.index('implicit_args')] = MapV((), hashed=True)
    st = engine.State(); scell = st.alloc(Agg(sf, 'State'))
    names_t = [at(n) for n in agg_names]
    for a, b in itertools.combinations(names_t, 2): eng.assume(a != b)
    for a, b in itertools.combinations([at(n) for n, _ in expl], 2): eng.assume(a != b)
    for a, b in itertools.combinations([v for _, v in expl], 2): eng.assume(a != b)
    for n, _ in impl + expl: eng.assume(Or([CANON(at(n)) == t for t in names_t]))
    for k in agg_kinds: eng.assume(ULT(k.disc, bv64(len(wt.enums['ItemKind']))))
    fn = eng.fns[fname]; fr = engine.Frame(fn)
    for (loc, ty), a in zip(fn.params, [Ref(st.alloc(Agg((Opaque('graph'),), 'CompositionGraphEncoder'))), Ref(scell), VecV(())]): fr.env[loc] = st.alloc(a)
    st.frames = [fr]; eng.run(st); outs = eng.out; chk.account(eng, [fname])
    base = list(eng.assumptions)
    is_inst = [k.disc == bv64(inst_idx) for k in agg_kinds]
    bads = []
    for o in outs:
        if o.kind == 'bound': continue
        if o.kind != 'ret' or 'Ok' not in o.value.vars: bads.append(o.cond()); continue
        em = [t for t in o.st.trace if t[0] == 'emit']
        cs = [BoolVal(len(em) == K)]
        if len(em) == K:
            # instances first (in aggregator order), then the rest (in aggregator order)
            items = [(is_inst[i], names_t[i]) for i in range(K)] + [(Not(is_inst[i]), names_t[i]) for i in range(K)]
            cs.append(seq_matches(items, em, lambda it, e: it[1] == e[1]))
            index_of = lambda t: [If(em[j][1] == t, BitVecVal(100 + j, 32), BitVecVal(0, 32)) for j in range(K)]
            def idx(t):
                r = BitVecVal(0, 32)
                for j in range(K): r = If(em[j][1] == t, BitVecVal(100 + j, 32), r)
                return r
            post = o.st.heap[scell]
            ni = post.f[state_decl.index('node_indexes')]; ia = post.f[state_decl.index('implicit_args')]
            ni_ev = [(idx_term(eng, o.st, k), eng.term(eng.deref(o.st, v), 'u32')) for k, v in ni.entries]
            for (n, v) in expl: cs.append(Or([And(k == v, x == idx(CANON(at(n)))) for k, x in ni_ev] + [BoolVal(False)]))
            cs.append(BoolVal(len(ni_ev) == NE))
            # implicit_args: per node the (name, index) pairs in order
            got = []
            for k, vec in ia.entries:
                vec = eng.deref(o.st, vec)
                for item in (vec.items if isinstance(vec, VecV) else []):
                    item = eng.deref(o.st, item); got.append((idx_term(eng, o.st, k), to_atom(eng, eng.deref(o.st, item.f[0])).t, eng.term(item.f[2], 'u32')))
            cs.append(BoolVal(len(got) == NI))
            for (n, v) in impl: cs.append(Or([And(k == v, nm == at(n), x == idx(CANON(at(n)))) for k, nm, x in got] + [BoolVal(False)]))
        bads.append(And(o.cond(), Not(And(cs))))
    r, m = chk.obligation('encode_imports: each aggregated import emitted exactly once, instances first; every implicit argument and explicit import node bound to the index of its canonical import',
                          base + [Or(bads + [BoolVal(False)])], base=base)
    if r == 'sat':
        chk.finding('encode-imports-binding', 'encode_imports binds an implicit argument or an explicit import node to the wrong emitted import, or emits an import twice / not at all (rule-level counterexample over the MIR)', {'rule': 'encode_imports'})

# ---------------------------------------------------------------------------- D. CompositionGraphEncoder::import (one import emission)

def part_import_emission(chk, fns, decls):
    """`import(state, name, types, kind)`: an interface already imported in this scope is reused; otherwise exactly one import of the item's own kind
    under the given name is emitted, and types / identified instances are recorded for later reuse"""
    wt = chk.decls('wac-types'); kinds = [v[0] for v in wt.enums['ItemKind']]
    name = Lazy('name', '&str'); kind = Lazy('kind', 'ItemKind'); types = Lazy('types', 'Types')
    known_iid = Lazy('known.interface_id', 'std::string::String'); known_idx = BitVec('known.instance_index', 32)
    io = [x for x, t in wt.structs['Interface'][1]]
    def m_builder(ctx): return ctx.ret(Ref(Lazy('builder', 'ComponentBuilder'), ()))
    def m_import(ctx): ctx.event('import', to_atom(ctx.eng, ctx.deref(ctx.args[1])).t, ctx.args[2]); return ctx.ret(BitVecVal(1000, 32))
    def m_enc_new(ctx): return ctx.ret(Opaque('type-encoder'))
    def m_enc_ty(ctx): ctx.event('encode_type', ctx.deref(ctx.args[2])); return ctx.ret(BitVecVal(500, 32))
    def m_enc_res(ctx): ctx.event('import_resource', to_atom(ctx.eng, ctx.deref(ctx.args[2])).t, ctx.deref(ctx.args[3])); return ctx.ret(BitVecVal(700, 32))
    def m_iface(ctx):
        idv = ctx.deref(ctx.args[1]); return ctx.ret(Ref(Lazy(f'iface[{idv.name}]', 'Interface'), ()))
    def m_kind_ty(ctx):
        k = ctx.deref(ctx.args[0]); return ctx.ret(k.kid('!ty', 'wac_types::Type'))
    def m_desc(ctx): return ctx.ret(Opaque('desc'))
    ov = [(r'^(?:encoding::)?State::builder$', m_builder), (r'ComponentBuilder::import$', m_import), (r'^(?:encoding::)?TypeEncoder::<.*>::new$', m_enc_new), (r'^(?:encoding::)?TypeEncoder::<.*>::ty$', m_enc_ty),
          (r'^(?:encoding::)?TypeEncoder::<.*>::import_resource$', m_enc_res), (r'^<wac_types::Types as Index<(?:wac_types::)?InterfaceId>>::index$', m_iface),
          (r'^(?:wac_types::)?ItemKind::ty$', m_kind_ty), (r'^(?:wac_types::)?ItemKind::desc$', m_desc)]
    eng = chk.engine(fns, decls, overrides=ov, loop_bound=4); eng.atom_strings = True
    def eq_hook(a, b):
        t = (a.ty or b.ty or '')
        if 'Type' in t or t.endswith('Id') or t == '': return lazy_atom(a).t == lazy_atom(b).t
        return None
    eng.eq_hook = eq_hook
    fname = encoder_fn(eng, 'import')
    so = [x for x, t in decls.structs['Scope'][1]]; sto = [x for x, t in decls.structs['State'][1]]
    scope = [Opaque('scope-field')] * len(so)
    scope[so.index('type_indexes')] = MapV(()); scope[so.index('instances')] = MapV(((known_iid, known_idx),))
    sf = [Opaque('state-field')] * len(sto); sf[sto.index('current')] = Agg(scope, 'Scope'); sf[sto.index('scopes')] = VecV(())
    st = engine.State(); scell = st.alloc(Agg(sf, 'State'))
    fn = eng.fns[fname]; fr = engine.Frame(fn)
    for (loc, ty), a in zip(fn.params, [Ref(st.alloc(Agg((Opaque('graph'),), 'CompositionGraphEncoder'))), Ref(scell), name, Ref(types, ()), kind]): fr.env[loc] = st.alloc(a)
    eng.assume(ULT(kind.disc, bv64(len(kinds))))
    tkey = wt.find_enum(['component', 'Type'], 'Resource')[0]; tvars = [v[0] for v in wt.enums[tkey]]
    eng.assume(ULT(kind.kid('Type.0').disc, bv64(len(tvars))))
    st.frames = [fr]; eng.run(st); outs = eng.out; chk.account(eng, [fname])
    base = list(eng.assumptions)
    KI = {k: bv64(i) for i, k in enumerate(kinds)}
    iface = Lazy(f'iface[{kind.kid("Instance.0").name}]', 'Interface'); iid_opt = iface.kid(str(io.index('id'))); iid = iid_opt.kid('Some.0')
    is_inst = kind.disc == KI['Instance']; has_id = iid_opt.disc == bv64(1)
    reuse = And(is_inst, has_id, lazy_atom(iid).t == lazy_atom(known_iid).t)
    is_res = And(kind.disc == KI['Type'], kind.kid('Type.0').disc == bv64(tvars.index('Resource')))
    REF_OF = {'Type': 'Type', 'Func': 'Func', 'Instance': 'Instance', 'Component': 'Component', 'Module': 'Module', 'Value': 'Value'}
    bads = []; DBG = []
    for o in outs:
        if o.kind == 'bound': continue
        if o.kind != 'ret':
            if os.environ.get('C03_DEBUG'): print('  non-ret', o.kind, o.site, o.value)
            bads.append(o.cond()); continue
        tr = o.st.trace; imp = [t for t in tr if t[0] == 'import']; res = [t for t in tr if t[0] == 'import_resource']; enc = [t for t in tr if t[0] == 'encode_type']
        post = o.st.heap[scell].f[sto.index('current')]
        pinst = post.f[so.index('instances')].entries; ptypes = post.f[so.index('type_indexes')].entries
        rv = eng.term(o.value, 'u32')
        if not imp and not res:
            cs = [reuse, rv == known_idx, BoolVal(not enc and len(pinst) == 1 and not ptypes)]
        elif res:
            cs = [Not(reuse), is_res, BoolVal(len(res) == 1 and not imp), res[0][1] == lazy_atom(name).t, rv == BitVecVal(700, 32)]
        else:
            cs = [Not(reuse), Not(is_res), BoolVal(len(imp) == 1 and len(enc) == 1), imp[0][1] == lazy_atom(name).t, rv == BitVecVal(1000, 32)]
            ref = imp[0][2]; ref = eng.deref(o.st, ref) if isinstance(ref, Ref) else ref
            rvar = list(ref.vars)[0] if isinstance(ref, Enum) and ref.vars else (ref.ty.split('::')[-1] if isinstance(ref, Agg) and ref.ty else None)
            cs.append(Or([And(kind.disc == KI[k], BoolVal(rvar == v)) for k, v in REF_OF.items()]))
            # bookkeeping for later reuse
            cs.append(If(kind.disc == KI['Type'], BoolVal(len(ptypes) == 1), BoolVal(len(ptypes) == 0)))
            cs.append(If(And(is_inst, has_id), BoolVal(len(pinst) == 2), BoolVal(len(pinst) == 1)))
            if len(pinst) == 2: cs.append(And(to_atom(eng, eng.deref(o.st, pinst[1][0])).t == lazy_atom(iid).t, eng.term(pinst[1][1], 'u32') == BitVecVal(1000, 32)))
            if len(ptypes) == 1: cs.append(eng.term(ptypes[0][1], 'u32') == BitVecVal(1000, 32))
        bads.append(And(o.cond(), Not(And(cs)))); DBG.append((o, cs))
    r, m = chk.obligation('CompositionGraphEncoder::import: an interface already imported in the scope is reused (no second import); otherwise one import of the item\'s own kind under the given name, recorded for reuse',
                          base + [Or(bads + [BoolVal(False)])], base=base)
    if r == 'sat' and os.environ.get('C03_DEBUG'):
        for o, cs in DBG:
            if ev_bool(m, And(o.cond(), Not(And(cs)))):
                print('  trace', [t[:3] for t in o.st.trace], 'value', o.value, 'kind', m.eval(kind.disc))
                for i, x in enumerate(cs):
                    if not ev_bool(m, x): print('  failing clause', i, str(z3.simplify(x))[:200])
                break
    if r == 'sat':
        chk.finding('import-emission', 'CompositionGraphEncoder::import emits a second import for an interface that is already imported, an import of the wrong kind / name, or does not record it for reuse (rule-level counterexample over the MIR)', {'rule': 'import'})

def body(chk):
    chk.assumptions += ['graph states satisfy the representation invariant of C06 (plus its stated realisability restrictions); world import lists are duplicate-free and bounded',
                        'TypeAggregator::aggregate / canonical_import_name / imports by contract (C09): aggregate succeeds or fails arbitrarily per call, the canonical name of a required name is an aggregated import',
                        'emission (`self.import`, ComponentBuilder, TypeEncoder) is an event: the bytes of the import and export sections are NOT decided here; exports and creation-order independence are outside this check']
    fns = chk.load('wac-graph'); decls = chk.decls('wac-graph')
    c06.IK_INSTANCE = decls.enum_index('ItemKind', 'Instance')
    parts = [(f'resolve_imports[{n}]', part_resolve_imports, (fns, decls, n)) for n in (0, 1, 2)]
    parts += [('imports()', part_listing, (fns, decls)), ('encode_imports', part_encode_imports, (fns, decls)), ('import emission', part_import_emission, (fns, decls))]
    chk.parallel(parts)

if __name__ == '__main__':
    harness.run_check('C03', body)
