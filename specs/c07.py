"""C07 — argument type checking = the component-model subtype relation (rule by rule, assume-guarantee).

Every rule function of `SubtypeChecker` is executed symbolically from the real MIR with lazily instantiated types; the verdicts of
the rule functions it calls are uninterpreted predicates ok_G(x, y). Obligation per rule F:  F returns Ok  <=>  R_F(ok_G ...), where
R_F is the reference rule written below. By induction on type depth the implemented relation is then the least relation closed under
the reference rules. Collections are bounded by K entries.
"""
import sys, os, re, json
sys.path.insert(0, os.path.dirname(os.path.dirname(os.path.abspath(__file__))))
import z3
from z3 import And, Or, Not, If, BoolVal, BitVecVal, ULT, ULE, UGT, UGE, Implies, Int, Function, IntSort, BoolSort
from m2s import harness, engine, models, containers
from m2s.engine import Lazy, Agg, Enum, StrV, Ref, Opaque, bv64, UNIT, fresh_id
from m2s.containers import VecV, MapV, lazy_atom, lz_len, elem_ty
from m2s.harness import ev_int, ev_bool, run_fn, Inconclusive, start

RULES = ['is_subtype', 'is_subtype_', 'ty', 'func', 'instance_exports', 'interface', 'world', 'module', 'core_extern', 'core_func',
         'value_type', 'defined_type', 'result', 'enum_type', 'flags', 'record', 'variant', 'tuple', 'payload', 'primitive', 'resource']
ARENA = {'FuncTypeId': 'FuncType', 'InterfaceId': 'Interface', 'WorldId': 'World', 'ModuleTypeId': 'ModuleType', 'DefinedTypeId': 'DefinedType',
         'ResourceId': 'Resource'}

class Ctx07:
    def __init__(s, chk, fns, decls, K):
        s.chk = chk; s.fns = fns; s.decls = decls; s.K = K
        s.uf = {}
    def ok(s, rule):
        if rule not in s.uf: s.uf[rule] = Function('ok_' + rule, IntSort(), IntSort(), BoolSort())
        return s.uf[rule]
    def fidx(s, struct, field):
        for i, (n, t) in enumerate(s.decls.structs[struct][1]):
            if n == field: return i
        raise KeyError((struct, field))
    def vidx(s, enum, variant): return s.decls.enum_index(enum, variant)
    def vfield(s, enum, variant, field):
        for v, k, fs in s.decls.enums[enum]:
            if v == variant:
                for i, (n, t) in enumerate(fs):
                    if n == field: return i
        raise KeyError((enum, variant, field))

def ident(x):
    if isinstance(x, Lazy):
        t = x.extra.get('ident')
        if t is None: t = Int('id:' + x.name); x.extra['ident'] = t
        return t
    raise engine.EngineError(f'ident of {x!r}')

def make_engine(C, kinds):
    """engine whose rule-function calls are uninterpreted; `kinds` is the checker's variance stack (VecV)"""
    chk = C.chk
    def m_rule(ctx):
        name = re.search(r'::(\w+)$', ctx.callee).group(1)
        off = 1 if name == 'result' else 0
        a = ctx.deref(ctx.args[1 + off]); b = ctx.deref(ctx.args[3 + off])
        okc = C.ok(name)(ident(a), ident(b))
        ctx.event('call', name, a.name, b.name)
        return ctx.ret(models.result(okc, UNIT, Opaque(f'err{fresh_id()}')))
    def m_index(ctx):
        m = re.match(r'^<component::Types as Index(?:Mut)?<(?:component::|core::)?(\w+)>>::index', ctx.callee)
        at = ctx.args[0]; idv = ctx.deref(ctx.args[1])
        at = ctx.deref(at) if isinstance(at, Ref) else at
        return ctx.ret(Ref(at.kid(f'[{idv.name}]', ARENA[m.group(1)]), ()))
    def m_resolve_vt(ctx):
        v = ctx.deref(ctx.args[1]); return ctx.ret(v.kid('!resolved', 'component::ValueType'))
    def m_resolve_res(ctx):
        v = ctx.deref(ctx.args[1]); return ctx.ret(v.kid('!resolved', 'component::ResourceId'))
    def m_context(ctx): return ctx.ret(ctx.args[0])
    def m_desc(ctx): return ctx.ret(Opaque(f'desc{fresh_id()}'))
    eq_uf = {}
    def m_eq_uf(ctx):
        m = re.match(r'^<(?:core::)?(\w+) as PartialEq>::eq$', ctx.callee); t = m.group(1)
        if t not in eq_uf: eq_uf[t] = Function('eq_' + t, IntSort(), IntSort(), BoolSort())
        a = ctx.deref(ctx.args[0]); b = ctx.deref(ctx.args[1])
        return ctx.ret(eq_uf[t](ident(a), ident(b)))
    in_cache = Function('in_cache', IntSort(), IntSort(), BoolSort())
    def m_cache_contains(ctx):
        k = ctx.deref(ctx.args[1]); a, b = k.f
        return ctx.ret(in_cache(ident(ctx.deref(a)), ident(ctx.deref(b))))
    def m_cache_insert(ctx):
        k = ctx.deref(ctx.args[1]); a, b = k.f
        ctx.event('cache-insert', ident(ctx.deref(a)), ident(ctx.deref(b))); return ctx.ret(BoolVal(True))
    overrides = [
        (r'^checker::SubtypeChecker::<.*>::(?:' + '|'.join(RULES) + r')$', m_rule),
        (r'^<component::Types as Index(?:Mut)?<.*>>::index', m_index),
        (r'^component::Types::resolve_value_type$', m_resolve_vt),
        (r'^component::Types::resolve_resource$', m_resolve_res),
        (r'^<(?:std::result::)?Result<.*> as anyhow::Context<.*>>::(?:with_context|context)(?:::<.*>)?$', m_context),
        (r'^component::(?:ItemKind|Type|ValueType|DefinedType|PrimitiveType)::desc$', m_desc),
        (r'^<(?:core::)?(?:CoreRefType|CoreType|CoreFuncType) as PartialEq>::eq$', m_eq_uf),
        (r'^(?:std::collections::)?HashSet::<\(component::ItemKind, component::ItemKind\)>::contains(?:::<.*>)?$', m_cache_contains),
        (r'^(?:std::collections::)?HashSet::<\(component::ItemKind, component::ItemKind\)>::insert$', m_cache_insert),
    ]
    eng = chk.engine(C.fns, C.decls, overrides=overrides, vec_cap=C.K, loop_bound=C.K + 2)
    eng.atom_strings = True
    eng.uf_eq = eq_uf; eng.in_cache = in_cache
    return eng

def checker_self(C, st, kinds):
    cache = st.alloc(Agg((), 'HashSetModel'))
    f = [None, None]
    f[C.fidx('SubtypeChecker', 'kinds')] = VecV(kinds); f[C.fidx('SubtypeChecker', 'cache')] = Ref(cache)
    return Ref(st.alloc(Agg(f, 'SubtypeChecker')))

def kind_val(C, name): return Enum('SubtypeCheck', bv64(C.vidx('SubtypeCheck', name)), {name: ()})
def sym_kind(C, nm):
    d = z3.BitVec(nm, 64)
    return Enum('SubtypeCheck', d, {'Covariant': (), 'Contravariant': ()}), Or(d == bv64(0), d == bv64(1))

def run_rule(C, rule, mkargs):
    """run `rule` for both an empty and a one-element variance stack; returns [(eng, outs, args)]"""
    res = []
    for depth in (0, 1):
        kinds = []; dom = []
        for i in range(depth):
            k, c = sym_kind(C, f'kind{i}'); kinds.append(k); dom.append(c)
        eng = make_engine(C, kinds)
        for c in dom: eng.assume(c)
        fname = eng.find_fn(r'^checker::<impl at [^>]*>::' + rule + r'$')
        st = engine.State(); slf = checker_self(C, st, kinds)
        fn = eng.fns[fname]
        args = mkargs(fn)
        fr = engine.Frame(fn)
        vals = [slf] + args
        assert len(vals) == fn.nargs, (rule, len(vals), fn.nargs)
        for (loc, ty), a in zip(fn.params, vals): fr.env[loc] = st.alloc(a)
        st.frames = [fr]
        n0 = len(eng.out); eng.run(st)
        outs = eng.out[n0:]
        C.chk.account(eng, [fname])
        res.append((eng, outs, args, kinds))
    return res

def lz(name, ty): return Lazy(name, ty)
def std_args(fn):
    """(a, at, b, bt) or (desc, a, at, b, bt) lazies typed from the function signature"""
    out = []
    for (loc, ty) in fn.params[1:]:
        nm = {2: 'a', 3: 'at', 4: 'b', 5: 'bt'}
        out.append(ty)
    n = len(fn.params) - 1
    names = ['a', 'at', 'b', 'bt'] if n == 4 else ['desc', 'a', 'at', 'b', 'bt']
    return [engine.norm_lazy(Lazy(nm, ty)) for nm, (loc, ty) in zip(names, fn.params[1:])]

def unpack(args):
    args = list(args)
    args[-3] = by_ref(args[-3]); args[-1] = by_ref(args[-1])
    return args

def by_ref(l):
    """value behind an argument that may be a reference"""
    return l.base if isinstance(l, Ref) else l

def all_lazies(args):
    seen = []
    def walk(l):
        seen.append(l)
        for k in list(l.kids.values()): walk(k)
    for a in args:
        if isinstance(a, Ref) and isinstance(a.base, Lazy): a = a.base
        if isinstance(a, Lazy): walk(a)
    return seen

def map_wf(eng, args, K):
    """IndexMap/IndexSet invariant: keys are pairwise distinct"""
    cs = []
    for l in all_lazies(args):
        keys = [(i, l.kids.get(f'[{i}].k')) for i in range(K)]
        keys = [(i, k) for i, k in keys if k is not None]
        for x in range(len(keys)):
            for y in range(x + 1, len(keys)):
                (i, ki), (j, kj) = keys[x], keys[y]
                cs.append(Or(UGE(bv64(j), l.len()), Not(containers.val_eq(eng, None, ki, kj))))
        items = [(i, l.kids.get(f'[{i}]')) for i in range(K)]
        items = [(i, k) for i, k in items if k is not None and 'atom' in k.extra]      # sets of names
        for x in range(len(items)):
            for y in range(x + 1, len(items)):
                (i, ki), (j, kj) = items[x], items[y]
                cs.append(Or(UGE(bv64(j), l.len()), lazy_atom(ki).t != lazy_atom(kj).t))
    return cs

def native_verdict(C, rule, m, args):
    """replays the model through the real SubtypeChecker (whole is_subtype pipeline); None when the rule has no realiser"""
    try: r = realise(C, rule, m, args)
    except (KeyError, IndexError, AttributeError): r = None
    if r is None: return None, None
    case = {'op': 'subtype', 'a': r[0], 'b': r[1]}
    nat = C.chk.native(case)
    if 'panic' in nat: return 'panic', case
    return nat.get('ok'), case

def decide(C, rule, res, spec_fn, extra_assume=lambda eng, args: [], allow_panic=False):
    """obligation: on every path, (returns Ok) == reference; no panic / bound outcome reachable"""
    chk = C.chk
    for eng, outs, args, kinds in res:
        C.eng_uf = eng.uf_eq
        spec = spec_fn(eng, args)
        base = list(eng.assumptions) + list(extra_assume(eng, args)) + map_wf(eng, args, C.K)
        bads = []; nonret = []
        for o in outs:
            if o.kind != 'ret':
                nonret.append((o, o.cond())); continue
            bads.append(And(o.cond(), (o.value.disc == bv64(0)) != spec))
        tag = f'{rule}[variance stack depth {len(kinds)}]'
        if nonret:
            r, m = chk.obligation(f'{tag}: no panic, no exhausted bound', base + [Or([c for _, c in nonret])])
            if r == 'sat':
                hit = [o for o, c in nonret if ev_bool(m, c)]
                nat, case = native_verdict(C, rule, m, args)
                if nat == 'panic':
                    chk.finding(f'rule-{rule}-panic', f'SubtypeChecker::{rule} panics ({hit[0].site}) on {case}', case)
                else:
                    raise Inconclusive(f'{rule}: reachable {hit[0].kind} outcome {hit[0].site} from an arbitrary well-formed input (native: {nat}); needs triage')
        r, m = chk.obligation(f'{tag}: verdict = reference rule over sub-verdicts', base + [Or(bads) if bads else BoolVal(False)])
        if r == 'sat':
            hit = [o for o in outs if o.kind == 'ret' and ev_bool(m, o.cond())]
            desc = describe_model(m, args)
            got = ev_int(m, hit[0].value.disc) == 0 if hit else None
            want = ev_bool(m, spec)
            nat, case = native_verdict(C, rule, m, args) if len(kinds) == 0 else (None, None)
            what = f'SubtypeChecker::{rule} returns {"Ok" if got else "Err"} but the reference subtyping rule says {"Ok" if want else "Err"}'
            if nat is None:
                chk.finding(f'rule-{rule}', what + f' (rule-level model, not replayed natively): {desc}', {'rule': rule, 'model': desc, 'calls': [list(map(str, t)) for t in (hit[0].st.trace if hit else [])]})
            elif nat == got:
                chk.finding(f'rule-{rule}', what + f'; reproduced natively: is_subtype({json.dumps(case["a"])}, {json.dumps(case["b"])}) = {"Ok" if nat else "Err"}', case)
            else:
                raise Inconclusive(f'{rule}: model says impl={got} spec={want} but the real checker answers {nat} on {case}')
        # vacuity + translator validation: both verdicts reachable, and the real checker agrees on the witness
        for want in (True, False):
            c = [And(o.cond(), (o.value.disc == bv64(0)) == BoolVal(want), spec == BoolVal(want)) for o in outs if o.kind == 'ret']
            r, m = chk.solve(f'{tag}: witness verdict={want}', base + [Or(c) if c else BoolVal(False)])
            if r != 'sat':
                chk.notes.append(f'{tag}: verdict={want} has no witness')
                if want: raise Inconclusive(f'{rule}: the harness cannot reach an Ok verdict (vacuous)')
                continue
            if len(kinds) == 0:
                nat, case = native_verdict(C, rule, m, args)
                if nat is not None:
                    if len(chk.samples) < 14: chk.sample({'rule': rule, 'verdict': want, 'native_case': case})
                    if nat != want:
                        raise Inconclusive(f'{rule}: witness for verdict={want} gives {nat} natively on {case} (reference rule or encoding wrong)')

def describe_model(m, args):
    out = []
    def walk(l, depth=0):
        if depth > 6: return
        if l._disc is not None: out.append(f'{l.name}.variant={m.eval(l._disc, model_completion=True)}')
        if l._len is not None: out.append(f'{l.name}.len={m.eval(l._len, model_completion=True)}')
        if l._scalar is not None: out.append(f'{l.name}={m.eval(l._scalar, model_completion=True)}')
        if 'atom' in l.extra: out.append(f'{l.name}~name#{m.eval(l.extra["atom"].t, model_completion=True)}')
        for k in l.kids.values(): walk(k, depth + 1)
    for a in args:
        if isinstance(a, Ref) and isinstance(a.base, Lazy): a = a.base
        if isinstance(a, Lazy): walk(a)
    return '; '.join(out)[:1500]


# ---------------------------------------------------------------------------- native realisation of rule-level models

U32 = {'prim': 'u32'}; STR = {'prim': 'string'}
def _pairv(okf): return (U32, U32) if okf else (U32, STR)
def _pairi(okf, okrev=None):
    """(x, y) items with x <: y iff okf and y <: x iff okrev"""
    if okrev is None: okrev = okf
    wide = {'instance': [['p', {'value': U32}], ['q', {'value': U32}]]}; narrow = {'instance': [['p', {'value': U32}]]}
    if okf and okrev: return ({'value': U32}, {'value': U32})
    if okf: return (wide, narrow)
    if okrev: return (narrow, wide)
    return ({'value': U32}, {'value': STR})
def _paire(okf, okrev=None):
    if okrev is None: okrev = okf
    g = lambda t: {'global': {'val_type': t, 'mutable': False, 'shared': False}}
    mem = lambda i: {'memory': {'memory64': False, 'shared': False, 'initial': i, 'maximum': None, 'page_size_log2': None}}
    if okf and okrev: return (g('i32'), g('i32'))
    if okf: return (mem(2), mem(1))
    if okrev: return (mem(1), mem(2))
    return (g('i32'), g('i64'))

class Realiser:
    def __init__(s, C, m): s.C = C; s.m = m
    def ln(s, l): return min(ev_int(s.m, l.len()), s.C.K)
    def nm(s, l): return 'n%d' % s.m.eval(lazy_atom(l).t, model_completion=True).as_long()
    def okv(s, rule, x, y): return ev_bool(s.m, s.C.ok(rule)(ident(x), ident(y)))
    def some(s, l): return ev_int(s.m, l.disc) == 1
    def optpair(s, a, b):
        """Option<ValueType> pair -> (json or None, json or None)"""
        sa, sb = s.some(a), s.some(b)
        if sa and sb:
            x, y = _pairv(s.okv('value_type', a.kid('Some.0'), b.kid('Some.0'))); return x, y
        return (U32 if sa else None), (U32 if sb else None)
    def seqpair(s, A, B):
        la, lb = s.ln(A), s.ln(B); xa, xb = [], []
        for i in range(max(la, lb)):
            if i < la and i < lb:
                x, y = _pairv(s.okv('value_type', A.kid(f'[{i}]'), B.kid(f'[{i}]')))
            else: x, y = U32, U32
            if i < la: xa.append(x)
            if i < lb: xb.append(y)
        return xa, xb
    def mappair_pos(s, A, B, val):
        """maps compared position by position (record fields, variant cases, func params); val(av, bv) -> (json a, json b)"""
        la, lb = s.ln(A), s.ln(B); xa, xb = [], []
        for i in range(max(la, lb)):
            ak, av = A.kid(f'[{i}].k'), A.kid(f'[{i}].v'); bk, bv = B.kid(f'[{i}].k'), B.kid(f'[{i}].v')
            if i < la and i < lb: x, y = val(av, bv)
            else: x, y = val(None, None)
            if i < la: xa.append([s.nm(ak), x])
            if i < lb: xb.append([s.nm(bk), y])
        return xa, xb
    def mappair_key(s, needed, offered, rule, pair, flip=False, keyname=None):
        """maps compared by key lookup: every `needed` entry is looked up in `offered`. Children are concretised per matching key."""
        keyname = keyname or s.nm
        ln, lo = s.ln(needed), s.ln(offered)
        n_items = []; o_vals = {}
        for i in range(lo): o_vals[i] = None
        for j in range(ln):
            nk, nv = needed.kid(f'[{j}].k'), needed.kid(f'[{j}].v'); hit = None
            for i in range(lo):
                ok_, ov = offered.kid(f'[{i}].k'), offered.kid(f'[{i}].v')
                if keyname(ok_) == keyname(nk): hit = (i, ov)
            if hit is None:
                n_items.append([keyname(nk), pair(True)[1]]); continue
            i, ov = hit
            okf = s.okv(rule, nv, ov) if flip else s.okv(rule, ov, nv)
            okrev = s.okv(rule, ov, nv) if flip else s.okv(rule, nv, ov)
            x, y = pair(okf, okrev)     # x <: y iff okf, y <: x iff okrev
            if flip:                    # needed <: offered
                n_items.append([keyname(nk), x]); o_vals[i] = y
            else:                       # offered <: needed
                n_items.append([keyname(nk), y]); o_vals[i] = x
        o_items = [[keyname(offered.kid(f'[{i}].k')), o_vals[i] if o_vals[i] is not None else pair(True)[0]] for i in range(lo)]
        return n_items, o_items

def realise(C, rule, m, args):
    """-> (a_item, b_item) JSON for the native `subtype` op, or None when this rule has no realiser"""
    R = Realiser(C, m)
    if rule == 'result': _, a, at, b, bt = unpack(args)
    else: a, at, b, bt = unpack(args)
    V = lambda t: {'value': t}
    if rule == 'tuple':
        xa, xb = R.seqpair(by_ref(a), by_ref(b)); return V({'tuple': xa}), V({'tuple': xb})
    if rule == 'record':
        f = str(C.fidx('Record', 'fields'))
        xa, xb = R.mappair_pos(by_ref(a).kid(f), by_ref(b).kid(f), lambda av, bv: _pairv(True if av is None else R.okv('value_type', av, bv)))
        if not xa or not xb: return None
        return V({'record': xa}), V({'record': xb})
    if rule == 'variant':
        f = str(C.fidx('Variant', 'cases'))
        xa, xb = R.mappair_pos(by_ref(a).kid(f), by_ref(b).kid(f), lambda av, bv: (None, None) if av is None else R.optpair(av, bv))
        if not xa or not xb: return None
        return V({'variant': xa}), V({'variant': xb})
    if rule in ('enum_type', 'flags'):
        A, B = by_ref(a).kid('0'), by_ref(b).kid('0')
        na = [R.nm(A.kid(f'[{i}]')) for i in range(R.ln(A))]; nb = [R.nm(B.kid(f'[{i}]')) for i in range(R.ln(B))]
        if len(set(na)) != len(na) or len(set(nb)) != len(nb) or not na or not nb: return None
        k = 'enum' if rule == 'enum_type' else 'flags'
        return V({k: na}), V({k: nb})
    if rule == 'payload':
        x, y = R.optpair(by_ref(a), by_ref(b)); return V({'stream': x}), V({'stream': y})
    if rule == 'result':
        x, y = R.optpair(by_ref(a), by_ref(b)); return V({'result': [x, None]}), V({'result': [y, None]})
    if rule == 'primitive':
        names = ['u8', 's8', 'u16', 's16', 'u32', 's32', 'u64', 's64', 'f32', 'f64', 'char', 'bool', 'string', 'error-context']
        order = [v[0] for v in C.decls.enums['PrimitiveType']]
        mp = dict(zip(['U8', 'S8', 'U16', 'S16', 'U32', 'S32', 'U64', 'S64', 'F32', 'F64', 'Char', 'Bool', 'String', 'ErrorContext'], names))
        return V({'prim': mp[order[ev_int(m, a.disc)]]}), V({'prim': mp[order[ev_int(m, b.disc)]]})
    if rule == 'func':
        if ev_bool(m, id_eq(a, b)): return None
        A = at.kid(f'[{a.name}]'); B = bt.kid(f'[{b.name}]')
        pa = A.kid(str(C.fidx('FuncType', 'params'))); pb = B.kid(str(C.fidx('FuncType', 'params')))
        xa, xb = R.mappair_pos(pa, pb, lambda av, bv: _pairv(True if av is None else R.okv('value_type', av, bv)))
        ra, rb = R.optpair(A.kid(str(C.fidx('FuncType', 'result'))), B.kid(str(C.fidx('FuncType', 'result'))))
        ia = ev_bool(m, A.kid(str(C.fidx('FuncType', 'is_async')), 'bool').scalar('bool')); ib = ev_bool(m, B.kid(str(C.fidx('FuncType', 'is_async')), 'bool').scalar('bool'))
        return {'func': {'params': xa, 'result': ra, 'async': ia}}, {'func': {'params': xb, 'result': rb, 'async': ib}}
    if rule == 'instance_exports':
        nb, oa = R.mappair_key(by_ref(b), by_ref(a), 'is_subtype', _pairi)
        return {'instance': oa}, {'instance': nb}
    if rule == 'world':
        A = at.kid(f'[{a.name}]'); B = bt.kid(f'[{b.name}]'); im = str(C.fidx('World', 'imports')); ex = str(C.fidx('World', 'exports'))
        a_im, b_im = R.mappair_key(A.kid(im), B.kid(im), 'is_subtype', _pairi)       # needed = A.imports, offered = B.imports, offered <: needed
        b_ex, a_ex = R.mappair_key(B.kid(ex), A.kid(ex), 'is_subtype', _pairi)
        return {'component': {'imports': a_im, 'exports': a_ex}}, {'component': {'imports': b_im, 'exports': b_ex}}
    if rule == 'module':
        if ev_bool(m, id_eq(a, b)): return None
        A = at.kid(f'[{a.name}]'); B = bt.kid(f'[{b.name}]'); im = str(C.fidx('ModuleType', 'imports')); ex = str(C.fidx('ModuleType', 'exports'))
        kn = lambda k: (R.nm(k.kid('0')), R.nm(k.kid('1')))
        a_im, b_im = R.mappair_key(A.kid(im), B.kid(im), 'core_extern', _paire, keyname=kn)
        b_ex, a_ex = R.mappair_key(B.kid(ex), A.kid(ex), 'core_extern', _paire)
        fix = lambda items: [[list(k), v] for k, v in items]
        return {'module': {'imports': fix(a_im), 'exports': a_ex}}, {'module': {'imports': fix(b_im), 'exports': b_ex}}
    if rule == 'core_extern':
        A, B = by_ref(a), by_ref(b)
        order = [v[0] for v in C.decls.enums['CoreExtern']]
        def ext(x, other, side):
            v = order[ev_int(m, x.disc)]
            F = lambda fld, ty=None: x.kid(f'{v}.{C.vfield("CoreExtern", v, fld)}', ty)
            sc = lambda fld, ty: m.eval(F(fld, ty).scalar(ty), model_completion=True)
            def optn(fld, ty):
                o = F(fld); return sc_opt(o, ty)
            def sc_opt(o, ty): return m.eval(o.kid('Some.0', ty).scalar(ty), model_completion=True).as_long() if ev_int(m, o.disc) == 1 else None
            same = order[ev_int(m, other.disc)] == v
            if v in ('Func', 'Tag'):
                okf = True
                if same: okf = R.okv('core_func', A.kid(f'{v}.0'), B.kid(f'{v}.0'))
                return {v.lower(): [[], []] if (side == 'a' or okf) else [['i32'], []]}
            if v == 'Table':
                eqr = True
                if same and 'CoreRefType' in R.C.eng_uf: eqr = ev_bool(m, R.C.eng_uf['CoreRefType'](ident(A.kid(f'Table.{C.vfield("CoreExtern", "Table", "element_type")}')), ident(B.kid(f'Table.{C.vfield("CoreExtern", "Table", "element_type")}'))))
                return {'table': {'element_type': 'funcref' if (side == 'a' or eqr) else 'externref', 'initial': sc('initial', 'u64').as_long(), 'maximum': sc_opt(F('maximum'), 'u64'),
                                  'table64': z3.is_true(sc('table64', 'bool')), 'shared': z3.is_true(sc('shared', 'bool'))}}
            if v == 'Memory':
                return {'memory': {'memory64': z3.is_true(sc('memory64', 'bool')), 'shared': z3.is_true(sc('shared', 'bool')), 'initial': sc('initial', 'u64').as_long(),
                                   'maximum': sc_opt(F('maximum'), 'u64'), 'page_size_log2': sc_opt(F('page_size_log2'), 'u32')}}
            eqt = True
            if same and 'CoreType' in R.C.eng_uf: eqt = ev_bool(m, R.C.eng_uf['CoreType'](ident(A.kid(f'Global.{C.vfield("CoreExtern", "Global", "val_type")}')), ident(B.kid(f'Global.{C.vfield("CoreExtern", "Global", "val_type")}'))))
            return {'global': {'val_type': 'i32' if (side == 'a' or eqt) else 'i64', 'mutable': z3.is_true(sc('mutable', 'bool')), 'shared': z3.is_true(sc('shared', 'bool'))}}
        ea = ext(A, B, 'a'); eb = ext(B, A, 'b')
        return {'module': {'imports': [], 'exports': [['e', ea]]}}, {'module': {'imports': [], 'exports': [['e', eb]]}}
    return None

# ---------------------------------------------------------------------------- reference rules

def seq_items(l, K, ety=None):
    return [l.kid(f'[{i}]', ety) for i in range(K)]
def map_items(l, K):
    return [(l.kid(f'[{i}].k'), l.kid(f'[{i}].v')) for i in range(K)]
def name_eq(x, y): return lazy_atom(x).t == lazy_atom(y).t
def opt_pair(C, rule_ok, a, b):
    """both None, or both Some and ok(payloads)"""
    return Or(And(a.disc == bv64(0), b.disc == bv64(0)),
              And(a.disc == bv64(1), b.disc == bv64(1), rule_ok(ident(a.kid('Some.0')), ident(b.kid('Some.0')))))
def key_eq(eng, x, y):
    return containers.val_eq(eng, None, x, y)

def id_eq(x, y):
    return And(x.kid('0').kid('0', 'usize').scalar('usize') == y.kid('0').kid('0', 'usize').scalar('usize'),
               x.kid('0').kid('1', 'u32').scalar('u32') == y.kid('0').kid('1', 'u32').scalar('u32'))

def spec_record(C):
    def f(eng, args):
        a, at, b, bt = unpack(args); A = by_ref(a).kid(str(C.fidx('Record', 'fields'))); B = by_ref(b).kid(str(C.fidx('Record', 'fields')))
        cs = [A.len() == B.len()]
        for (ak, av), (bk, bv) in zip(map_items(A, C.K), map_items(B, C.K)):
            i = len(cs) - 1
            cs.append(Implies(ULT(bv64(i), A.len()), And(name_eq(ak, bk), C.ok('value_type')(ident(av), ident(bv)))))
        return And(cs)
    return f
def spec_tuple(C):
    def f(eng, args):
        a, at, b, bt = unpack(args); A = by_ref(a); B = by_ref(b)
        cs = [A.len() == B.len()]
        for i, (x, y) in enumerate(zip(seq_items(A, C.K), seq_items(B, C.K))):
            cs.append(Implies(ULT(bv64(i), A.len()), C.ok('value_type')(ident(x), ident(y))))
        return And(cs)
    return f
def spec_variant(C):
    def f(eng, args):
        a, at, b, bt = unpack(args); A = by_ref(a).kid(str(C.fidx('Variant', 'cases'))); B = by_ref(b).kid(str(C.fidx('Variant', 'cases')))
        cs = [A.len() == B.len()]
        for i, ((ak, av), (bk, bv)) in enumerate(zip(map_items(A, C.K), map_items(B, C.K))):
            cs.append(Implies(ULT(bv64(i), A.len()), And(name_eq(ak, bk), opt_pair(C, C.ok('value_type'), av, bv))))
        return And(cs)
    return f
def spec_names(C):
    def f(eng, args):
        a, at, b, bt = unpack(args); A = by_ref(a).kid('0'); B = by_ref(b).kid('0')
        cs = [A.len() == B.len()]
        for i, (x, y) in enumerate(zip(seq_items(A, C.K), seq_items(B, C.K))):
            cs.append(Implies(ULT(bv64(i), A.len()), name_eq(x, y)))
        return And(cs)
    return f
def spec_payload(C):
    def f(eng, args):
        a, at, b, bt = unpack(args); return opt_pair(C, C.ok('value_type'), by_ref(a), by_ref(b))
    return f
def spec_result(C):
    def f(eng, args):
        desc, a, at, b, bt = unpack(args); return opt_pair(C, C.ok('value_type'), by_ref(a), by_ref(b))
    return f
def spec_primitive(C):
    def f(eng, args):
        a, at, b, bt = unpack(args); return a.disc == b.disc
    return f
def spec_resource(C):
    def f(eng, args):
        a, at, b, bt = unpack(args)
        ra = at.kid(f'[{a.kid("!resolved").name}]'); rb = bt.kid(f'[{b.kid("!resolved").name}]')
        n = str(C.fidx('Resource', 'name'))
        return Or(id_eq(a, b), name_eq(ra.kid(n), rb.kid(n)))
    return f
def spec_func(C):
    def f(eng, args):
        a, at, b, bt = unpack(args); A = at.kid(f'[{a.name}]'); B = bt.kid(f'[{b.name}]')
        pa = A.kid(str(C.fidx('FuncType', 'params'))); pb = B.kid(str(C.fidx('FuncType', 'params')))
        ra = A.kid(str(C.fidx('FuncType', 'result'))); rb = B.kid(str(C.fidx('FuncType', 'result')))
        ia = A.kid(str(C.fidx('FuncType', 'is_async')), 'bool').scalar('bool'); ib = B.kid(str(C.fidx('FuncType', 'is_async')), 'bool').scalar('bool')
        cs = [ia == ib, pa.len() == pb.len()]
        for i, ((ak, av), (bk, bv)) in enumerate(zip(map_items(pa, C.K), map_items(pb, C.K))):
            cs.append(Implies(ULT(bv64(i), pa.len()), And(name_eq(ak, bk), C.ok('value_type')(ident(av), ident(bv)))))
        cs.append(opt_pair(C, C.ok('value_type'), ra, rb))
        return Or(id_eq(a, b), And(cs))
    return f
def covers(C, eng, needed, offered, okf, flip=False):
    """every entry (k, x) of `needed` has an entry (k, y) in `offered` with ok(y, x) (or ok(x, y) when flip)"""
    cs = []
    for j, (nk, nv) in enumerate(map_items(needed, C.K)):
        alts = []
        for i, (ok_, ov) in enumerate(map_items(offered, C.K)):
            rel = okf(ident(nv), ident(ov)) if flip else okf(ident(ov), ident(nv))
            alts.append(And(ULT(bv64(i), offered.len()), key_eq(eng, ok_, nk), rel))
        cs.append(Implies(ULT(bv64(j), needed.len()), Or(alts)))
    return And(cs)
def spec_instance_exports(C):
    def f(eng, args):
        a, at, b, bt = unpack(args); return covers(C, eng, by_ref(b), by_ref(a), C.ok('is_subtype'))
    return f
def spec_interface(C):
    def f(eng, args):
        a, at, b, bt = unpack(args); A = at.kid(f'[{a.name}]'); B = bt.kid(f'[{b.name}]'); e = str(C.fidx('Interface', 'exports'))
        return Or(id_eq(a, b), C.ok('instance_exports')(ident(A.kid(e)), ident(B.kid(e))))
    return f
def spec_world(C):
    def f(eng, args):
        a, at, b, bt = unpack(args); A = at.kid(f'[{a.name}]'); B = bt.kid(f'[{b.name}]')
        im = str(C.fidx('World', 'imports')); ex = str(C.fidx('World', 'exports'))
        # imports of the SUBtype must be offered by the SUPERtype's imports, checked contravariantly: super_import <: sub_import
        imports = covers(C, eng, A.kid(im), B.kid(im), C.ok('is_subtype'))
        exports = covers(C, eng, B.kid(ex), A.kid(ex), C.ok('is_subtype'))
        return And(imports, exports)
    return f
def spec_module(C):
    def f(eng, args):
        a, at, b, bt = unpack(args); A = at.kid(f'[{a.name}]'); B = bt.kid(f'[{b.name}]')
        im = str(C.fidx('ModuleType', 'imports')); ex = str(C.fidx('ModuleType', 'exports'))
        imports = covers(C, eng, A.kid(im), B.kid(im), C.ok('core_extern'))
        exports = covers(C, eng, B.kid(ex), A.kid(ex), C.ok('core_extern'))
        return Or(id_eq(a, b), And(imports, exports))
    return f
def dispatch(C, enum, a, b, table):
    """same variant and the variant's rule holds on the payloads"""
    cs = []
    for variant, rule in table.items():
        i = bv64(C.vidx(enum, variant))
        cs.append(And(a.disc == i, b.disc == i, C.ok(rule)(ident(a.kid(f'{variant}.0')), ident(b.kid(f'{variant}.0')))))
    return Or(cs)
def spec_ty(C):
    def f(eng, args):
        a, at, b, bt = unpack(args)
        return dispatch(C, 'Type', a, b, {'Resource': 'resource', 'Func': 'func', 'Value': 'value_type', 'Interface': 'interface', 'World': 'world', 'Module': 'module'})
    return f
def spec_is_subtype_(C):
    def f(eng, args):
        a, at, b, bt = unpack(args)
        return dispatch(C, 'ItemKind', a, b, {'Type': 'ty', 'Func': 'func', 'Instance': 'interface', 'Component': 'world', 'Module': 'module', 'Value': 'value_type'})
    return f
def spec_value_type(C):
    def f(eng, args):
        a, at, b, bt = unpack(args); ra = a.kid('!resolved'); rb = b.kid('!resolved')
        return dispatch(C, 'ValueType', ra, rb, {'Primitive': 'primitive', 'Defined': 'defined_type', 'Borrow': 'resource', 'Own': 'resource'})
    return f
def spec_defined_type(C):
    def f(eng, args):
        a, at, b, bt = unpack(args); A = at.kid(f'[{a.name}]'); B = bt.kid(f'[{b.name}]')
        V = lambda v: bv64(C.vidx('DefinedType', v))
        both = lambda v: And(A.disc == V(v), B.disc == V(v))
        p0 = lambda x, v, i=0: x.kid(f'{v}.{i}')
        okr = C.ok('result')
        ok_i = C.vfield('DefinedType', 'Result', 'ok'); err_i = C.vfield('DefinedType', 'Result', 'err')
        cs = [
            And(both('Tuple'), C.ok('tuple')(ident(p0(A, 'Tuple')), ident(p0(B, 'Tuple')))),
            And(both('List'), C.ok('value_type')(ident(p0(A, 'List')), ident(p0(B, 'List')))),
            And(both('FixedSizeList'), p0(A, 'FixedSizeList', 1).scalar('u32') == p0(B, 'FixedSizeList', 1).scalar('u32'),
                C.ok('value_type')(ident(p0(A, 'FixedSizeList')), ident(p0(B, 'FixedSizeList')))),
            And(both('Option'), C.ok('value_type')(ident(p0(A, 'Option')), ident(p0(B, 'Option')))),
            And(both('Result'), okr(ident(p0(A, 'Result', ok_i)), ident(p0(B, 'Result', ok_i))), okr(ident(p0(A, 'Result', err_i)), ident(p0(B, 'Result', err_i)))),
            And(both('Variant'), C.ok('variant')(ident(p0(A, 'Variant')), ident(p0(B, 'Variant')))),
            And(both('Record'), C.ok('record')(ident(p0(A, 'Record')), ident(p0(B, 'Record')))),
            And(both('Flags'), C.ok('flags')(ident(p0(A, 'Flags')), ident(p0(B, 'Flags')))),
            And(both('Enum'), C.ok('enum_type')(ident(p0(A, 'Enum')), ident(p0(B, 'Enum')))),
            And(both('Stream'), C.ok('payload')(ident(p0(A, 'Stream')), ident(p0(B, 'Stream')))),
            And(both('Future'), C.ok('payload')(ident(p0(A, 'Future')), ident(p0(B, 'Future')))),
        ]
        return Or(id_eq(a, b), Or(cs))
    return f
def no_alias(C):
    def f(eng, args):
        a, at, b, bt = unpack(args); A = at.kid(f'[{a.name}]'); B = bt.kid(f'[{b.name}]'); al = bv64(C.vidx('DefinedType', 'Alias'))
        n = len(C.decls.enums['DefinedType'])
        return [A.disc != al, B.disc != al, ULT(A.disc, bv64(n)), ULT(B.disc, bv64(n))]
    return f
def spec_core_func(C):
    def f(eng, args):
        a, at, b, bt = unpack(args); return eng.uf_eq['CoreFuncType'](ident(by_ref(a)), ident(by_ref(b))) if 'CoreFuncType' in eng.uf_eq else BoolVal(True)
    return f
def spec_core_extern(C):
    def f(eng, args):
        a, at, b, bt = unpack(args); A = by_ref(a); B = by_ref(b)
        V = lambda v: bv64(C.vidx('CoreExtern', v))
        F = lambda x, v, fld, ty=None: x.kid(f'{v}.{C.vfield("CoreExtern", v, fld)}', ty)
        sc = lambda x, v, fld, ty: F(x, v, fld, ty).scalar(ty)
        def optu64(o): return o.disc, o.kid('Some.0', 'u64').scalar('u64')
        def limits(v):
            ai = sc(A, v, 'initial', 'u64'); bi = sc(B, v, 'initial', 'u64')
            ad, av = optu64(F(A, v, 'maximum')); bd, bv_ = optu64(F(B, v, 'maximum'))
            return And(UGE(ai, bi), If(And(ad == bv64(1), bd == bv64(1)), ULE(av, bv_), Not(And(ad == bv64(0), bd == bv64(1)))))
        def opt_eq(v, fld, ty):
            x = F(A, v, fld); y = F(B, v, fld)
            return And(x.disc == y.disc, Implies(x.disc == bv64(1), x.kid('Some.0', ty).scalar(ty) == y.kid('Some.0', ty).scalar(ty)))
        both = lambda v: And(A.disc == V(v), B.disc == V(v))
        ufe = lambda t, x, y: eng.uf_eq[t](ident(x), ident(y)) if t in eng.uf_eq else BoolVal(True)
        cs = [
            And(both('Func'), C.ok('core_func')(ident(A.kid('Func.0')), ident(B.kid('Func.0')))),
            And(both('Tag'), C.ok('core_func')(ident(A.kid('Tag.0')), ident(B.kid('Tag.0')))),
            And(both('Table'), ufe('CoreRefType', F(A, 'Table', 'element_type'), F(B, 'Table', 'element_type')), limits('Table'),
                sc(A, 'Table', 'table64', 'bool') == sc(B, 'Table', 'table64', 'bool'), sc(A, 'Table', 'shared', 'bool') == sc(B, 'Table', 'shared', 'bool')),
            And(both('Memory'), sc(A, 'Memory', 'shared', 'bool') == sc(B, 'Memory', 'shared', 'bool'), sc(A, 'Memory', 'memory64', 'bool') == sc(B, 'Memory', 'memory64', 'bool'),
                limits('Memory'), opt_eq('Memory', 'page_size_log2', 'u32')),
            And(both('Global'), sc(A, 'Global', 'mutable', 'bool') == sc(B, 'Global', 'mutable', 'bool'),
                ufe('CoreType', F(A, 'Global', 'val_type'), F(B, 'Global', 'val_type')), sc(A, 'Global', 'shared', 'bool') == sc(B, 'Global', 'shared', 'bool')),
        ]
        return Or(cs)
    return f
def extern_domain(C):
    def f(eng, args):
        a, at, b, bt = unpack(args); A = by_ref(a); B = by_ref(b); n = len(C.decls.enums['CoreExtern'])
        F = lambda x, v, fld: x.kid(f'{v}.{C.vfield("CoreExtern", v, fld)}')
        cs = [ULT(A.disc, bv64(n)), ULT(B.disc, bv64(n))]
        for x in (A, B):
            for v, fld in (('Table', 'maximum'), ('Memory', 'maximum'), ('Memory', 'page_size_log2')):
                cs.append(ULT(F(x, v, fld).disc, bv64(2)))
        return cs
    return f
def enum_domain(C, enum, pick):
    def f(eng, args):
        n = len(C.decls.enums[enum]); return [ULT(x.disc, bv64(n)) for x in pick(args)]
    return f
def opt_domain(pick):
    def f(eng, args): return [ULT(x.disc, bv64(2)) for x in pick(eng, args)]
    return f

def part_memo(C):
    """is_subtype with the memo: result = is_subtype_ result for any pre-existing cache satisfying 'every cached pair is ok';
    a pair is inserted only after an Ok verdict"""
    chk = C.chk
    res = run_rule(C, 'is_subtype', std_args)
    for eng, outs, args, kinds in res:
        a, at, b, bt = unpack(args)
        okc = C.ok('is_subtype_')(ident(a), ident(b)); cached = eng.in_cache(ident(a), ident(b))
        base = list(eng.assumptions) + [Implies(cached, okc)]      # the memo invariant for the queried pair
        bads = []
        for o in outs:
            if o.kind != 'ret': bads.append(o.cond()); continue
            is_ok = o.value.disc == bv64(0)
            inserted = any(t[0] == 'cache-insert' for t in o.st.trace)
            cs = [is_ok != okc]
            if inserted: cs.append(Not(okc))                       # inserting a pair that is not ok breaks the invariant
            bads.append(And(o.cond(), Or(cs)))
        r, m = chk.obligation(f'is_subtype[memo, stack depth {len(kinds)}]: verdict = is_subtype_ verdict for every cache satisfying the invariant; only Ok pairs are cached', base + [Or(bads)])
        if r == 'sat':
            chk.finding('rule-is_subtype-memo', 'is_subtype with a populated memo answers differently from is_subtype_, or caches a failing pair: ' + describe_model(m, args), {'rule': 'is_subtype'})

def part_resolve(C):
    """Types::resolve_value_type follows alias chains to their end (chains up to D links)"""
    chk = C.chk; D = chk.pick(2, 4)
    chk.bounds['resolve_value_type'] = {'alias_chain_links_max': D}
    def m_index(ctx):
        at = ctx.args[0]; idv = ctx.deref(ctx.args[1]); at = ctx.deref(at) if isinstance(at, Ref) else at
        return ctx.ret(Ref(at.kid(f'[{idv.name}]', 'DefinedType'), ()))
    eng = chk.engine(C.fns, C.decls, overrides=[(r'^<component::Types as Index<component::DefinedTypeId>>::index', m_index)], loop_bound=D + 1)
    fname = eng.find_fn(r'^component::<impl at [^>]*>::resolve_value_type$')
    at_arg = engine.norm_lazy(Lazy('at', '&component::Types')); ty = Lazy('ty', 'component::ValueType')
    outs = run_fn(eng, fname, [at_arg, ty]); chk.account(eng, [fname])
    at = by_ref(at_arg)
    DEF = bv64(C.vidx('ValueType', 'Defined')); AL = bv64(C.vidx('DefinedType', 'Alias'))
    # reference chain
    cur = ty; chain = [ty]; conds = []
    for _ in range(D + 1):
        d = at.kid(f'[{cur.kid("Defined.0").name}]')
        is_alias = And(cur.disc == DEF, d.disc == AL)
        conds.append(is_alias); cur = d.kid('Alias.0'); chain.append(cur)
    within = Not(And(conds))        # the chain ends within D links
    nvt = len(C.decls.enums['ValueType']); ndt = len(C.decls.enums['DefinedType'])
    dom = []
    for c_ in chain: dom.append(ULT(c_.disc, bv64(nvt)))
    for c_ in chain[:-1]: dom.append(ULT(at.kid(f'[{c_.kid("Defined.0").name}]').disc, bv64(ndt)))
    base = list(eng.assumptions) + [within] + dom
    bads = []
    for o in outs:
        if o.kind != 'ret': bads.append(o.cond()); continue
        v = o.value
        # expected: chain[k] where k = number of leading alias links
        exp = []
        pre = BoolVal(True)
        for k in range(D + 1):
            exp.append(And(pre, Not(conds[k]), BoolVal(isinstance(v, Lazy) and v.name == chain[k].name)))
            pre = And(pre, conds[k])
        bads.append(And(o.cond(), Not(Or(exp))))
    r, m = chk.obligation('resolve_value_type: returns the end of the alias chain; no panic; loop bound sufficient under the chain-length bound', base + [Or(bads)])
    if r == 'sat':
        chk.finding('resolve-value-type', 'Types::resolve_value_type does not return the end of the alias chain: ' + describe_model(m, [at_arg, ty]), {'rule': 'resolve_value_type'})

def body(chk):
    fns = chk.load('wac-types'); decls = chk.decls('wac-types')
    K = chk.pick(2, 3)
    C = Ctx07(chk, fns, decls, K)
    chk.bounds['collections'] = {'entries_max_K': K, 'type_depth': 'any (assume-guarantee: sub-verdicts are uninterpreted predicates)', 'u64 limits': 'full 64-bit'}
    chk.assumptions += ['sub-verdicts of callee rules are uninterpreted predicates of the identities of their two arguments (assume-guarantee per rule)',
                        'names compare by identity (only equality is observed by the checker)',
                        'derived PartialEq of CoreRefType/CoreType/CoreFuncType taken as uninterpreted equalities',
                        'message construction (format!, desc(), with_context) is opaque and does not influence verdicts',
                        'resources beyond "same resolved name" and agreement with wasmparser are outside the claim']
    table = [
        ('primitive', spec_primitive(C), enum_domain(C, 'PrimitiveType', lambda a: (a[0], a[2]))),
        ('payload', spec_payload(C), opt_domain(lambda e, a: (a[0], a[2]))),
        ('result', spec_result(C), opt_domain(lambda e, a: (by_ref(a[1]), by_ref(a[3])))),
        ('tuple', spec_tuple(C), None), ('record', spec_record(C), None),
        ('variant', spec_variant(C), None), ('enum_type', spec_names(C), None), ('flags', spec_names(C), None),
        ('resource', spec_resource(C), None), ('func', spec_func(C), None),
        ('instance_exports', spec_instance_exports(C), None), ('interface', spec_interface(C), None),
        ('world', spec_world(C), None), ('module', spec_module(C), None),
        ('core_func', spec_core_func(C), None), ('core_extern', spec_core_extern(C), extern_domain(C)),
        ('ty', spec_ty(C), enum_domain(C, 'Type', lambda a: (a[0], a[2]))),
        ('is_subtype_', spec_is_subtype_(C), enum_domain(C, 'ItemKind', lambda a: (a[0], a[2]))),
        ('value_type', spec_value_type(C), lambda eng, a: [ULT(a[0].kid('!resolved').disc, bv64(4)), ULT(a[2].kid('!resolved').disc, bv64(4))]),
        ('defined_type', spec_defined_type(C), no_alias(C)),
    ]
    only = os.environ.get('C07_ONLY')
    for rule, spec, dom in table:
        if only and rule != only: continue
        def one(rule=rule, spec=spec, dom=dom):
            res = run_rule(C, rule, std_args)
            decide(C, rule, res, spec, dom or (lambda eng, args: []))
        chk.part(rule, one)
    if not only:
        chk.part('memo', part_memo, C)
        chk.part('resolve_value_type', part_resolve, C)

if __name__ == '__main__':
    harness.run_check('C07', body)
