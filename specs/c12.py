"""C12 — lexical layer of the documented grammar: token rules, screening, comments, strings, package names and paths.

LEX: the `#[regex]/#[token]/#[logos(skip|subpattern)]` attributes of `Token` (re-read from lexer.rs every run) as z3 regular
expressions, compared with the reference lexical grammar written from LANGUAGE.md (language equivalence queries over bounded strings).
M2S (real MIR): detect_invalid_input, helpers::block_comment_length, helpers::string, PackagePath::parse, PackageName::parse with the
token text constrained to the rule's language (byte-level DFA of the extracted rule).
The recursive-descent productions (tree shape) are outside the claim.
"""
import sys, os, re, json, itertools
sys.path.insert(0, os.path.dirname(os.path.dirname(os.path.abspath(__file__))))
import z3
from z3 import And, Or, Not, If, BoolVal, BitVecVal, ULT, ULE, UGT, UGE, Implies
from m2s import harness, engine, models, containers
from m2s.engine import Lazy, Agg, Enum, StrV, Ref, Opaque, bv64, UNIT, fresh_id
from m2s.models import find_byte, substr, semver_parse, str_eq, byte_at, lazy_str
from m2s.harness import ev_int, ev_bool, ev_bytes, run_fn, Inconclusive
from lex import relang as R
from specs import c14

LEXER_RS = os.path.join(harness.REPO, 'crates/wac-parser/src/lexer.rs')

# ---------------------------------------------------------------------------- reference lexical grammar (LANGUAGE.md; WIT-style words, see DESIGN.md)
REF_SUBS = {
    'word': r'[a-z][a-z0-9]*|[A-Z][A-Z0-9]*',
    'id': r'%?(?&word)(-(?&word))*',
    'package_name': r'(?&id)(:(?&id))+',
    'semver_shape': r'[0-9]+(\.[0-9a-zA-Z\-\+]+)*',
}
REF = {
    'Ident': r'(?&id)',
    'PackageName': r'(?&package_name)(@(?&semver_shape))?',
    'PackagePath': r'(?&package_name)(/(?&id))+(@(?&semver_shape))?',
    'Comment': r'//[^\n]*',
}
KEYWORDS = ['import', 'with', 'type', 'tuple', 'list', 'option', 'result', 'borrow', 'resource', 'variant', 'record', 'flags', 'enum', 'func', 'static',
            'constructor', 'u8', 's8', 'u16', 's16', 'u32', 's32', 'u64', 's64', 'f32', 'f64', 'char', 'bool', 'string', 'interface', 'world', 'export',
            'new', 'let', 'use', 'include', 'as', 'package', 'targets']
PUNCT = [';', '{', '}', ':', '=', '(', ')', '->', '<', '>', '_', '[', ']', '.', '...', ',', '/', '@']

def part_lex(chk):
    x = R.extract(LEXER_RS)
    subs = x['subpatterns']; rules = {r['name']: r for r in x['rules']}
    N = chk.pick(14, 24)
    chk.bounds['LEX'] = {'string_length_max': N, 'alphabet': 'ASCII', 'rules_extracted': len(x['rules'])}
    s = z3.String('s')
    ascii_only = z3.InRe(s, z3.Star(z3.Range(chr(0), chr(127))))
    def differ(name, a, b):
        base = [z3.Length(s) <= N, ascii_only]
        r, m = chk.obligation(f'LEX: L({name}) = reference language (strings up to {N} chars)', base + [z3.InRe(s, a) != z3.InRe(s, b)], base=base, timeout_s=chk.pick(60, 600))
        if r == 'sat':
            w = m[s].as_string() if m[s] is not None else ''
            in_impl = R.accepts(R.to_dfa(ast_impl[name]), w.encode())
            nat = chk.native({'op': 'lex_one', 'source': w})
            chk.finding(f'lex-rule-{name}', f'token rule {name} and the documented lexical grammar disagree on {w!r} (rule accepts: {in_impl}); the real lexer yields {nat}', {'op': 'lex_one', 'source': w})
    ast_impl = {}
    for name in ('Ident', 'PackageName', 'PackagePath', 'Comment'):
        if name not in rules:
            chk.finding(f'lex-rule-{name}-missing', f'token rule {name} is missing from lexer.rs', {'rule': name}); continue
        ast_impl[name] = R.parse(rules[name]['pattern'], subs)
        differ(name, R.to_z3re(ast_impl[name]), R.to_z3re(R.parse(REF[name], REF_SUBS)))
    # keywords and punctuation: the #[token] set is exactly the grammar's terminals
    toks = {r['pattern']: r['name'] for r in x['rules'] if r['kind'] == 'token'}
    lits = set(toks) - {'/*', '"'}
    chk.obligations += 1
    missing = [k for k in KEYWORDS + PUNCT if k not in lits]; extra = [k for k in lits if k not in KEYWORDS + PUNCT]
    if missing or extra:
        w = (missing + extra)[0]
        nat = chk.native({'op': 'lex_one', 'source': w})
        chk.finding('lex-token-set', f'token literals differ from the grammar terminals: missing {missing}, unexpected {extra}; the real lexer on {w!r}: {nat}', {'op': 'lex_one', 'source': w})
    else: chk.discharged += 1
    # every keyword is also in L(id): it only becomes a keyword through token-over-regex priority
    idre = R.to_z3re(R.parse(REF['Ident'], REF_SUBS))
    for k in KEYWORDS:
        r, m = chk.obligation(f'LEX: keyword `{k}` is in L(id) (keyword priority matters)', [Not(z3.InRe(z3.StringVal(k), idre))])
        if r == 'sat': chk.finding('lex-keyword-not-id', f'keyword {k} is not an identifier word', {'keyword': k})
    # the skip rule modulo screening: whitespace only (form feed is rejected earlier by detect_invalid_input)
    if x['skip']:
        skip = R.to_z3re(R.parse(x['skip'][0], subs))
        ws = z3.Plus(z3.Union(*[z3.Re(z3.StringVal(c)) for c in ' \t\r\n']))
        screened_ok = z3.InRe(s, z3.Star(z3.Union(z3.Range(' ', '~'), z3.Re(z3.StringVal('\t')), z3.Re(z3.StringVal('\r')), z3.Re(z3.StringVal('\n')))))
        base = [z3.Length(s) <= 6, screened_ok]
        r, m = chk.obligation('LEX: skip rule = whitespace (on screened input)', base + [z3.InRe(s, skip) != z3.InRe(s, ws)], base=base)
        if r == 'sat': chk.finding('lex-skip', f'the skip rule and the documented whitespace differ on {m[s]}', {'s': str(m[s])})
    # no non-keyword rule matches the empty string
    for name, a in ast_impl.items():
        r, m = chk.obligation(f'LEX: rule {name} does not match the empty string', [z3.InRe(z3.StringVal(''), R.to_z3re(a))])
        if r == 'sat': chk.finding('lex-empty', f'rule {name} matches the empty string', {'rule': name})
    # translator validation: sample strings of each rule language through the real lexer
    for name, a in ast_impl.items():
        sol = z3.Solver(); sol.add(z3.InRe(s, R.to_z3re(a)), z3.Length(s) >= 3, z3.Length(s) <= 12, ascii_only)
        for k in KEYWORDS: sol.add(s != z3.StringVal(k))
        if sol.check() == z3.sat:
            w = sol.model()[s].as_string(); nat = chk.native({'op': 'lex_one', 'source': w})
            chk.sample({'rule': name, 'string': w, 'native': nat})
            if name != 'Comment' and (not nat.get('tokens') or nat['tokens'][0].get('tok') != f'Ok({name})' or nat['tokens'][0]['span'] != [0, len(w)]):
                raise Inconclusive(f'LEX: {w!r} is in L({name}) by the extracted rule but the real lexer yields {nat}')

def tokens_text(chk, eng, rule_name, cap):
    """lazily instantiated token text constrained to the language of the extracted rule"""
    x = R.extract(LEXER_RS); rule = [r for r in x['rules'] if r['name'] == rule_name][0]
    dfa = R.to_dfa(R.parse(rule['pattern'], x['subpatterns']))
    t = Lazy('tok', '&str'); sv = lazy_str(eng, t, cap)
    return t, sv, R.member(dfa, list(sv.buf), sv.len)

def part_package_path(chk, fns, decls, which):
    """PackagePath::parse / PackageName::parse on every token text of the rule's language"""
    N = chk.pick(11, 14)
    chk.bounds[which] = {'token_bytes_max': N, 'token_text': f'any string of L({which}) (DFA of the extracted rule)'}
    OFF = z3.BitVec('span_off', 64)
    state = {}
    def m_parse_token(ctx):
        return ctx.ret(models.ok(Agg((OFF, state['sv'].len), 'SourceSpan')))
    def m_source(ctx): return ctx.ret(state['t'])
    def m_to_owned(ctx): return ctx.ret(Opaque('owned'))
    eng = chk.engine(fns, decls, str_cap=N, overrides=[(r'^parse_token$|^ast::parse_token$', m_parse_token), (r'^(?:lexer::)?Lexer::<.*>::source$', m_source)])
    t, sv, in_lang = tokens_text(chk, eng, which, N); state['t'] = t; state['sv'] = sv
    cands = eng.index.get((which, 'Parse', 'parse'), [])
    if len(cands) != 1: raise engine.EngineError(f'cannot find <{which} as Parse>::parse: {cands}')
    fname = cands[0]
    eng.assume(ULT(OFF, bv64(1 << 32)))
    outs = run_fn(eng, fname, [Ref(engine.State().alloc(None)) if False else Opaque('lexer')]); chk.account(eng, [fname])
    base = list(eng.assumptions) + [in_lang]
    # reference: split at the first '/' and the first '@'
    has_at, at = find_byte(sv, ord('@')); has_sl, sl = find_byte(sv, ord('/'))
    ver = substr(sv, at + 1, sv.len); p = semver_parse(ver)
    name_end = If(has_at, at, sv.len) if which == 'PackageName' else sl
    seg_end = If(has_at, at, sv.len)
    order = [n for n, ty in decls.structs[which][1]]
    bads = []
    for o in outs:
        if o.kind != 'ret': bads.append((o, o.cond())); continue
        v = o.value
        if 'Err' in v.vars:
            e = v.vars['Err'][0]
            kind = list(e.vars)[0] if isinstance(e, Enum) and e.vars else '?'
            okc = And(has_at, Not(p['ok'])) if kind == 'InvalidVersion' else BoolVal(False)
            if kind == 'InvalidVersion' and isinstance(e, Enum):
                # the error span must lie inside the token: (off + at + 1, len - at - 1)
                flds = e.vars['InvalidVersion']
                sp = [f for f in flds if isinstance(f, Agg) and f.ty == 'SourceSpan']
                if sp: okc = And(okc, sp[0].f[0] == OFF + at + 1, sp[0].f[1] == sv.len - at - 1)
            bads.append((o, And(o.cond(), Not(okc)))); continue
        r_ = v.vars['Ok'][0]
        V = lambda x_: lazy_str(eng, x_) if isinstance(x_, Lazy) else x_
        name = V(r_.f[order.index('name')]); string = V(r_.f[order.index('string')]); version = r_.f[order.index('version')]; span = r_.f[order.index('span')]
        cs = [name.off == sv.off, name.len == name_end, string.off == sv.off, string.len == sv.len, span.f[0] == OFF, span.f[1] == sv.len]
        if which == 'PackagePath':
            seg = V(r_.f[order.index('segments')]); cs += [seg.off == sv.off + sl + 1, seg.len == seg_end - sl - 1]
        vs, vp = (version.disc == bv64(1)), (version.vars['Some'][0] if 'Some' in version.vars else None)
        cs.append(vs == has_at)
        if vp is not None: cs.append(Implies(vs, And(p['ok'], vp.f[0] == p['major'], vp.f[1] == p['minor'], vp.f[2] == p['patch'])))
        bads.append((o, And(o.cond(), Not(And(cs)))))
    r, m = chk.obligation(f'{which}::parse: name / segments / version are the documented parts of the token; invalid semver -> InvalidVersion inside the token; no panic',
                          base + [Or([c for _, c in bads])], base=base)
    if r == 'sat':
        w = ev_bytes(m, sv).decode()
        src = ('package a:b; import x: ' + w + ';') if which == 'PackagePath' else ('package a:b; let x = new ' + w + ' { };')
        nat = chk.native({'op': 'parse_pkgref', 'source': src, 'which': which})
        exp = reference_parts(w, which)
        if nat.get('parts') != exp:
            chk.finding(f'{which}-parse', f'{which}::parse splits `{w}` into {nat.get("parts")} but the documented parts are {exp}', {'op': 'parse_pkgref', 'source': src, 'which': which})
        else: raise Inconclusive(f'{which}::parse counterexample `{w}` does not reproduce natively: {nat}')
    for o in outs[:: max(1, len(outs) // 6)]:
        r, m = chk.solve(f'{which}/witness', base + [o.cond()])
        if r != 'sat': continue
        w = ev_bytes(m, sv).decode()
        src = ('package a:b; import x: ' + w + ';') if which == 'PackagePath' else ('package a:b; let x = new ' + w + ' { };')
        nat = chk.native({'op': 'parse_pkgref', 'source': src, 'which': which}); exp = reference_parts(w, which)
        chk.sample({'fn': f'{which}::parse', 'token': w, 'native': nat.get('parts')})
        if nat.get('parts') != exp: raise Inconclusive(f'{which}::parse: native parts {nat.get("parts")} differ from the reference {exp} on `{w}`')

def reference_parts(w, which):
    at = w.find('@'); ver = w[at + 1:] if at >= 0 else None
    okv = None
    if ver is not None:
        okv = bool(re.match(r'^(0|[1-9]\d*)\.(0|[1-9]\d*)\.(0|[1-9]\d*)(-((0|[1-9]\d*|\d*[a-zA-Z-][0-9a-zA-Z-]*)(\.(0|[1-9]\d*|\d*[a-zA-Z-][0-9a-zA-Z-]*))*))?(\+([0-9a-zA-Z-]+(\.[0-9a-zA-Z-]+)*))?$', ver))
        if not okv: return {'error': 'InvalidVersion'}
    body = w[:at] if at >= 0 else w
    if which == 'PackageName': return {'name': body, 'version': ver}
    sl = w.find('/')
    return {'name': w[:sl], 'segments': body[sl + 1:], 'version': ver}

def part_string(chk, fns, decls):
    """helpers::string: the string token ends at the first closing quote; UnterminatedString iff there is none"""
    N = chk.pick(8, 12)
    chk.bounds['helpers::string'] = {'remainder_bytes_max': N}
    rem = Lazy('remainder', '&str'); bumped = []
    def m_remainder(ctx): return ctx.ret(rem)
    def m_bump(ctx):
        ctx.event('bump', ctx.term(ctx.args[1], 'usize')); return ctx.ret(UNIT)
    eng = chk.engine(fns, decls, str_cap=N, overrides=[(r'^logos::Lexer::<.*>::remainder$', m_remainder), (r'^logos::Lexer::<.*>::bump$', m_bump)])
    sv = lazy_str(eng, rem)
    outs = run_fn(eng, 'string', [Opaque('lexer')]); chk.account(eng, ['string'])
    base = list(eng.assumptions)
    f, i = find_byte(sv, ord('"'))
    bads = []
    for o in outs:
        if o.kind != 'ret': bads.append(o.cond()); continue
        v = o.value; bumps = [t[1] for t in o.st.trace if t[0] == 'bump']
        if 'Ok' in v.vars: bads.append(And(o.cond(), Not(And(f, BoolVal(len(bumps) == 1), (bumps[0] == i + 1) if bumps else BoolVal(False)))))
        else: bads.append(And(o.cond(), f))
    r, m = chk.obligation('helpers::string: consumes up to and including the first closing quote; error iff no quote', base + [Or(bads)], base=base)
    if r == 'sat':
        w = ev_bytes(m, sv); nat = chk.native({'op': 'lex_string', 'source': '"' + w.decode(errors='replace')})
        chk.finding('string-token', f'string token over remainder {w!r}: real lexer yields {nat}', {'op': 'lex_string', 'source': '"' + w.decode(errors='replace')})

def body(chk):
    chk.assumptions += ['logos implements longest match with token-over-regex priority for the rules it is given (the generated automaton is not encoded)',
                        'reference identifier words are WIT-style (lower-case or upper-case words), see DESIGN.md; strings are ASCII in the LEX queries',
                        'semver::Version::from_str replaced by the bounded automaton validated in C15',
                        'the recursive-descent productions (accepting exactly the EBNF, tree shape) are outside the claim']
    fns = chk.load('wac-parser'); decls = chk.decls('wac-parser')
    chk.part('LEX token rules', part_lex, chk)
    chk.part('detect_invalid_input', c14.part_screen, chk, fns, decls)
    chk.part('block_comment_length', c14.part_comment, chk, fns, decls)
    chk.part('helpers::string', part_string, chk, fns, decls)
    chk.part('PackagePath::parse', part_package_path, chk, fns, decls, 'PackagePath')
    chk.part('PackageName::parse', part_package_path, chk, fns, decls, 'PackageName')

if __name__ == '__main__':
    harness.run_check('C12', body)
