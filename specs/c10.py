"""C10 — plugging satisfies every matchable socket import and re-exports the socket.

Encoded (real MIR, wac-graph dump): plug::plug and its closures. The graph API it drives is replaced by its contract
(instantiate / alias_instance_export / set_instantiation_argument / export as events on an abstract wiring state; the contracts are the
effect postconditions discharged by C06), `<:` is an uninterpreted predicate (C07), semver compatibility is the track relation (C15).
"""
import sys, os, re, json, itertools
sys.path.insert(0, os.path.dirname(os.path.dirname(os.path.abspath(__file__))))
import z3
from z3 import And, Or, Not, If, BoolVal, BitVecVal, ULT, ULE, UGT, UGE, Implies, Int, Function, IntSort, BoolSort
from m2s import harness, engine, models, containers
from m2s.engine import Lazy, Agg, Enum, StrV, Ref, Opaque, bv64, UNIT, fresh_id
from m2s.containers import VecV, MapV, lazy_atom, Atom, to_atom
from m2s.harness import ev_int, ev_bool, ev_bytes, run_fn, Inconclusive
from specs import absnames as AN

SUB = Function('plug_sub', IntSort(), IntSort(), BoolSort())          # is_subtype(plug export type, socket import type) is Ok
ALIAS_OK = Function('alias_ok', IntSort(), IntSort(), BoolSort())     # alias_instance_export(instance of package p, name) is Ok
EXPORT_OK = Function('export_ok', IntSort(), BoolSort())             # graph.export(_, name) is Ok

def atom_of(x): return x.t if isinstance(x, Atom) else lazy_atom(x).t

class World:
    def __init__(s, tag, ni, ne):
        s.tag = tag
        s.imp = [(Lazy(f'{tag}.import{i}', 'std::string::String'), Lazy(f'{tag}.importty{i}', 'ItemKind')) for i in range(ni)]
        s.exp = [(Lazy(f'{tag}.export{i}', 'std::string::String'), Lazy(f'{tag}.exportty{i}', 'ItemKind')) for i in range(ne)]
        s.imports = MapV(tuple(s.imp)); s.exports = MapV(tuple(s.exp))
    def names(s): return [atom_of(k) for k, _ in s.imp + s.exp]

def run_plug(chk, fns, decls, nplugs, pe, si, se):
    """-> (engine, outcomes, socket world, plug worlds)"""
    socket = World('socket', si, se); plugs = [World(f'plug{p}', 0, pe[p]) for p in range(nplugs)]
    worlds = {'socket': socket}; worlds.update({f'plug{p}': plugs[p] for p in range(nplugs)})
    wt = chk.decls('wac-types'); worder = [n for n, t in wt.structs['World'][1]]
    def pkg_tag(ctx, v):
        v = ctx.deref(v)
        if isinstance(v, Lazy): return v.name
        raise engine.EngineError(f'package id is not an input: {v!r}')
    def m_types(ctx): return ctx.ret(Ref(Lazy('gtypes', 'Types'), ()))
    def m_graph_index(ctx): return ctx.ret(Ref(Lazy('pkg:' + pkg_tag(ctx, ctx.args[1]), 'Package'), ()))
    def m_pkg_ty(ctx):
        p = ctx.deref(ctx.args[0]); return ctx.ret(Lazy('world:' + p.name[4:], 'WorldId'))
    def m_world_index(ctx):
        w = ctx.deref(ctx.args[1]); wd = worlds[w.name[6:]]
        f = [Opaque('world-field')] * len(worder); f[worder.index('imports')] = wd.imports; f[worder.index('exports')] = wd.exports
        return ctx.ret(Ref(ctx.st.alloc(Agg(f, 'World'))))
    def m_compat(ctx):
        a = to_atom(ctx.eng, ctx.deref(ctx.args[0])).t; b = to_atom(ctx.eng, ctx.deref(ctx.args[1])).t
        return ctx.ret(Or(a == b, AN.same_track(a, b)))      # the contract of are_semver_compatible (C15): identical, or same semver track
    def m_checker_new(ctx): return ctx.ret(Opaque('checker'))
    def tyid(ctx, v):
        v = ctx.deref(v)
        while isinstance(v, Ref): v = ctx.deref(v)
        if isinstance(v, Lazy): return lazy_atom(v).t
        raise engine.EngineError(f'type operand of is_subtype is not an input: {v!r}')
    def m_is_subtype(ctx):
        a = tyid(ctx, ctx.args[1]); b = tyid(ctx, ctx.args[3]); ctx.event('sub', a, b)
        return ctx.ret(models.result(SUB(a, b), UNIT, Opaque('subtype-error')))
    def wiring(st): return [t for t in st.trace if t[0] in ('instantiate', 'alias', 'set', 'export')]
    def node(st, desc):
        k = len(st.trace); st.trace.append(tuple(desc) + (k,)); return Agg((bv64(k),), 'NodeId')
    def fork_store(ctx, alts):
        """alts: [(cond, fn(state) -> value)] ; the value is computed (and events appended) on the forked state"""
        from m2s.mir import parse_place
        dst, tgt, eng = ctx.dst, ctx.tgt, ctx.eng
        def mk(fn):
            def ap(st2, fr2): eng.store(st2, fr2, parse_place(dst), fn(st2)); eng.goto(fr2, tgt)
            return ap
        return ('forks', [(c, mk(fn)) for c, fn in alts])
    def node_of(ctx, v):
        v = ctx.deref(v)
        if isinstance(v, Agg) and z3.is_bv_value(z3.simplify(v.f[0])): return z3.simplify(v.f[0]).as_long()
        raise engine.EngineError(f'node id not produced by the graph model: {v!r}')
    def m_instantiate(ctx): return ctx.ret(node(ctx.st, ('instantiate', pkg_tag(ctx, ctx.args[1]))))
    def m_alias(ctx):
        inst = node_of(ctx, ctx.args[1]); name = to_atom(ctx.eng, ctx.deref(ctx.args[2])).t
        ptag = [t for t in ctx.st.trace if t[0] == 'instantiate' and t[-1] == inst][0][1]
        okc = ALIAS_OK(z3.IntVal(sorted(worlds).index(ptag)), name)
        return fork_store(ctx, [(okc, lambda st: models.ok(node(st, ('alias', inst, ptag, name)))), (Not(okc), lambda st: models.err(Opaque('alias-error')))])
    def m_set_arg(ctx):
        inst = node_of(ctx, ctx.args[1]); name = to_atom(ctx.eng, ctx.deref(ctx.args[2])).t; src = node_of(ctx, ctx.args[3])
        prev = [t for t in ctx.st.trace if t[0] == 'set' and t[1] == inst]
        # contract (C06): Err(ArgumentAlreadyPassed) when the argument is already supplied by another node, Ok (and the edge exists) otherwise;
        # the type check inside repeats the is_subtype query plug made, so it cannot fail here
        taken = Or([p[2] == name for p in prev]) if prev else BoolVal(False)
        def ok_(st): st.trace.append(('set', inst, name, src)); return models.ok(UNIT)
        return fork_store(ctx, [(Not(taken), ok_), (taken, lambda st: models.err(Opaque('argument-already-passed')))])
    def m_get_args(ctx):
        inst = node_of(ctx, ctx.args[1]); return ctx.ret(('args-iter', inst))
    def m_args_next(ctx):
        it = ctx.deref(ctx.args[0]); prev = [t for t in ctx.st.trace if t[0] == 'set' and t[1] == it[1]]
        return ctx.ret(models.some(Opaque('argument')) if prev else models.none())
    def m_export(ctx):
        n = node_of(ctx, ctx.args[1]); name = to_atom(ctx.eng, ctx.deref(ctx.args[2])).t
        dup = Or([t[2] == name for t in ctx.st.trace if t[0] == 'export'] + [BoolVal(False)])
        okc = And(EXPORT_OK(name), Not(dup))
        def ok_(st): st.trace.append(('export', n, name)); return models.ok(UNIT)
        return fork_store(ctx, [(okc, ok_), (Not(okc), lambda st: models.err(Opaque('export-error')))])
    ov = AN.OVERRIDES + [
        (r'^graph::CompositionGraph::types$', m_types), (r'^<graph::CompositionGraph as Index<graph::PackageId>>::index$', m_graph_index),
        (r'^Package::ty$', m_pkg_ty), (r'^<wac_types::Types as Index<WorldId>>::index$', m_world_index),
        (r'^are_semver_compatible$', m_compat), (r'^SubtypeChecker::<.*>::new$', m_checker_new), (r'^SubtypeChecker::<.*>::is_subtype$', m_is_subtype),
        (r'^graph::CompositionGraph::instantiate$', m_instantiate), (r'^graph::CompositionGraph::alias_instance_export$', m_alias),
        (r'^graph::CompositionGraph::set_instantiation_argument$', m_set_arg), (r'^graph::CompositionGraph::get_instantiation_arguments$', m_get_args),
        (r'^<FilterMap<petgraph::stable_graph::Edges<.*> as Iterator>::next$', m_args_next), (r'^graph::CompositionGraph::export::<.*>$', m_export),
        (r'^<HashSet<.*> as Default>::default$', lambda ctx: ctx.ret(Opaque('cache')))]
    eng = chk.engine(fns, decls, overrides=ov, loop_bound=max(si, se, max(pe + [0]), nplugs) + 3)
    eng.atom_strings = True
    fname = eng.find_fn(r'^plug$')
    pids = [Lazy(f'plug{p}', 'graph::PackageId') for p in range(nplugs)]
    outs = run_fn(eng, fname, [Opaque('graph'), VecV(tuple(pids)), Lazy('socket', 'graph::PackageId')])
    chk.account(eng, [fname])
    return eng, outs, socket, plugs, worlds

def reference(socket, plugs):
    """the documented matching: per (plug p, export e) the socket import it is a candidate for, and whether it is offered"""
    simp = [atom_of(k) for k, _ in socket.imp]; styp = [atom_of(t) for _, t in socket.imp]
    offers = {}   # (p, e, j) -> cond
    for p, pw in enumerate(plugs):
        for e, (k, t) in enumerate(pw.exp):
            n = atom_of(k); ty = atom_of(t)
            exact = [simp[j] == n for j in range(len(simp))]
            any_exact = Or(exact) if exact else BoolVal(False)
            for j in range(len(simp)):
                first_compat = And(AN.same_track(n, simp[j]), And([Not(AN.same_track(n, simp[i])) for i in range(j)]))
                cand = Or(exact[j], And(Not(any_exact), first_compat))
                offers[(p, e, j)] = And(cand, SUB(ty, styp[j]))
    return offers

def check_config(chk, fns, decls, nplugs, pe, si, se):
    eng, outs, socket, plugs, worlds = run_plug(chk, fns, decls, nplugs, pe, si, se)
    offers = reference(socket, plugs)
    names = socket.names() + [n for pw in plugs for n in pw.names()]
    tys = [atom_of(t) for _, t in socket.imp] + [atom_of(t) for pw in plugs for _, t in pw.exp]
    base = list(eng.assumptions) + AN.linking(names)
    # names inside one world section are distinct (IndexMap keys); types are arbitrary identities
    for w in [socket] + plugs:
        base += [a != b for a, b in itertools.combinations([atom_of(k) for k, _ in w.imp], 2)] + [a != b for a, b in itertools.combinations([atom_of(k) for k, _ in w.exp], 2)]
    simp = [atom_of(k) for k, _ in socket.imp]; sexp = [atom_of(k) for k, _ in socket.exp]
    order = sorted(worlds)
    def offered(p): return Or([c for (p_, e, j), c in offers.items() if p_ == p] + [BoolVal(False)])
    any_offer = Or(list(offers.values()) + [BoolVal(False)])
    # two offers for one socket import (from two plugs, or two exports of one plug) must make the operation fail
    conflict = Or([And(c1, c2) for ((p1, e1, j1), c1), ((p2, e2, j2), c2) in itertools.combinations(offers.items(), 2) if j1 == j2] + [BoolVal(False)])
    alias_fail_plug = Or([And(c, Not(ALIAS_OK(z3.IntVal(order.index(f'plug{p}')), atom_of(plugs[p].exp[e][0])))) for (p, e, j), c in offers.items()] + [BoolVal(False)])
    socket_fail = Or([Or(Not(ALIAS_OK(z3.IntVal(order.index('socket')), n)), Not(EXPORT_OK(n))) for n in sexp] + [BoolVal(False)])
    bads = []
    for o in outs:
        if o.kind != 'ret': bads.append(('panic', o, o.cond())); continue
        v = o.value; tr = o.st.trace
        insts = [t for t in tr if t[0] == 'instantiate']; aliases = {t[-1]: t for t in tr if t[0] == 'alias'}
        sets = [t for t in tr if t[0] == 'set']; exps = [t for t in tr if t[0] == 'export']
        sock_inst = [t[-1] for t in insts if t[1] == 'socket']
        if 'Ok' in v.vars:
            cs = [BoolVal(len(sock_inst) == 1), any_offer, Not(conflict), Not(alias_fail_plug), Not(socket_fail)]
            # (a) every offered socket import is supplied by exactly that plug export, nothing else is supplied
            for j in range(len(simp)):
                sup = [t for t in sets if True]
                for (p, e, j_), c in offers.items():
                    if j_ != j: continue
                    hit = []
                    for t in sets:
                        a = aliases.get(t[3])
                        if a is None: continue
                        src_inst = [i for i in insts if i[-1] == a[1]]
                        if src_inst and src_inst[0][1] == f'plug{p}': hit.append(And(t[2] == simp[j], a[3] == atom_of(plugs[p].exp[e][0])))
                    cs.append(Implies(c, Or(hit + [BoolVal(False)])))
            for t in sets:
                a = aliases.get(t[3])
                if a is None or t[1] != (sock_inst[0] if sock_inst else None): cs.append(BoolVal(False)); continue
                pi = [i for i in insts if i[-1] == a[1]][0][1]
                if not pi.startswith('plug'): cs.append(BoolVal(False)); continue
                p = int(pi[4:])
                cs.append(Or([And(c, t[2] == simp[j], a[3] == atom_of(plugs[p].exp[e][0])) for (p_, e, j), c in offers.items() if p_ == p] + [BoolVal(False)]))
            # (b) a plug is instantiated exactly when it offers something, and at most once
            for p in range(len(plugs)):
                n_inst = len([t for t in insts if t[1] == f'plug{p}'])
                cs.append(BoolVal(n_inst <= 1)); cs.append(offered(p) == BoolVal(n_inst == 1))
            # (c) every socket export is exported under its own name from the socket instance, nothing else is exported
            cs.append(BoolVal(len(exps) == len(sexp)))
            for i, n in enumerate(sexp):
                if i >= len(exps): break
                a = aliases.get(exps[i][1])
                cs.append(BoolVal(a is not None and bool(sock_inst) and a[1] == sock_inst[0]))
                if a is not None: cs.append(And(exps[i][2] == n, a[3] == n))
            bads.append(('ok-but-wrong', o, And(o.cond(), Not(And(cs)))))
        else:
            e = v.vars['Err'][0]; cls = list(e.vars)[0] if isinstance(e, Enum) and e.vars else 'opaque'
            if cls == 'NoPlugHappened': okc = Not(any_offer)
            else: okc = And(any_offer, Or(conflict, alias_fail_plug, socket_fail))
            bads.append((f'err-{cls}', o, And(o.cond(), Not(okc))))
    return eng, outs, socket, plugs, base, bads

def realise(m, socket, plugs, offers=None):
    """concrete socket / plug components for a model: names rendered from their identities; every item is an instance and `<:` is
    realised by the member sets (equal / wider / narrower / unrelated), so both directions of the predicate can be told apart.
    -> (native case, expectation computed from the model with the documented matching)"""
    seen = {}
    ev = lambda c: z3.is_true(m.eval(c, model_completion=True))
    def nm(k): return AN.render(m, atom_of(k), seen)
    CORE = '(core module $m (func (export "f"))) (core instance $ci (instantiate $m)) (func $f (canon lift (core func $ci "f")))'
    def inst_ty(members): return '(instance ' + ' '.join(f'(export "{x}" (func))' for x in members) + ')'
    def inst_def(tag, members): return f'(instance ${tag} ' + ' '.join(f'(export "{x}" (func $f))' for x in members) + ')'
    sn = [atom_of(k_) for k_, _ in socket.imp]; styp = [atom_of(t) for _, t in socket.imp]
    simp = [nm(k) for k, t in socket.imp]
    socket_wat = ('(component ' + ' '.join(f'(import "{n}" {inst_ty([f"m{j}-a"])})' for j, n in enumerate(simp)) + ' ' + CORE + ' '
                  + ' '.join(f'(export "{nm(k)}" (func $f))' for i, (k, t) in enumerate(socket.exp)) + ')')
    plug_wats = []
    for p, pw in enumerate(plugs):
        parts = [CORE]
        for e, (k, t) in enumerate(pw.exp):
            n = nm(k); ty = atom_of(t)
            exact = [j for j in range(len(sn)) if ev(sn[j] == atom_of(k))]
            compat = [j for j in range(len(sn)) if ev(AN.same_track(atom_of(k), sn[j]))]
            cand = exact[0] if exact else (compat[0] if compat else None)
            members = [f'zz{p}{e}']
            if cand is not None:
                fw = ev(SUB(ty, styp[cand])); bw = ev(SUB(styp[cand], ty))
                members = [f'm{cand}-a'] if fw and bw else [f'm{cand}-a', f'm{cand}-b'] if fw else [] if bw else [f'zz{p}{e}']
            parts.append(inst_def(f'x{e}', members) + f' (export "{n}" (instance $x{e}))')
        plug_wats.append('(component ' + ' '.join(parts) + ')')
    case = {'op': 'plug', 'socket': socket_wat, 'plugs': plug_wats}
    expect = None
    if offers is not None:
        on = [(p, e, j) for (p, e, j), c in offers.items() if ev(c)]
        per_import = {}
        for p, e, j in on: per_import.setdefault(j, []).append((p, e))
        if not on: expect = {'result': 'no-plug'}
        elif any(len(v) > 1 for v in per_import.values()): expect = {'result': 'graph-error'}
        else:
            expect = {'result': 'ok', 'socket_args': {simp[j]: [f't:plug{p}', nm(plugs[p].exp[e][0])] for j, [(p, e)] in per_import.items()},
                      'instantiated_plugs': sorted({f't:plug{p}' for p, e, j in on}), 'exports': sorted(nm(k) for k, t in socket.exp)}
    return case, expect

def agrees(nat, expect):
    """does the native outcome match the documented one?"""
    if expect is None or 'result' not in nat: return None
    res = nat['result'].split(':')[0]
    if res != expect['result']: return False
    if res != 'ok': return True
    return (nat.get('socket_args') == expect['socket_args'] and sorted(x for x in nat.get('instantiated', []) if x != 't:socket') == expect['instantiated_plugs']
            and sorted(nat.get('exports', {})) == expect['exports'] and all(v == ['t:socket', k] for k, v in nat.get('exports', {}).items()))

def part_plug(chk, fns, decls, configs):
    for (nplugs, pe, si, se) in configs:
        eng, outs, socket, plugs, base, bads = check_config(chk, fns, decls, nplugs, pe, si, se)
        label = f'{nplugs} plug(s) with {pe} exports, socket with {si} imports / {se} exports'
        r, m = chk.obligation(f'plug ({label}): offered imports supplied by exactly the offering export, plugs instantiated iff they contribute, socket exports re-exported, '
                              'NoPlugHappened iff nothing offered, conflicts fail', base + [Or([c for _, _, c in bads] + [BoolVal(False)])], base=base)
        if r == 'sat':
            hit = [(k, o) for k, o, c in bads if z3.is_true(m.eval(c, model_completion=True))]
            # the graph calls are assumed to succeed in the realisation (a failing alias / export cannot be built from components)
            okall = [ALIAS_OK(z3.IntVal(i), n) for i in range(len(plugs) + 1) for n in socket.names() + [x for pw in plugs for x in pw.names()]] + [EXPORT_OK(atom_of(k)) for k, _ in socket.exp]
            r3, m3 = chk.solve(f'plug ({label}): counterexample with succeeding graph calls', base + [Or([c for _, _, c in bads])] + okall)
            if r3 == 'sat': m = m3; hit = [(k, o) for k, o, c in bads if z3.is_true(m.eval(c, model_completion=True))]
            offers = reference(socket, plugs)
            case, expect = realise(m, socket, plugs, offers); nat = chk.native(case)
            kind = hit[0][0] if hit else '?'
            ag = agrees(nat, expect)
            if ag is False:
                chk.finding('plug-' + ('error-class' if kind.startswith('err') else 'wiring' if kind == 'ok-but-wrong' else kind),
                            f'plug ({label}): documented outcome {json.dumps(expect)[:400]}, the real plug() gives {json.dumps({k: nat.get(k) for k in ("result", "socket_args", "instantiated", "exports")})[:500]}', case)
            else:
                raise Inconclusive(f'plug ({label}): symbolic counterexample (outcome `{kind}`) does not reproduce natively: expected {expect}, native {json.dumps(nat)[:400]}; case {json.dumps(case)[:600]}')
        # witnesses: one Ok and one error path, realised and replayed; the native wiring must agree with the events of the symbolic path
        for want in ('Ok', 'Err'):
            for o in outs:
                if o.kind != 'ret' or want not in o.value.vars: continue
                r2, m2 = chk.solve('plug/witness', base + [o.cond()] + [ALIAS_OK(z3.IntVal(i), n) for i in range(len(plugs) + 1) for n in socket.names() + [x for pw in plugs for x in pw.names()]]
                                   + [EXPORT_OK(atom_of(k)) for k, _ in socket.exp])
                if r2 != 'sat': continue
                case, expect = realise(m2, socket, plugs, reference(socket, plugs)); nat = chk.native(case)
                if 'result' not in nat: raise Inconclusive(f'plug witness could not be replayed: {nat}')
                got_ok = nat['result'] == 'ok'
                chk.sample({'fn': 'plug', 'config': label, 'symbolic': want, 'native': nat['result'], 'socket_args': nat.get('socket_args'), 'valid': nat.get('valid')})
                if got_ok != (want == 'Ok') or agrees(nat, expect) is False: raise Inconclusive(f'plug witness: symbolic path says {want} / documented {expect}, native says {json.dumps(nat)[:400]} for {case}')
                if got_ok and nat.get('valid') is not True:
                    chk.finding('plug-result-invalid', f'a successful plug does not encode to a valid component: {nat}', case)
                break

def body(chk):
    chk.assumptions += ['graph API replaced by its contract: instantiate/alias/set/export are events; set_instantiation_argument fails exactly when the argument name is already supplied (C06 effect postconditions); alias_instance_export and export succeed or fail arbitrarily per (package, name)',
                        '`<:` is an uninterpreted predicate over type identities (C07); semver compatibility is the track relation of alternate_lookup_key (C15)',
                        'plug package ids are pairwise distinct and distinct from the socket', 'validity of the encoded result is observed on replayed witnesses only (C01 is not claimed)']
    fns = chk.load('wac-graph'); decls = chk.decls('wac-graph')
    if chk.quick: configs = [(1, [2], 2, 1), (2, [1, 1], 2, 1), (2, [2, 1], 1, 0)]
    else: configs = [(1, [2], 2, 1), (1, [3], 2, 2), (2, [1, 1], 2, 1), (2, [2, 1], 2, 1), (2, [2, 2], 2, 1), (3, [1, 1, 1], 2, 1), (1, [2], 3, 1), (2, [1, 1], 3, 1), (4, [1, 1, 1, 1], 1, 1), (4, [1, 1, 1, 1], 2, 0)]
    chk.bounds['plug'] = {'configs (plugs, exports per plug, socket imports, socket exports)': [list(map(str, c)) for c in configs], 'names': 'abstract identities with semver track', 'types': 'abstract identities, `<:` uninterpreted'}
    chk.parallel([(f'plug {c}', part_plug, (fns, decls, [c])) for c in configs])

if __name__ == '__main__':
    harness.run_check('C10', body)
