"""C04 — WAC documents compose what the language reference says (name-inference kernels).

Encoded (real MIR, wac-parser dump): AstResolver::find_matching_interface_name (+ its closure) on real byte strings,
inferred_instantiation_arg and named_instantiation_arg (precedence of LANGUAGE.md, abstract names), spread_instantiation_arg
(fills only unspecified arguments, in order; ineffective spread rejected).
Whole-document evaluation against a reference evaluator is outside the claim.
"""
import sys, os, re, json, itertools
sys.path.insert(0, os.path.dirname(os.path.dirname(os.path.abspath(__file__))))
import z3
from z3 import And, Or, Not, If, BoolVal, BitVecVal, ULT, ULE, UGT, UGE, Implies, Int, Function, IntSort, BoolSort
from m2s import harness, engine, models, containers
from m2s.engine import Lazy, Agg, Enum, StrV, Ref, Opaque, bv64, UNIT, fresh_id
from m2s.models import find_byte, substr, str_eq, byte_at, lazy_str
from m2s.containers import VecV, MapV, lazy_atom, Atom, to_atom
from m2s.harness import ev_int, ev_bool, ev_bytes, run_fn, Inconclusive

ALPHA = b'ab:/@.1-'
IDENT_RE = r'^[a-z][a-z0-9]*(-[a-z][a-z0-9]*)*$'
def in_alpha(sv): return And([Or([b == BitVecVal(c, 8) for c in ALPHA]) for b in sv.buf])

def resolver_fn(eng, name):
    c = eng.index.get(('AstResolver', None, name), [])
    if len(c) != 1: raise engine.EngineError(f'AstResolver::{name} not found: {c}')
    return c[0]

def last_segment_matches(key, name):
    """reference: the text after the last '/' of key, cut at the first '@' after it, equals name (and key contains a '/')"""
    has, sl = find_byte(key, ord('/'), from_end=True)
    tail = substr(key, sl + 1, key.len)
    hat, at = find_byte(tail, ord('@'))
    seg = substr(tail, bv64(0), If(hat, at, tail.len))
    return And(has, str_eq(seg, name))

def part_fmi(chk, fns, decls):
    NK = chk.pick(9, 11); NN = chk.pick(4, 5); K = 2
    chk.bounds['find_matching_interface_name'] = {'externs': K, 'extern_name_bytes_max': NK, 'identifier_bytes_max': NN, 'alphabet': ALPHA.decode()}
    eng = chk.engine(fns, decls, str_cap=NK, loop_bound=K + 3)
    fname = resolver_fn(eng, 'find_matching_interface_name')
    name = Lazy('ident', '&str'); keys = [Lazy(f'extern{i}', 'std::string::String') for i in range(K)]
    svn = lazy_str(eng, name, NN); svk = [lazy_str(eng, k, NK) for k in keys]
    for nk in range(K + 1):
        st = engine.State(); mref = Ref(st.alloc(MapV(tuple((keys[i], Lazy(f'kind{i}', 'ItemKind')) for i in range(nk)))))
        fn = eng.fns[fname]; fr = engine.Frame(fn)
        for (loc, ty), a in zip(fn.params, [name, mref]): fr.env[loc] = st.alloc(a)
        st.frames = [fr]; n0 = len(eng.out); eng.run(st); outs = eng.out[n0:]
        base = list(eng.assumptions) + [in_alpha(svn)] + [in_alpha(s_) for s_ in svk] + [Not(str_eq(svk[i], svk[j])) for i, j in itertools.combinations(range(nk), 2)]
        direct = Or([str_eq(svk[i], svn) for i in range(nk)]) if nk else BoolVal(False)
        match = [last_segment_matches(svk[i], svn) for i in range(nk)]
        nmatch = sum([If(x, 1, 0) for x in match]) if match else z3.IntVal(0)
        bads = []
        for o in outs:
            if o.kind != 'ret': bads.append(o.cond()); continue
            v = o.value; some = v.disc == bv64(1)
            want_some = And(Not(direct), nmatch == 1)
            cs = [some != want_some]
            if 'Some' in v.vars:
                r_ = eng.deref(o.st, v.vars['Some'][0]); r_ = lazy_str(eng, r_) if isinstance(r_, Lazy) else r_
                cs.append(And(some, Not(Or([And(match[i], str_eq(r_, svk[i])) for i in range(nk)]) if nk else BoolVal(False))))
            bads.append(And(o.cond(), Or(cs)))
        r, m = chk.obligation(f'find_matching_interface_name ({nk} externs): the unique extern whose last path segment (version stripped) is the identifier, unless an extern has exactly that name',
                              base + [Or(bads)], base=base)
        if r == 'sat':
            ident = ev_bytes(m, svn).decode(); ks = [ev_bytes(m, svk[i]).decode() for i in range(nk)]
            exp = reference_fmi(ident, ks) or ident
            ok_input = bool(re.match(IDENT_RE, ident)) and all(valid_extern(k) for k in ks)
            case, nat = native_named(chk, ident, ks) if ok_input else ({'rule': 'find_matching_interface_name', 'ident': ident, 'externs': ks}, {})
            if not ok_input:
                chk.finding('find-matching-interface-name', f'find_matching_interface_name({ident!r}, {ks}) deviates from the documented last-segment rule (kernel-level: the strings are outside the lexer grammar, no document replay)', case)
            elif nat.get('name') != exp and (exp in ks or 'name' in nat):
                chk.finding('find-matching-interface-name', f'named argument `{ident}` against imports {ks} is bound to `{nat.get("name")}` ({nat.get("error", "")}), documented: `{exp}`', case)
            else: raise Inconclusive(f'find_matching_interface_name counterexample ({ident!r}, {ks}) does not reproduce natively: {nat}')
        for o in outs[:: max(1, len(outs) // 4)]:
            r, m = chk.solve('fmi/witness', base + [o.cond()])
            if r != 'sat': continue
            ident = ev_bytes(m, svn).decode(); ks = [ev_bytes(m, svk[i]).decode() for i in range(nk)]
            if not re.match(IDENT_RE, ident) or not all(valid_extern(k) for k in ks): continue
            case, nat = native_named(chk, ident, ks); exp = reference_fmi(ident, ks) or ident
            chk.sample({'fn': 'find_matching_interface_name', 'ident': ident, 'imports': ks, 'native': nat})
            if 'name' in nat and nat['name'] != exp: raise Inconclusive(f'fmi witness mismatch ({ident}, {ks}): native {nat}, reference {exp}')
    chk.account(eng, [fname])


PROVIDER = '(component (core module $m (func (export "f"))) (core instance $i (instantiate $m)) (func $f (canon lift (core func $i "f"))) (export "x" (func $f)) (export "a" (func $f)) (export "b" (func $f)))'
def consumer_wat(keys): return '(component ' + ' '.join(f'(import "{k}" ({"instance" if ":" in k else "func"}))' for k in keys) + ')'
def native_named(chk, ident, keys):
    """`new t:consumer { ident: <import>, ... }` against a consumer importing `keys` -> the argument name the real resolver bound"""
    exp = reference_fmi(ident, keys) or ident
    src = 'xi' if ':' in exp else 'xf'
    case = {'op': 'resolve_doc', 'doc': f'package t:doc; import xf: func(); import xi: interface {{}}; let i = new t:consumer {{ {ident}: {src}, ... }};', 'packages': {'t:consumer': consumer_wat(keys)}}
    nat = chk.native(case)
    if not nat.get('ok'): return case, {'error': nat.get('error') or nat}
    inst = [n for n in nat['nodes'] if n['desc'] == 'inst:i'][0]
    bound = [k for k, v in inst['args'].items() if v == f'import:{src}']
    return case, {'name': bound[0] if bound else None}

def valid_extern(k):
    return bool(re.match(r'^[a-z][a-z0-9]*(-[a-z][a-z0-9]*)*$', k) or re.match(r'^[a-z][a-z0-9-]*:[a-z][a-z0-9-]*/[a-z][a-z0-9-]*(@\d+\.\d+\.\d+)?$', k))
def reference_fmi(ident, keys):
    if ident in keys: return None
    ms = []
    for k in keys:
        if '/' not in k: continue
        seg = k[k.rfind('/') + 1:]; seg = seg.split('@')[0]
        if seg == ident: ms.append(k)
    return ms[0] if len(ms) == 1 else None

def part_inferred(chk, fns, decls):
    """inferred_instantiation_arg / named_instantiation_arg: the documented precedence, over abstract names"""
    K = chk.pick(2, 3)
    chk.bounds['inferred/named argument'] = {'world_imports_max': K, 'names': 'abstract identities'}
    types = Lazy('gtypes', 'wac_graph::wac_types::Types')
    item = Lazy('item', 'Item'); kind = Lazy('kind', 'ItemKind')
    has_import_name = z3.Bool('node_is_import'); import_name = Lazy('import_name', '&str')
    has_alias = z3.Bool('node_is_alias'); alias_name = Lazy('alias_export_name', '&str')
    fmi_some = z3.Bool('fmi_some'); fmi_name = Lazy('fmi_result', '&str')
    local_ok = z3.Bool('local_item_ok'); expr_ok = z3.Bool('expr_ok')
    def m_local_item(ctx): return ctx.ret(models.result(local_ok, Agg((item, Lazy('span0', 'SourceSpan'))), Opaque('undefined-name')))
    def m_types(ctx): return ctx.ret(Ref(types, ()))
    def m_index(ctx):
        idv = ctx.deref(ctx.args[1]); m_ = re.search(r'Index<(\w+)>', ctx.callee).group(1)
        return ctx.ret(Ref(types.kid(f'[{idv.name}]', {'WorldId': 'World', 'InterfaceId': 'Interface'}[m_]), ()))
    def m_item_kind(ctx): return ctx.ret(kind)
    def m_item_node(ctx): return ctx.ret(Lazy('node', 'NodeId'))
    def m_get_import_name(ctx): return ctx.ret(models.opt(has_import_name, import_name))
    def m_get_alias_source(ctx): return ctx.ret(models.opt(And(Not(has_import_name), has_alias), Agg((Lazy('srcnode', 'NodeId'), alias_name))))
    def m_fmi(ctx):
        ctx.event('fmi', ctx.deref(ctx.args[0])); return ctx.ret(models.opt(fmi_some, fmi_name))
    def m_expr(ctx): return ctx.ret(models.result(expr_ok, item, Opaque('expr-error')))
    def m_name_span(ctx): return ctx.ret(Lazy('namespan', 'SourceSpan'))
    ov = [(r'^State::local_item$', m_local_item), (r'^CompositionGraph::types$', m_types), (r'^<wac_graph::wac_types::Types as Index<.*>>::index$', m_index),
          (r'^Item::kind$', m_item_kind), (r'^Item::node$', m_item_node), (r'^CompositionGraph::get_import_name$', m_get_import_name),
          (r'^CompositionGraph::get_alias_source$', m_get_alias_source), (r'^AstResolver::<.*>::find_matching_interface_name$', m_fmi),
          (r'^AstResolver::<.*>::expr$', m_expr), (r'^expr::InstantiationArgumentName::<.*>::span$', m_name_span)]
    wt = chk.decls('wac-types')
    wi = [n for n, t in wt.structs['World'][1]].index('imports'); ii = [n for n, t in wt.structs['Interface'][1]].index('id')
    def imported(imports, t):
        return Or([And(ULT(bv64(i), imports.len()), lazy_atom(imports.kid(f'[{i}].k')).t == t) for i in range(K)])
    # ---- inferred
    eng = chk.engine(fns, decls, overrides=ov, vec_cap=K, loop_bound=K + 3); eng.atom_strings = True
    fname = resolver_fn(eng, 'inferred_instantiation_arg')
    ident = Lazy('identnode', "ast::Ident<'_>"); world = Lazy('world', 'WorldId')
    outs = run_fn(eng, fname, [Opaque('self'), Ref(Lazy('state', 'State'), ()), Ref(ident, ()), world]); chk.account(eng, [fname])
    imports = types.kid('[world]').kid(str(wi))
    id_order = [n for n, t in decls.structs['Ident'][1]]
    ident_str = ident.kid(str(id_order.index('string')))
    iface_id = types.kid(f'[{kind.kid("Instance.0").name}]').kid(str(ii))       # Option<String>
    inst_idx = bv64(wt.enum_index('ItemKind', 'Instance'))
    r1 = And(kind.disc == inst_idx, iface_id.disc == bv64(1), imported(imports, lazy_atom(iface_id.kid('Some.0')).t))
    r2a = And(has_import_name, imported(imports, lazy_atom(import_name).t))
    r2b = And(Not(has_import_name), has_alias, imported(imports, lazy_atom(alias_name).t))
    expected = If(r1, lazy_atom(iface_id.kid('Some.0')).t, If(r2a, lazy_atom(import_name).t, If(r2b, lazy_atom(alias_name).t, If(fmi_some, lazy_atom(fmi_name).t, lazy_atom(ident_str).t))))
    base = list(eng.assumptions) + [ULE(imports.len(), bv64(K)), ULT(kind.disc, bv64(len(wt.enums['ItemKind']))), ULT(iface_id.disc, bv64(2))]
    bads = []
    for o in outs:
        if o.kind != 'ret': bads.append(o.cond()); continue
        v = o.value
        if 'Err' in v.vars: bads.append(And(o.cond(), local_ok)); continue
        nm_ = v.vars['Ok'][0].f[0]
        bads.append(And(o.cond(), Or(Not(local_ok), containers.to_atom(eng, nm_).t != expected)))
    r, m = chk.obligation('inferred argument name: (1) instance id if imported, (2) import name / aliased export name if imported, (3) unique last-segment match, (4) the identifier', base + [Or(bads)], base=base)
    report(chk, r, run_battery(chk, INFER_BATTERY, 'inferred_instantiation_arg'), 'inferred-arg-precedence', 'inferred_instantiation_arg')
    # ---- named
    eng2 = chk.engine(fns, decls, overrides=ov, vec_cap=K, loop_bound=K + 3); eng2.atom_strings = True
    fname2 = resolver_fn(eng2, 'named_instantiation_arg')
    arg = Lazy('namedarg', "ast::NamedInstantiationArgument<'_>")
    outs2 = run_fn(eng2, fname2, [Opaque('self'), Ref(Lazy('state', 'State'), ()), Ref(arg, ()), world, Opaque('packages')]); chk.account(eng2, [fname2])
    na_order = [n for n, t in decls.structs['NamedInstantiationArgument'][1]]
    an = arg.kid(str(na_order.index('name')))
    idx_ident = decls.enum_index('InstantiationArgumentName', 'Ident'); idx_str = decls.enum_index('InstantiationArgumentName', 'String')
    ident_s = an.kid('Ident.0').kid(str(id_order.index('string')))
    str_order = [n for n, t in decls.structs['String'][1]] if 'String' in decls.structs else ['span', 'value']
    str_v = an.kid('String.0').kid(str(str_order.index('value')))
    expected2 = If(an.disc == bv64(idx_ident), If(fmi_some, lazy_atom(fmi_name).t, lazy_atom(ident_s).t), lazy_atom(str_v).t)
    base2 = list(eng2.assumptions) + [ULT(an.disc, bv64(2))]
    bads2 = []
    for o in outs2:
        if o.kind != 'ret': bads2.append(o.cond()); continue
        v = o.value
        if 'Err' in v.vars: bads2.append(And(o.cond(), expr_ok)); continue
        bads2.append(And(o.cond(), Or(Not(expr_ok), containers.to_atom(eng2, v.vars['Ok'][0].f[0]).t != expected2)))
    r, m = chk.obligation('named argument name: identifier -> unique last-segment match else the identifier; string -> verbatim', base2 + [Or(bads2)], base=base2)
    if r == 'sat':
        chk.finding('named-arg-name', 'named_instantiation_arg deviates from the documented rule (rule-level model)', {'rule': 'named_instantiation_arg'})

WITPKG = '(component (type (component (type (instance)) (export "foo:bar/c" (instance (type 0))))) (export "c" (type 0)))'
def inst_args(nat, name='i'):
    if not nat.get('ok'): return {'!error': nat.get('error') or str(nat)[:300]}
    return [n for n in nat['nodes'] if n['desc'] == f'inst:{name}'][0]['args']
INFER_BATTERY = [   # (what, document, packages, documented bindings of instantiation `i`)
    ('rule 1 (interface id) before rule 2 (import name)', 'package t:doc; import c as y: foo:bar/c; let i = new t:consumer { c, ... };',
     {'t:consumer': '(component (import "y" (instance)) (import "foo:bar/c" (instance)) (import "c" (instance)))', 'foo:bar': WITPKG}, {'foo:bar/c': 'import:y'}),
    ('rule 2 (import name) before rules 3/4', 'package t:doc; import c as x: func(); let i = new t:consumer { c, ... };',
     {'t:consumer': '(component (import "x" (func)) (import "foo:bar/c" (func)) (import "c" (func)))'}, {'x': 'import:x'}),
    ('rule 2 (import name) before rule 3 (last-segment match)', 'package t:doc; import c as x: func(); let i = new t:consumer { c, ... };',
     {'t:consumer': '(component (import "x" (func)) (import "foo:bar/c" (func)))'}, {'x': 'import:x'}),
    ('rule 2 (aliased export name) before rule 3', 'package t:doc; let p = new t:provider { }; let c = p.x; let i = new t:consumer { c, ... };',
     {'t:consumer': '(component (import "x" (func)) (import "foo:bar/c" (func)))', 't:provider': PROVIDER}, {'x': 'alias:x@inst:p'}),
    ('rule 2 (aliased export name) before rules 3/4', 'package t:doc; let p = new t:provider { }; let c = p.x; let i = new t:consumer { c, ... };',
     {'t:consumer': '(component (import "x" (func)) (import "foo:bar/c" (func)) (import "c" (func)))', 't:provider': PROVIDER}, {'x': 'alias:x@inst:p'}),
    ('rule 2 does not apply when the import name is not an import of the package', 'package t:doc; import c as z: func(); let i = new t:consumer { c, ... };',
     {'t:consumer': '(component (import "x" (func)) (import "foo:bar/c" (func)))'}, {'foo:bar/c': 'import:z'}),
    ('rule 3 (unique last segment)', 'package t:doc; import c: func(); let i = new t:consumer { c, ... };',
     {'t:consumer': '(component (import "foo:bar/c" (func)))'}, {'foo:bar/c': 'import:c'}),
    ('exact name before rule 3', 'package t:doc; import c: func(); let i = new t:consumer { c, ... };',
     {'t:consumer': '(component (import "foo:bar/c" (func)) (import "c" (func)))'}, {'c': 'import:c'}),
    ('rule 3 needs a unique match', 'package t:doc; import c: func(); let i = new t:consumer { c, ... };',
     {'t:consumer': '(component (import "foo:bar/c" (func)) (import "foo:baz/c" (func)))'}, None),
]
SPREAD_BATTERY = [
    ('spread fills only what is not given', 'package t:doc; let p = new t:provider { }; import a: func(); let i = new t:consumer { a, ...p };',
     {'t:consumer': '(component (import "a" (func)) (import "b" (func)))', 't:provider': PROVIDER}, {'a': 'import:a', 'b': 'alias:b@inst:p'}),
    ('spread after an explicit string-named argument', 'package t:doc; let p = new t:provider { }; import q: func(); let i = new t:consumer { "b": q, ...p };',
     {'t:consumer': '(component (import "a" (func)) (import "b" (func)))', 't:provider': PROVIDER}, {'b': 'import:q', 'a': 'alias:a@inst:p'}),
    ('a spread that fills nothing is an error', 'package t:doc; let p = new t:provider { }; import a: func(); let i = new t:consumer { a, "b": a, ...p };',
     {'t:consumer': '(component (import "a" (func)) (import "b" (func)))', 't:provider': PROVIDER}, None),
    ('spreading a non-instance is an error', 'package t:doc; import a: func(); let i = new t:consumer { ...a };',
     {'t:consumer': '(component (import "a" (func)) (import "b" (func)))'}, None),
]
def run_battery(chk, battery, fn):
    """native: whole documents through the real parser + resolver; -> list of (what, case, got, documented) that disagree"""
    bad = []
    for what, doc, pkgs, exp in battery:
        case = {'op': 'resolve_doc', 'doc': doc, 'packages': pkgs}
        got = inst_args(chk.native(case))
        chk.sample({'fn': fn, 'doc': doc, 'bindings': got})
        if (exp is None) != ('!error' in got) or (exp is not None and got != exp): bad.append((what, case, got, exp))
    return bad
def report(chk, r, bad, role, fn):
    """sat + a failing document -> finding with the document; sat alone -> kernel-level finding; unsat + failing document -> the oracle is wrong"""
    if r == 'sat':
        if bad:
            for what, case, got, exp in bad: chk.finding(role, f'{what}: `{case["doc"]}` binds {got}, documented {exp if exp is not None else "an error"}', case)
        else: chk.finding(role, f'{fn} deviates from the documented rule for some resolver state (kernel-level counterexample; the document battery does not expose it)', {'rule': fn})
    elif bad:
        raise Inconclusive(f'{fn}: the rule-level obligation holds but documents disagree with the oracle: {[(w, g) for w, c, g, e in bad]}')

def part_spread(chk, fns, decls):
    """spread_instantiation_arg: fills only unspecified arguments, in the order of the package's imports; a spread that fills nothing is an error"""
    K = chk.pick(2, 3)
    chk.bounds['spread'] = {'expected_imports_max': K, 'already_bound_arguments_max': K}
    item = Lazy('spread_item', 'Item'); kind = Lazy('spread_kind', 'ItemKind'); local_ok = z3.Bool('local_item_ok')
    alias_some = Function('alias_some', IntSort(), BoolSort()); alias_ok = Function('alias_ok', IntSort(), BoolSort())
    wt = chk.decls('wac-types'); inst_idx = bv64(wt.enum_index('ItemKind', 'Instance'))
    def m_local_item(ctx): return ctx.ret(models.result(local_ok, Agg((item, Lazy('span0', 'SourceSpan'))), Opaque('undefined-name')))
    def m_item_kind(ctx): return ctx.ret(kind)
    def m_types(ctx): return ctx.ret(Ref(Lazy('gtypes', 'Types'), ()))
    def m_desc(ctx): return ctx.ret(Opaque('desc'))
    def m_alias_export(ctx):
        name = ctx.deref(ctx.args[3]); t = containers.to_atom(ctx.eng, name).t; ctx.event('alias_export', t)
        return ctx.ret(models.result(alias_ok(t), models.opt(alias_some(t), Agg((t, 'aliased'), 'Item')), Opaque('alias-error')))
    ov = [(r'^State::local_item$', m_local_item), (r'^Item::kind$', m_item_kind), (r'^CompositionGraph::types$', m_types), (r'^ItemKind::desc$', m_desc),
          (r'^AstResolver::<.*>::alias_export$', m_alias_export)]
    sat_any = False
    for nb in range(0, K + 1):
        for ne in range(1, K + 1):
            eng = chk.engine(fns, decls, overrides=ov, vec_cap=K, loop_bound=K + 3); eng.atom_strings = True
            fname = resolver_fn(eng, 'spread_instantiation_arg')
            exp_names = [Lazy(f'expected{i}', 'std::string::String') for i in range(ne)]
            bound = [(Lazy(f'bound{i}', 'std::string::String'), Agg((Lazy(f'bounditem{i}', 'Item'), Lazy(f'boundspan{i}', 'SourceSpan')))) for i in range(nb)]
            st = engine.State()
            expected = Ref(st.alloc(MapV(tuple((e, UNIT) for e in exp_names)))); args_cell = st.alloc(MapV(tuple(bound))); arguments = Ref(args_cell)
            fn = eng.fns[fname]; fr = engine.Frame(fn)
            for (loc, ty), a in zip(fn.params, [Opaque('self'), Ref(Lazy('state', 'State'), ()), Ref(Lazy('id', 'Ident'), ()), expected, arguments]): fr.env[loc] = st.alloc(a)
            st.frames = [fr]; eng.run(st); outs = eng.out; chk.account(eng, [fname])
            et = [lazy_atom(e).t for e in exp_names]; bt = [lazy_atom(b[0]).t for b in bound]
            base = list(eng.assumptions) + [a != b for a, b in itertools.combinations(et, 2)] + [a != b for a, b in itertools.combinations(bt, 2)] + [ULT(kind.disc, bv64(len(wt.enums['ItemKind'])))]
            is_inst = kind.disc == inst_idx
            # reference: walk expected names in order
            fills = []; err_before = BoolVal(False)
            for i, e in enumerate(et):
                already = Or([e == b for b in bt]) if bt else BoolVal(False)
                fills.append(And(Not(already), alias_ok(e), alias_some(e)))
            def first_alias_error(upto):
                return Or([And(Not(Or([et[i] == b for b in bt]) if bt else BoolVal(False)), Not(alias_ok(et[i])), And([Or(Or([et[j] == b for b in bt]) if bt else BoolVal(False), alias_ok(et[j])) for j in range(i)])) for i in range(upto)]) if upto else BoolVal(False)
            alias_err = first_alias_error(len(et))
            bads = []
            for o in outs:
                if o.kind != 'ret': bads.append(o.cond()); continue
                v = o.value; post = o.st.heap[args_cell]
                pnames = [containers.to_atom(eng, k).t for k, _ in post.entries]
                if 'Ok' in v.vars:
                    cs = [local_ok, is_inst, Not(alias_err), Or(fills)]
                    # previously bound arguments are untouched (same order, same items), new ones are exactly the filled names in import order
                    same_prefix = len(post.entries) >= nb and all(post.entries[i][1] is bound[i][1] for i in range(nb))
                    cs.append(BoolVal(same_prefix))
                    added = pnames[nb:]
                    for i, e in enumerate(et):
                        cs.append(fills[i] == (Or([a == e for a in added]) if added else BoolVal(False)))
                    for a in added: cs.append(Or([And(a == e, fills[i]) for i, e in enumerate(et)]))
                    bads.append(And(o.cond(), Not(And(cs))))
                else:
                    e = v.vars['Err'][0]; cls = list(e.vars)[0] if isinstance(e, Enum) and e.vars else 'opaque'
                    if cls == 'NotAnInstance': okc = And(local_ok, Not(is_inst))
                    elif cls == 'SpreadInstantiationNoMatch': okc = And(local_ok, is_inst, Not(alias_err), Not(Or(fills)))
                    else: okc = Or(Not(local_ok), And(is_inst, alias_err))
                    bads.append(And(o.cond(), Not(okc)))
            r, m = chk.obligation(f'spread argument ({nb} bound, {ne} expected): fills exactly the unspecified imports the instance exports, never overwrites, rejects an ineffective spread', base + [Or(bads)], base=base)
            sat_any = sat_any or r == 'sat'
    report(chk, 'sat' if sat_any else 'unsat', run_battery(chk, SPREAD_BATTERY, 'spread_instantiation_arg'), 'spread-rule', 'spread_instantiation_arg')

def part_new_expr(chk, fns, decls, nargs):
    """new_expr: the argument table. Sub-resolutions (inferred / named / spread) by contract (their own obligations are above); graph calls are events"""
    K = chk.pick(2, 3)
    chk.bounds.setdefault('new_expr', {'arguments': [], 'world_imports_max': K})['arguments'].append(nargs)
    wt = chk.decls('wac-types'); wi = [n for n, t in wt.structs['World'][1]].index('imports')
    NAME = Function('arg_name', IntSort(), IntSort()); SUB_OK = Function('arg_resolves', IntSort(), BoolSort())
    SPREAD_OK = Function('spread_ok', IntSort(), BoolSort()); SPREAD_ADDS = Function('spread_adds', IntSort(), IntSort())     # the name a spread adds (one per spread, arbitrary)
    SET_RES = Function('set_argument_result', IntSort(), IntSort())       # 0 ok, 1 invalid name, 2 type mismatch
    own = z3.Bool('is_own_package'); pkg_ok = z3.Bool('package_resolves')
    types = Lazy('gtypes', 'wac_graph::wac_types::Types'); world = Lazy('world', 'WorldId')
    def arg_pos(ctx, v):
        # the argument node is `arguments[i].<variant>.0`: recover i from the access path of the lazily instantiated AST
        v = ctx.deref(v); m_ = re.search(r'arguments\.\[(\d+)\]', v.name)
        if not m_: raise engine.EngineError(f'argument node without a position: {v.name}')
        return int(m_.group(1))
    def sub(kind):
        def h(ctx):
            i = arg_pos(ctx, ctx.args[2]); ctx.event('resolve', kind, i)
            nm = Atom(NAME(z3.IntVal(i)))
            return ctx.ret(models.result(SUB_OK(z3.IntVal(i)), Agg((nm, Agg((z3.IntVal(i), 'item'), 'Item'), Lazy(f'argspan{i}', 'SourceSpan'))), Opaque(f'sub-error{i}')))
        return h
    def m_spread(ctx):
        i = arg_pos(ctx, ctx.args[2]); ctx.event('spread', i)
        r = ctx.args[4]; eng_ = ctx.eng; dst, tgt = ctx.dst, ctx.tgt
        def ok_(st2, fr2):
            m_ = eng_.deref(st2, r); key = Atom(SPREAD_ADDS(z3.IntVal(i)))
            eng_.write_ref(st2, r, MapV(m_.entries + ((key, Agg((Agg((z3.IntVal(100 + i), 'item'), 'Item'), Lazy(f'spreadspan{i}', 'SourceSpan')))),)))
            return containers._finish(eng_, st2, fr2, dst, tgt, models.ok(UNIT))
        return ('forks', [(SPREAD_OK(z3.IntVal(i)), ok_), (Not(SPREAD_OK(z3.IntVal(i))), lambda s2, f2: containers._finish(eng_, s2, f2, dst, tgt, models.err(Opaque(f'spread-error{i}'))))])
    def m_resolve_package(ctx): return ctx.ret(models.result(pkg_ok, Lazy('pkgid', 'PackageId'), Opaque('package-error')))
    def m_graph_index(ctx): return ctx.ret(Ref(Lazy('package', 'Package'), ()))
    def m_pkg_ty(ctx): return ctx.ret(world)
    def m_types(ctx): return ctx.ret(Ref(types, ()))
    def m_world_index(ctx): return ctx.ret(Ref(types.kid('[world]', 'World'), ()))
    def m_instantiate(ctx): ctx.event('instantiate'); return ctx.ret(Agg((BitVecVal(7, 32),), 'NodeId'))
    def m_spans_insert(ctx): return ctx.ret(models.none())
    def m_item_node(ctx):
        it = ctx.deref(ctx.args[0]); return ctx.ret(Agg((it.f[0],), 'NodeId'))
    def m_set_arg(ctx):
        name = to_atom(ctx.eng, ctx.deref(ctx.args[2])).t; node = ctx.deref(ctx.args[3])
        k = len([t for t in ctx.st.trace if t[0] == 'set']); ctx.event('set', name, node.f[0])
        res = SET_RES(z3.IntVal(k)); E = 'InstantiationArgumentError'
        errs = decls_enum_variants(chk, 'InstantiationArgumentError')
        mk = lambda v, fs: models.err(Enum(E, bv64(errs.index(v)), {v: fs}))
        return ctx.forks([(res == 0, models.ok(UNIT)),
                          (res == 1, mk('InvalidArgumentName', (Opaque('node'), Atom(name), Opaque('package')))),
                          (And(res != 0, res != 1), mk('ArgumentTypeMismatch', (Atom(name), Opaque('source'))))])
    def m_name_eq(ctx):
        # `expr.package.name == self.0.directive.package.name`
        return ctx.ret(own)
    ov = [(r'^AstResolver::<.*>::inferred_instantiation_arg$', sub('inferred')), (r'^AstResolver::<.*>::named_instantiation_arg$', sub('named')),
          (r'^AstResolver::<.*>::spread_instantiation_arg$', m_spread), (r'^AstResolver::<.*>::resolve_package$', m_resolve_package),
          (r'^<CompositionGraph as Index<PackageId>>::index$', m_graph_index), (r'^Package::ty$', m_pkg_ty), (r'^CompositionGraph::types$', m_types),
          (r'^<wac_graph::wac_types::Types as Index<WorldId>>::index$', m_world_index), (r'^CompositionGraph::instantiate$', m_instantiate),
          (r'^HashMap::<NodeId, miette::SourceSpan>::insert$', m_spans_insert), (r'^Item::node$', m_item_node), (r'^CompositionGraph::set_instantiation_argument$', m_set_arg),
          (r'^<&str as PartialEq>::eq$', m_name_eq), (r'^BorrowedPackageKey::<.*>::from_name_and_version$', lambda ctx: ctx.ret(Opaque('key')))]
    eng = chk.engine(fns, decls, overrides=ov, vec_cap=max(K, nargs), loop_bound=K + nargs + 4); eng.atom_strings = True
    fname = resolver_fn(eng, 'new_expr')
    expr = Lazy('newexpr', "ast::NewExpr<'_>"); eo = [n for n, t in decls.structs['NewExpr'][1]]
    args = expr.kid(str(eo.index('arguments')))
    assert 'arguments' in args.name or True
    args.name = 'newexpr.arguments'      # the access path used by arg_pos
    eng.assume(args.len() == bv64(nargs))
    imports = types.kid('[world]').kid(str(wi)); eng.assume(ULE(imports.len(), bv64(K)))
    V = {v: decls.enum_index('InstantiationArgument', v) for v in ('Inferred', 'Spread', 'Named', 'Fill')}
    disc = [args.kid(f'[{i}]').disc for i in range(nargs)]
    for d in disc: eng.assume(ULT(d, bv64(4)))
    outs = run_fn(eng, fname, [Opaque('self'), Ref(Lazy('state', 'State'), ()), Ref(expr, ()), Opaque('packages')]); chk.account(eng, [fname])
    imp = [lazy_atom(imports.kid(f'[{k}].k')).t for k in range(K)]
    base = list(eng.assumptions) + [a != b for a, b in itertools.combinations(imp, 2)]
    is_ = lambda i, v: disc[i] == bv64(V[v])
    I = z3.IntVal
    # ---- reference evaluation of the table
    fill_bad = Or([And(is_(i, 'Fill'), BoolVal(i != nargs - 1)) for i in range(nargs)] + [BoolVal(False)])
    require_all = Not(Or([is_(i, 'Fill') for i in range(nargs)] + [BoolVal(False)]))
    named = [Or(is_(i, 'Inferred'), is_(i, 'Named')) for i in range(nargs)]
    def first_phase_error(upto):
        """an error occurs while processing arguments 0..upto-1 (sub-resolution failure, misplaced fill, duplicate)"""
        cs = []
        for i in range(upto):
            dup = Or([And(named[j], NAME(I(j)) == NAME(I(i))) for j in range(i)] + [BoolVal(False)])
            cs.append(Or(And(named[i], Or(Not(SUB_OK(I(i))), dup)), And(is_(i, 'Fill'), BoolVal(i != nargs - 1))))
        return Or(cs + [BoolVal(False)])
    phase1_err = first_phase_error(nargs)
    spread_err = Or([And(is_(i, 'Spread'), Not(SPREAD_OK(I(i)))) for i in range(nargs)] + [BoolVal(False)])
    bads = []
    for o in outs:
        if o.kind == 'bound': continue
        if o.kind != 'ret': bads.append(('panic', o, o.cond())); continue
        v = o.value; tr = o.st.trace; sets = [t for t in tr if t[0] == 'set']; res = [t for t in tr if t[0] in ('resolve', 'spread')]
        if 'Ok' in v.vars:
            cs = [Not(own), pkg_ok, Not(phase1_err), Not(spread_err), And([SET_RES(I(k)) == 0 for k in range(len(sets))])]
            # documented argument list: named / inferred arguments in source order, then what the spreads added, in source order
            items = [(named[i], NAME(I(i)), I(i)) for i in range(nargs)] + [(is_(i, 'Spread'), SPREAD_ADDS(I(i)), I(100 + i)) for i in range(nargs)]
            # a spread's name replaces nothing: if it collides with an existing argument the map keeps position and takes the new item (contract of the spread itself: it only adds missing names)
            cs.append(seq_match(items, sets, lambda it, e: And(it[1] == e[1], it[2] == e[2])))
            # every sub-resolution is made exactly once, spreads after all others
            cs.append(BoolVal([t for t in res if t[0] == 'resolve'] + [t for t in res if t[0] == 'spread'] == res))
            # without `...` every import of the package must be supplied
            present = lambda nm: Or([And(it[0], it[1] == nm) for it in items] + [BoolVal(False)])
            cs.append(Implies(require_all, And([Implies(ULT(bv64(k), imports.len()), present(imp[k])) for k in range(K)])))
            bads.append(('ok-but-wrong', o, And(o.cond(), Not(And(cs)))))
        else:
            e = v.vars['Err'][0]; cls = list(e.vars)[0] if isinstance(e, Enum) and e.vars else 'opaque'
            if cls == 'UnknownPackage': okc = own
            elif cls == 'FillArgumentNotLast': okc = And(Not(own), pkg_ok, fill_bad)
            elif cls == 'DuplicateInstantiationArg': okc = And(Not(own), pkg_ok, Or([And(named[i], named[j], NAME(I(i)) == NAME(I(j))) for i, j in itertools.combinations(range(nargs), 2)] + [BoolVal(False)]))
            elif cls == 'MissingComponentImport': okc = And(Not(own), pkg_ok, Not(phase1_err), Not(spread_err), BoolVal(len(sets) > 0), SET_RES(I(len(sets) - 1)) == 1)
            elif cls == 'MismatchedInstantiationArg': okc = And(Not(own), pkg_ok, Not(phase1_err), Not(spread_err), BoolVal(len(sets) > 0), SET_RES(I(len(sets) - 1)) != 0, SET_RES(I(len(sets) - 1)) != 1)
            elif cls == 'MissingInstantiationArg':
                items = [(named[i], NAME(I(i))) for i in range(nargs)] + [(is_(i, 'Spread'), SPREAD_ADDS(I(i))) for i in range(nargs)]
                present = lambda nm: Or([And(g, n_ == nm) for g, n_ in items] + [BoolVal(False)])
                missing = [And(ULT(bv64(k), imports.len()), Not(present(imp[k]))) for k in range(K)]
                fs = e.vars[cls]; got = to_atom(eng, eng.deref(o.st, fs[0])).t
                first = Or([And(missing[k], And([Not(missing[q]) for q in range(k)]), got == imp[k]) for k in range(K)])
                okc = And(Not(own), pkg_ok, Not(phase1_err), Not(spread_err), require_all, first)
            else: okc = And(Not(own), Or(Not(pkg_ok), phase1_err, spread_err))       # errors of the sub-resolutions are passed through
            bads.append((f'err-{cls}', o, And(o.cond(), Not(okc))))
    cls_count = {}
    for k_, o_, c_ in bads: cls_count[k_] = cls_count.get(k_, 0) + 1
    chk.notes.append(f'new_expr[{nargs}]: {len(outs)} paths, outcome classes {cls_count}')
    r, m = chk.obligation(f'new_expr with {nargs} argument(s): argument table = named/inferred arguments in order, then spread additions; duplicates, misplaced `...`, missing arguments and graph errors reported as documented; no panic',
                          base + [Or([c for _, _, c in bads] + [BoolVal(False)])], base=base)
    if r == 'sat':
        hit = [(k, o) for k, o, c in bads if ev_bool(m, c)]
        kinds = [next((vn for vn, vi in V.items() if ev_int(m, disc[i]) == vi), '?') for i in range(nargs)]
        chk.finding('new-expr-' + (hit[0][0] if hit else '?'), f'new_expr with arguments {kinds}: outcome `{hit[0][0] if hit else "?"}` contradicts the documented argument handling (rule-level counterexample over the MIR; {hit[0][1].site if hit and hit[0][1].site else ""})', {'rule': 'new_expr', 'arguments': kinds})

def err_class(e):
    return list(e.vars)[0] if isinstance(e, Enum) and e.vars else 'opaque'

def part_access(chk, fns, decls):
    """postfix_expr (`.id` and `["name"]`) and alias_export: the export selected is the documented one"""
    K = chk.pick(2, 3)
    chk.bounds['access'] = {'instance_exports_max': K, 'names': 'abstract identities'}
    wt = chk.decls('wac-types'); inst_idx = bv64(wt.enum_index('ItemKind', 'Instance'))
    ie = [n for n, t in wt.structs['Interface'][1]].index('exports')
    types = Lazy('gtypes', 'wac_graph::wac_types::Types'); kind = Lazy('kind', 'ItemKind'); item = Lazy('item', 'Item')
    fmi_some = z3.Bool('fmi_some'); fmi_name = Lazy('fmi_result', '&str')
    alias_some = Function('alias_some', IntSort(), BoolSort()); alias_ok = Function('alias_ok', IntSort(), BoolSort())
    def m_types(ctx): return ctx.ret(Ref(types, ()))
    def m_index(ctx):
        idv = ctx.deref(ctx.args[1]); return ctx.ret(Ref(types.kid(f'[{idv.name}]', 'Interface'), ()))
    def m_item_kind(ctx): return ctx.ret(kind)
    def m_item_node(ctx): return ctx.ret(Agg((BitVecVal(3, 32),), 'NodeId'))
    def m_desc(ctx): return ctx.ret(Opaque('desc'))
    def m_fmi(ctx):
        ctx.event('fmi', to_atom(ctx.eng, ctx.deref(ctx.args[0])).t); return ctx.ret(models.opt(fmi_some, fmi_name))
    def m_alias_export(ctx):
        t = to_atom(ctx.eng, ctx.deref(ctx.args[3])).t; ctx.event('alias_export', t, ctx.deref(ctx.args[2]))
        return ctx.ret(models.result(alias_ok(t), models.opt(alias_some(t), Agg((t, 'aliased'), 'Item')), Opaque('alias-error')))
    def m_alias_instance_export(ctx):
        t = to_atom(ctx.eng, ctx.deref(ctx.args[2])).t; ctx.event('graph.alias', ctx.deref(ctx.args[1]).f[0], t)
        return ctx.ret(models.ok(Agg((BitVecVal(9, 32),), 'NodeId')))
    common = [(r'^CompositionGraph::types$', m_types), (r'^<wac_graph::wac_types::Types as Index<InterfaceId>>::index$', m_index), (r'^Item::kind$', m_item_kind),
              (r'^Item::node$', m_item_node), (r'^ItemKind::desc$', m_desc), (r'^AstResolver::<.*>::find_matching_interface_name$', m_fmi)]
    id_order = [n for n, t in decls.structs['Ident'][1]]
    # ---- postfix_expr
    eng = chk.engine(fns, decls, overrides=common + [(r'^AstResolver::<.*>::alias_export$', m_alias_export)], vec_cap=K, loop_bound=K + 3); eng.atom_strings = True
    fname = resolver_fn(eng, 'postfix_expr')
    pe = Lazy('postfix', "ast::PostfixExpr<'_>")
    outs = run_fn(eng, fname, [Opaque('self'), Ref(Lazy('state', 'State'), ()), item, Ref(pe, ()), Lazy('parent_span', 'SourceSpan')]); chk.account(eng, [fname])
    ia = decls.enum_index('PostfixExpr', 'Access'); ina = decls.enum_index('PostfixExpr', 'NamedAccess')
    ao = [n for n, t in decls.structs['AccessExpr'][1]]; no = [n for n, t in decls.structs['NamedAccessExpr'][1]]
    so = [n for n, t in decls.structs['String'][1]]
    ident_t = lazy_atom(pe.kid('Access.0').kid(str(ao.index('id'))).kid(str(id_order.index('string')))).t
    str_t = lazy_atom(pe.kid('NamedAccess.0').kid(str(no.index('string'))).kid(str(so.index('value')))).t
    is_access = pe.disc == bv64(ia); is_inst = kind.disc == inst_idx
    want = If(is_access, If(fmi_some, lazy_atom(fmi_name).t, ident_t), str_t)
    base = list(eng.assumptions) + [ULT(pe.disc, bv64(2)), ULT(kind.disc, bv64(len(wt.enums['ItemKind'])))]
    bads = []; hist = {}
    for o in outs:
        if o.kind == 'bound': continue
        if o.kind != 'ret': bads.append(o.cond()); hist['panic'] = hist.get('panic', 0) + 1; continue
        v = o.value; al = [t for t in o.st.trace if t[0] == 'alias_export']
        called = BoolVal(len(al) == 1) if al else BoolVal(False)
        right = And(called, al[0][1] == want, BoolVal(al[0][2] is item)) if al else BoolVal(False)
        if 'Ok' in v.vars:
            it = v.vars['Ok'][0]; hist['ok'] = hist.get('ok', 0) + 1
            okc = And(right, alias_ok(want), alias_some(want), BoolVal(isinstance(it, Agg) and len(it.f) == 2 and it.f[1] == 'aliased'), (it.f[0] == want) if isinstance(it, Agg) and len(it.f) == 2 else BoolVal(False))
            # an `.id` access on a non-instance is reported by postfix_expr itself; `["name"]` leaves it to alias_export (by contract)
            okc = And(okc, Implies(is_access, is_inst))
        else:
            e = v.vars['Err'][0]; cls = err_class(e); hist[cls] = hist.get(cls, 0) + 1
            if cls == 'NotAnInstance': okc = And(is_access, Not(is_inst), BoolVal(not al))
            elif cls == 'MissingInstanceExport':
                got = to_atom(eng, eng.deref(o.st, e.vars[cls][0])).t
                okc = And(right, alias_ok(want), Not(alias_some(want)), got == want, Implies(is_access, is_inst))
            else: okc = And(right, Not(alias_ok(want)), Implies(is_access, is_inst))
        bads.append(And(o.cond(), Not(okc)))
    chk.notes.append(f'postfix_expr: {len(outs)} paths, outcome classes {hist}')
    r, m = chk.obligation('access expression: `.id` selects the unique last-segment match among the instance exports, else the export named id; `["s"]` selects the export named s verbatim; a missing export / non-instance is reported, nothing else is aliased', base + [Or(bads + [BoolVal(False)])], base=base)
    report(chk, r, run_access_battery(chk), 'access-selects-export', 'postfix_expr')
    # ---- alias_export
    eng2 = chk.engine(fns, decls, overrides=common + [(r'^CompositionGraph::alias_instance_export$', m_alias_instance_export)], vec_cap=K, loop_bound=K + 3); eng2.atom_strings = True
    fname2 = resolver_fn(eng2, 'alias_export')
    name = Lazy('name', '&str')
    outs2 = run_fn(eng2, fname2, [Opaque('self'), Ref(Lazy('state', 'State'), ()), item, name, Lazy('span', 'SourceSpan'), Lazy('operation', 'InstanceOperation')]); chk.account(eng2, [fname2])
    exports = types.kid(f'[{kind.kid("Instance.0").name}]').kid(str(ie))
    nt = lazy_atom(name).t
    has = Or([And(ULT(bv64(i), exports.len()), lazy_atom(exports.kid(f'[{i}].k')).t == nt) for i in range(K)])
    base2 = list(eng2.assumptions) + [ULE(exports.len(), bv64(K)), ULT(kind.disc, bv64(len(wt.enums['ItemKind'])))]
    bads2 = []; hist2 = {}
    for o in outs2:
        if o.kind == 'bound': continue
        if o.kind != 'ret': bads2.append(o.cond()); hist2['panic'] = hist2.get('panic', 0) + 1; continue
        v = o.value; ga = [t for t in o.st.trace if t[0] == 'graph.alias']
        if 'Ok' in v.vars:
            opt = v.vars['Ok'][0]
            if 'Some' in opt.vars and 'None' not in opt.vars:
                hist2['some'] = hist2.get('some', 0) + 1
                okc = And(is_inst, has, BoolVal(len(ga) == 1), (ga[0][2] == nt) if ga else BoolVal(False), (ga[0][1] == BitVecVal(3, 32)) if ga else BoolVal(False))
                node = opt.vars['Some'][0]
                okc = And(okc, BoolVal(isinstance(node, Enum) and 'Node' in node.vars and isinstance(node.vars['Node'][0], Agg) and z3.is_bv_value(node.vars['Node'][0].f[0]) and node.vars['Node'][0].f[0].as_long() == 9))
            elif 'None' in opt.vars and 'Some' not in opt.vars:
                hist2['none'] = hist2.get('none', 0) + 1
                okc = And(is_inst, Not(has), BoolVal(not ga))
            else: okc = BoolVal(False)
        else:
            cls = err_class(v.vars['Err'][0]); hist2[cls] = hist2.get(cls, 0) + 1
            okc = And(BoolVal(cls == 'NotAnInstance'), Not(is_inst), BoolVal(not ga))
        bads2.append(And(o.cond(), Not(okc)))
    chk.notes.append(f'alias_export: {len(outs2)} paths, outcome classes {hist2}')
    r, m = chk.obligation('alias_export: aliases exactly the named export of the given instance when the instance type has it, None when it has not, NotAnInstance otherwise', base2 + [Or(bads2 + [BoolVal(False)])], base=base2)
    if r == 'sat': chk.finding('alias-export-rule', 'alias_export deviates from the documented rule (rule-level counterexample over the MIR)', {'rule': 'alias_export'})

PROVIDER2 = '(component (type (instance)) (import "dummy" (instance (type 0))) (export "foo:bar/c@1.0.0" (instance 0)) (export "foo:baz/d" (instance 0)) (export "c" (instance 0)) (export "x" (instance 0)))'
PROVIDER3 = '(component (type (instance)) (import "dummy" (instance (type 0))) (export "foo:bar/c@1.0.0" (instance 0)) (export "foo:baz/c" (instance 0)) (export "foo:baz/d" (instance 0)))'
def doc_exports(nat):
    if not nat.get('ok'): return {'!error': nat.get('error') or str(nat)[:300]}
    return nat.get('exports')
ACCESS_BATTERY = [   # (what, document, packages, documented exports of the composition {name: node description})
    ('`.d` selects the unique export whose last segment is d', 'package t:doc; import dummy: interface {}; let p = new t:p { dummy }; export p.d as out;', {'t:p': PROVIDER2}, {'out': 'alias:foo:baz/d@inst:p'}),
    ('an export named exactly c wins over a last-segment match', 'package t:doc; import dummy: interface {}; let p = new t:p { dummy }; export p.c as out;', {'t:p': PROVIDER2}, {'out': 'alias:c@inst:p'}),
    ('`["foo:bar/c@1.0.0"]` is verbatim', 'package t:doc; import dummy: interface {}; let p = new t:p { dummy }; export p["foo:bar/c@1.0.0"] as out;', {'t:p': PROVIDER2}, {'out': 'alias:foo:bar/c@1.0.0@inst:p'}),
    ('`["c"]` does not match by last segment', 'package t:doc; import dummy: interface {}; let p = new t:p { dummy }; export p["d"] as out;', {'t:p': PROVIDER2}, None),
    ('an ambiguous last segment is not selected', 'package t:doc; import dummy: interface {}; let p = new t:p { dummy }; export p.c as out;', {'t:p': PROVIDER3}, None),
    ('version is stripped for the last-segment match', 'package t:doc; import dummy: interface {}; let p = new t:p { dummy }; export p.d as out; export p["foo:bar/c@1.0.0"] as out2;', {'t:p': PROVIDER3}, {'out': 'alias:foo:baz/d@inst:p', 'out2': 'alias:foo:bar/c@1.0.0@inst:p'}),
    ('access on a non-instance is an error', 'package t:doc; import f: func(); export f.x as out;', {}, None),
]
EXPORT_BATTERY = [
    ('export of an import uses the import name', 'package t:doc; import f as g: func(); export f;', {}, {'g': 'import:g'}),
    ('export of an accessed export uses the export name', 'package t:doc; import dummy: interface {}; let p = new t:p { dummy }; let q = p.x; export q;', {'t:p': PROVIDER2}, {'x': 'alias:x@inst:p'}),
    ('export of an instance with an interface id uses the id', 'package t:doc; import dummy: interface {}; let p = new t:p { dummy }; let q = p.d; export q;', {'t:p': PROVIDER2}, {'foo:baz/d': 'alias:foo:baz/d@inst:p'}),
    ('export of an instantiation needs `as`', 'package t:doc; import dummy: interface {}; let p = new t:p { dummy }; export p;', {'t:p': PROVIDER2}, None),
    ('`as` overrides the inferred name', 'package t:doc; import f as g: func(); export f as h;', {}, {'h': 'import:g'}),
    ('export spread exports every export not yet exported', 'package t:doc; import dummy: interface {}; let p = new t:p { dummy }; import f: func(); export f as x; export p...;', {'t:p': PROVIDER2},
     {'x': 'import:f', 'foo:bar/c@1.0.0': 'alias:foo:bar/c@1.0.0@inst:p', 'foo:baz/d': 'alias:foo:baz/d@inst:p', 'c': 'alias:c@inst:p'}),
    ('duplicate export name is an error', 'package t:doc; import f: func(); import g: func(); export f as x; export g as x;', {}, None),
    ('export conflicting with a definition is an error', 'package t:doc; type x = u32; import f: func(); export f as x;', {}, None),
    ('export spread with nothing left is an error', 'package t:doc; import dummy: interface {}; let p = new t:p { dummy }; export p...; export p...;', {'t:p': PROVIDER2}, None),
]
def run_doc_battery(chk, battery, fn):
    bad = []
    for what, doc, pkgs, exp in battery:
        case = {'op': 'resolve_doc', 'doc': doc, 'packages': pkgs}
        got = doc_exports(chk.native(case))
        chk.sample({'fn': fn, 'doc': doc, 'exports': got})
        if (exp is None) != (isinstance(got, dict) and '!error' in got) or (exp is not None and got != exp): bad.append((what, case, got, exp))
    return bad
def run_access_battery(chk): return run_doc_battery(chk, ACCESS_BATTERY, 'postfix_expr')

def part_export(chk, fns, decls):
    """infer_export_name, export_item, export_statement: the exported names are the documented ones"""
    K = chk.pick(2, 3)
    chk.bounds['export'] = {'instance_exports_max': K, 'names': 'abstract identities'}
    wt = chk.decls('wac-types'); inst_idx = bv64(wt.enum_index('ItemKind', 'Instance'))
    io = [n for n, t in wt.structs['Interface'][1]]; ii = io.index('id'); ie = io.index('exports')
    types = Lazy('gtypes', 'wac_graph::wac_types::Types'); kind = Lazy('kind', 'ItemKind'); item = Lazy('item', 'Item')
    has_import_name = z3.Bool('node_is_import'); import_name = Lazy('import_name', '&str')
    has_alias = z3.Bool('node_is_alias'); alias_name = Lazy('alias_export_name', '&str')
    def m_types(ctx): return ctx.ret(Ref(types, ()))
    def m_index(ctx):
        idv = ctx.deref(ctx.args[1]); return ctx.ret(Ref(types.kid(f'[{idv.name}]', 'Interface'), ()))
    def m_item_kind(ctx): return ctx.ret(kind)
    def m_item_node(ctx):
        it = ctx.deref(ctx.args[0])
        return ctx.ret(Agg((it.f[0] if isinstance(it, Agg) and len(it.f) == 2 and it.f[1] == 'aliased' else BitVecVal(3, 32),), 'NodeId'))
    def m_desc(ctx): return ctx.ret(Opaque('desc'))
    def m_get_import_name(ctx): return ctx.ret(models.opt(has_import_name, import_name))
    def m_get_alias_source(ctx): return ctx.ret(models.opt(And(Not(has_import_name), has_alias), Agg((Lazy('srcnode', 'NodeId'), alias_name))))      # a node is an import or an alias, never both
    common = [(r'^CompositionGraph::types$', m_types), (r'^<wac_graph::wac_types::Types as Index<InterfaceId>>::index$', m_index), (r'^Item::kind$', m_item_kind),
              (r'^Item::node$', m_item_node), (r'^ItemKind::desc$', m_desc), (r'^CompositionGraph::get_import_name$', m_get_import_name),
              (r'^CompositionGraph::get_alias_source$', m_get_alias_source)]
    nkinds = len(wt.enums['ItemKind'])
    # ---- infer_export_name
    eng = chk.engine(fns, decls, overrides=common, vec_cap=K, loop_bound=K + 3); eng.atom_strings = True
    fname = resolver_fn(eng, 'infer_export_name')
    outs = run_fn(eng, fname, [Opaque('self'), Ref(Lazy('state', 'State'), ()), item]); chk.account(eng, [fname])
    iface_id = types.kid(f'[{kind.kid("Instance.0").name}]').kid(str(ii))
    r1 = And(kind.disc == inst_idx, iface_id.disc == bv64(1))
    want_some = Or(r1, has_import_name, has_alias)
    want = If(r1, lazy_atom(iface_id.kid('Some.0')).t, If(has_import_name, lazy_atom(import_name).t, lazy_atom(alias_name).t))
    base = list(eng.assumptions) + [ULT(kind.disc, bv64(nkinds)), ULT(iface_id.disc, bv64(2))]
    bads = []; hist = {}
    for o in outs:
        if o.kind == 'bound': continue
        if o.kind != 'ret': bads.append(o.cond()); hist['panic'] = hist.get('panic', 0) + 1; continue
        v = o.value
        if 'Some' in v.vars and 'None' not in v.vars:
            hist['some'] = hist.get('some', 0) + 1
            bads.append(And(o.cond(), Not(And(want_some, to_atom(eng, eng.deref(o.st, v.vars['Some'][0])).t == want))))
        elif 'None' in v.vars and 'Some' not in v.vars:
            hist['none'] = hist.get('none', 0) + 1; bads.append(And(o.cond(), want_some))
        else: bads.append(o.cond())
    chk.notes.append(f'infer_export_name: {len(outs)} paths, outcome classes {hist}')
    r, m = chk.obligation('inferred export name: the interface id of an instance, else the import name, else the aliased export name, else none', base + [Or(bads + [BoolVal(False)])], base=base)
    bad_docs = run_doc_battery(chk, EXPORT_BATTERY, 'export_statement')
    verdicts = [(r, 'export-name-inference', 'infer_export_name')]
    # ---- export_item
    root_has = z3.Bool('root_scope_has_name'); nodekind = Lazy('nodekind', 'NodeKind'); EXPORT_RES = z3.Int('graph_export_result')
    gd = chk.decls('wac-graph'); def_idx = bv64(gd.enum_index('NodeKind', 'Definition')); nnk = len(gd.enums['NodeKind'])
    xerrs = decls_enum_variants(chk, 'ExportError')
    def m_root_scope(ctx): return ctx.ret(Ref(Lazy('rootscope', 'Scope'), ()))
    def m_scope_get(ctx):
        ctx.event('scope.get', to_atom(ctx.eng, ctx.deref(ctx.args[1])).t)
        return ctx.ret(models.opt(root_has, Agg((Agg((BitVecVal(5, 32), 'aliased'), 'Item'), Lazy('prevspan', 'SourceSpan')))))
    def m_graph_index(ctx): ctx.event('graph.index', ctx.deref(ctx.args[1]).f[0]); return ctx.ret(Ref(Lazy('gnode', 'Node'), ()))
    def m_node_kind(ctx): return ctx.ret(Ref(nodekind, ()))
    def m_node_item_kind(ctx): return ctx.ret(Lazy('nodeitemkind', 'ItemKind'))
    def m_export(ctx):
        node = ctx.deref(ctx.args[1]); name = to_atom(ctx.eng, ctx.deref(ctx.args[2])).t; ctx.event('graph.export', node.f[0], name)
        mk = lambda v, fs: models.err(Enum('ExportError', bv64(xerrs.index(v)), {v: fs}))
        return ctx.forks([(EXPORT_RES == 0, models.ok(UNIT)),
                          (EXPORT_RES == 1, mk('ExportAlreadyExists', (Atom(name), Agg((BitVecVal(8, 32),), 'NodeId')))),
                          (And(EXPORT_RES != 0, EXPORT_RES != 1), mk('InvalidExportName', (Atom(name), Opaque('source'))))])
    def m_spans_index(ctx): return ctx.ret(Ref(Lazy('prevexportspan', 'SourceSpan'), ()))
    def m_spans_insert(ctx): ctx.event('spans.insert', ctx.deref(ctx.args[1]).f[0]); return ctx.ret(models.none())
    ov_item = common + [(r'^State::root_scope$', m_root_scope), (r'^(?:resolution::)?Scope::get$', m_scope_get), (r'^<CompositionGraph as Index<NodeId>>::index$', m_graph_index),
                        (r'^Node::kind$', m_node_kind), (r'^Node::item_kind$', m_node_item_kind), (r'^CompositionGraph::export::<.*>$', m_export),
                        (r'^<HashMap<NodeId, miette::SourceSpan> as Index<&NodeId>>::index$', m_spans_index), (r'^HashMap::<NodeId, miette::SourceSpan>::insert$', m_spans_insert)]
    eng2 = chk.engine(fns, decls, overrides=ov_item, vec_cap=K, loop_bound=K + 3); eng2.atom_strings = True
    fname2 = resolver_fn(eng2, 'export_item')
    name = Lazy('export_name', 'std::string::String'); nt = lazy_atom(name).t
    outs2 = run_fn(eng2, fname2, [Opaque('self'), Ref(Lazy('state', 'State'), ()), item, name, Lazy('span', 'SourceSpan'), Lazy('show_hint', 'bool')]); chk.account(eng2, [fname2])
    base2 = list(eng2.assumptions) + [ULT(nodekind.disc, bv64(nnk))]
    conflict = And(root_has, nodekind.disc == def_idx)
    perr = decls_enum_variants_of(decls, 'Error'); ek = decls.enum_index('ExternKind', 'Export')
    bads2 = []; hist2 = {}; dbg2 = []
    for o in outs2:
        if o.kind == 'bound': continue
        if o.kind != 'ret': bads2.append(o.cond()); hist2['panic'] = hist2.get('panic', 0) + 1; dbg2.append(('panic', o.st.trace, o.site)); continue
        v = o.value; tr = o.st.trace; ex = [t for t in tr if t[0] == 'graph.export']; sg = [t for t in tr if t[0] == 'scope.get']; gi = [t for t in tr if t[0] == 'graph.index']
        looked = And(BoolVal(len(sg) == 1), sg[0][1] == nt) if sg else BoolVal(False)
        # the definition looked at is the node bound to the name in the root scope (node 5), not the exported item (node 3)
        right_node = And([g[1] == BitVecVal(5, 32) for g in gi] + [BoolVal(True)])
        exported = And(BoolVal(len(ex) == 1), ex[0][1] == BitVecVal(3, 32), ex[0][2] == nt) if ex else BoolVal(False)
        if 'Ok' in v.vars:
            hist2['ok'] = hist2.get('ok', 0) + 1
            si = [t for t in tr if t[0] == 'spans.insert']
            okc = And(looked, right_node, Not(conflict), exported, EXPORT_RES == 0, BoolVal(len(si) == 1), (si[0][1] == BitVecVal(3, 32)) if si else BoolVal(False))
        else:
            e = v.vars['Err'][0]; cls = err_class(e); hist2[cls] = hist2.get(cls, 0) + 1
            fs = e.vars.get(cls, ())
            def field(n):
                names_ = [f[0] for f in perr[cls]]; return eng2.deref(o.st, fs[names_.index(n)])
            if cls == 'ExportConflict': okc = And(looked, right_node, conflict, BoolVal(not ex), to_atom(eng2, field('name')).t == nt)
            elif cls == 'DuplicateExternName': okc = And(looked, right_node, Not(conflict), exported, EXPORT_RES == 1, to_atom(eng2, field('name')).t == nt, field('kind').disc == bv64(ek))
            elif cls == 'InvalidExternName': okc = And(looked, right_node, Not(conflict), exported, EXPORT_RES != 0, EXPORT_RES != 1, to_atom(eng2, field('name')).t == nt, field('kind').disc == bv64(ek))
            else: okc = BoolVal(False)
        bads2.append(And(o.cond(), Not(okc))); dbg2.append((cls if 'Err' in v.vars else 'ok', tr, okc))
    chk.notes.append(f'export_item: {len(outs2)} paths, outcome classes {hist2}')
    r, m = chk.obligation('export_item: a name bound to a definition in the root scope is a conflict; otherwise the item is exported under exactly the given name and the graph\'s verdict is reported as duplicate / invalid export name', base2 + [Or(bads2 + [BoolVal(False)])], base=base2)
    if r == 'sat' and os.environ.get('VERIF_DEBUG'):
        for (c_, tr_, ok_), b_ in zip(dbg2, bads2):
            if ev_bool(m, b_): print('DEBUG export_item hit', c_, tr_, ok_ if c_ == 'panic' else z3.simplify(ok_), flush=True)
    verdicts.append((r, 'export-item-rule', 'export_item'))
    # ---- export_statement
    expr_ok = z3.Bool('expr_ok'); infer_some = z3.Bool('infer_some'); infer_name = Lazy('inferred_export_name', '&str')
    EXPORTED = Function('already_exported', IntSort(), BoolSort()); ALIAS_OK = Function('alias_ok', IntSort(), BoolSort()); ITEM_OK = Function('export_item_ok', IntSort(), BoolSort())
    def m_expr(ctx): return ctx.ret(models.result(expr_ok, item, Opaque('expr-error')))
    def m_infer(ctx): ctx.event('infer', ctx.deref(ctx.args[2])); return ctx.ret(models.opt(infer_some, infer_name))
    def m_get_export(ctx):
        t = to_atom(ctx.eng, ctx.deref(ctx.args[1])).t; ctx.event('get_export', t)
        return ctx.ret(models.opt(EXPORTED(t), Agg((BitVecVal(6, 32),), 'NodeId')))
    def m_alias_export(ctx):
        t = to_atom(ctx.eng, ctx.deref(ctx.args[3])).t; ctx.event('alias_export', t, ctx.deref(ctx.args[2]))
        # contract (obligation above): Some exactly when the instance type has the export - the names handed over here come from that type
        return ctx.ret(models.result(ALIAS_OK(t), models.some(Agg((t, 'aliased'), 'Item')), Opaque('alias-error')))
    def m_export_item(ctx):
        it = ctx.deref(ctx.args[2]); t = to_atom(ctx.eng, ctx.deref(ctx.args[3])).t; ctx.event('export_item', it, t, ctx.deref(ctx.args[5]))
        return ctx.ret(models.result(ITEM_OK(t), UNIT, Opaque('export-item-error')))
    ov_stmt = common + [(r'^AstResolver::<.*>::expr$', m_expr), (r'^AstResolver::<.*>::infer_export_name$', m_infer), (r'^CompositionGraph::get_export$', m_get_export),
                        (r'^AstResolver::<.*>::alias_export$', m_alias_export), (r'^AstResolver::<.*>::export_item$', m_export_item)]
    eng3 = chk.engine(fns, decls, overrides=ov_stmt, vec_cap=K, loop_bound=K + 3); eng3.atom_strings = True
    fname3 = resolver_fn(eng3, 'export_statement')
    stmt = Lazy('stmt', "ast::ExportStatement<'_>"); so_ = [n for n, t in decls.structs['ExportStatement'][1]]
    opts = stmt.kid(str(so_.index('options')))
    outs3 = run_fn(eng3, fname3, [Opaque('self'), Ref(Lazy('state', 'State'), ()), Ref(stmt, ()), Opaque('packages')]); chk.account(eng3, [fname3])
    exports = types.kid(f'[{kind.kid("Instance.0").name}]').kid(str(ie))
    xn = [lazy_atom(exports.kid(f'[{i}].k')).t for i in range(K)]
    present = [ULT(bv64(i), exports.len()) for i in range(K)]
    O = {v: bv64(decls.enum_index('ExportOptions', v)) for v in ('None', 'Spread', 'Rename')}
    id_order = [n for n, t in decls.structs['Ident'][1]]; str_order = [n for n, t in decls.structs['String'][1]]
    xi = decls.enum_index('ExternName', 'Ident')
    ren = opts.kid('Rename.0')
    rename_t = If(ren.disc == bv64(xi), lazy_atom(ren.kid('Ident.0').kid(str(id_order.index('string')))).t, lazy_atom(ren.kid('String.0').kid(str(str_order.index('value')))).t)
    is_inst = kind.disc == inst_idx
    base3 = list(eng3.assumptions) + [ULT(opts.disc, bv64(3)), ULT(ren.disc, bv64(2)), ULT(kind.disc, bv64(nkinds)), ULE(exports.len(), bv64(K))] + [a != b for a, b in itertools.combinations(xn, 2)]
    # reference for the spread: walk the instance exports in order
    todo = [And(present[i], Not(EXPORTED(xn[i]))) for i in range(K)]
    fail = [And(todo[i], Or(Not(ALIAS_OK(xn[i])), Not(ITEM_OK(xn[i])))) for i in range(K)]
    def first_fail(i): return And(fail[i], And([Not(fail[j]) for j in range(i)] + [BoolVal(True)]))
    any_fail = Or(fail)
    bads3 = []; hist3 = {}
    for o in outs3:
        if o.kind == 'bound': continue
        if o.kind != 'ret': bads3.append(o.cond()); hist3['panic'] = hist3.get('panic', 0) + 1; continue
        v = o.value; tr = o.st.trace; xi_ = [t for t in tr if t[0] == 'export_item']; al = [t for t in tr if t[0] == 'alias_export']
        def single(t_, hint):
            return And(BoolVal(len(xi_) == 1), BoolVal(xi_[0][1] is item) if xi_ else BoolVal(False), (xi_[0][2] == t_) if xi_ else BoolVal(False),
                       (xi_[0][3] == BoolVal(hint)) if xi_ and z3.is_expr(xi_[0][3]) else BoolVal(bool(xi_) and xi_[0][3] is hint), BoolVal(not al))
        if 'Ok' in v.vars:
            hist3['ok'] = hist3.get('ok', 0) + 1
            c_none = And(opts.disc == O['None'], infer_some, single(lazy_atom(infer_name).t, True), ITEM_OK(lazy_atom(infer_name).t))
            c_ren = And(opts.disc == O['Rename'], single(rename_t, False), ITEM_OK(rename_t))
            # spread: exactly the exports not yet exported, in order, each aliased from the spread instance and exported under its own name
            items = [(todo[i], xn[i]) for i in range(K)]
            seq = seq_match(items, xi_, lambda it, e: And(it[1] == e[2], BoolVal(isinstance(e[1], Agg) and len(e[1].f) == 2 and e[1].f[1] == 'aliased'), (e[1].f[0] == it[1]) if isinstance(e[1], Agg) and len(e[1].f) == 2 else BoolVal(False)))
            seqa = seq_match(items, al, lambda it, e: And(it[1] == e[1], BoolVal(e[2] is item)))
            c_spread = And(opts.disc == O['Spread'], is_inst, Not(any_fail), Or(todo), seq, seqa)
            okc = And(expr_ok, Or(c_none, c_ren, c_spread))
        else:
            e = v.vars['Err'][0]; cls = err_class(e); hist3[cls] = hist3.get(cls, 0) + 1
            if cls == 'ExportRequiresAs': okc = And(expr_ok, opts.disc == O['None'], Not(infer_some), BoolVal(not xi_))
            elif cls == 'NotAnInstance': okc = And(expr_ok, opts.disc == O['Spread'], Not(is_inst), BoolVal(not xi_))
            elif cls == 'SpreadExportNoEffect': okc = And(expr_ok, opts.disc == O['Spread'], is_inst, Not(Or(todo)), BoolVal(not xi_))
            else:
                okc = Or(Not(expr_ok),
                         And(opts.disc == O['None'], infer_some, Not(ITEM_OK(lazy_atom(infer_name).t))),
                         And(opts.disc == O['Rename'], Not(ITEM_OK(rename_t))),
                         And(opts.disc == O['Spread'], is_inst, any_fail))
        bads3.append(And(o.cond(), Not(okc)))
    chk.notes.append(f'export_statement: {len(outs3)} paths, outcome classes {hist3}')
    r, m = chk.obligation('export statement: plain export uses the inferred name (error when none), `as` uses the given name verbatim, `...` exports every export of the instance not yet exported, in order, under its own name; ineffective spread / non-instance rejected', base3 + [Or(bads3 + [BoolVal(False)])], base=base3)
    verdicts.append((r, 'export-statement-rule', 'export_statement'))
    sat = [x for x in verdicts if x[0] == 'sat']
    if sat:
        for r_, role, fn in sat: report(chk, 'sat', bad_docs, role, fn)
    else: report(chk, 'unsat', bad_docs, 'export-statement-rule', 'export_statement')

def decls_enum_variants_of(decls, name):
    """{variant: [(field name, type), ...]} of an enum of the parser crate"""
    for path, vs in decls.enums_all.get(name, []):
        if 'resolution' in path: return {v: list(f) for v, k, f in vs}
    return {v: list(f) for v, k, f in decls.enums[name]}

def decls_enum_variants(chk, name):
    d = chk.decls('wac-graph')
    e = d.enums[name] if name in d.enums else d.enums[[k for k in d.enums if k.split('@')[0] == name][0]]
    return [v[0] if isinstance(v, (tuple, list)) else v for v in e]

def seq_match(items, events, key):
    cs = []; pos = z3.IntVal(0); m = len(events)
    for it in items:
        g = it[0]
        cs.append(Implies(g, Or([And(pos == j, key(it, events[j])) for j in range(m)] + [BoolVal(False)]))); pos = If(g, pos + 1, pos)
    cs.append(pos == m)
    return And(cs)

def body(chk):
    chk.assumptions += ['access / export kernels: Item::kind, Item::node, get_import_name, get_alias_source, Scope::get, CompositionGraph::{export, get_export, alias_instance_export} and the sibling kernels are arbitrary results (contracts); a node is an import or an alias, never both', 'names are abstract identities in the precedence and spread kernels (find_matching_interface_name is checked on real strings separately and enters the others as an arbitrary Option)',
                        'State::local_item, Item::kind, alias_export, expr are opaque with arbitrary results',
                        'new_expr: sub-resolutions by contract (arbitrary name / success per argument; a spread adds one arbitrary name), graph calls are events']
    fns = chk.load('wac-parser'); decls = chk.decls('wac-parser')
    chk.part('find_matching_interface_name', part_fmi, chk, fns, decls)
    chk.part('inferred / named argument names', part_inferred, chk, fns, decls)
    chk.part('spread arguments', part_spread, chk, fns, decls)
    for n in chk.pick((1, 2, 3), (1, 2, 3, 4)): chk.part(f'new_expr[{n}]', part_new_expr, chk, fns, decls, n)
    chk.part('access expressions', part_access, chk, fns, decls)
    chk.part('export statements', part_export, chk, fns, decls)

if __name__ == '__main__':
    harness.run_check('C04', body)
