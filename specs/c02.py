"""C02 — encoded wiring is exactly the composition graph (emission contracts of the graph encoder).

Encoded (real MIR, wac-graph dump), from arbitrary graph states satisfying the representation invariant of C06 and an arbitrary
node -> encoded-index table; every call into wasm_encoder's ComponentBuilder / NameMap / ComponentNameSection is an *event*:
  A. CompositionGraphEncoder::instantiation, twice in a row (two instantiation nodes i, j): the component instantiated is the
     package of the node (embedded / imported once per package *id*), the arguments are exactly the argument edges
     (import name of the argument index, kind and encoded index of the source node) followed by the implicit arguments.
  B. CompositionGraphEncoder::alias: instance = encoded index of the alias source, name = the designated export, kind = its kind.
  C. CompositionGraphEncoder::encode_names: every named node is recorded under its encoded index in the name map of its own kind,
     and each map is handed to the section method of that kind.
  D. CompositionGraphEncoder::encode (node loop + export loop; toposort, encode_imports and the per-node emission functions by contract).
The byte-level encoding (wasm_encoder itself, TypeEncoder), `definition`, `import` and `toposort` are outside the claim.
"""
import sys, os, re, json, itertools
sys.path.insert(0, os.path.dirname(os.path.dirname(os.path.abspath(__file__))))
import z3
from z3 import And, Or, Not, If, BoolVal, BitVecVal, ULT, ULE, UGT, UGE, Implies, Int, Function, IntSort, BoolSort, BitVec, Bool
from m2s import harness, engine, models, containers, graphmodel
from m2s.engine import Lazy, Agg, Enum, StrV, Ref, Opaque, bv64, UNIT, fresh_id
from m2s.containers import VecV, MapV, lazy_atom, Atom, to_atom
from m2s.graphmodel import node_index, idx_term, bv32, GMapV
from m2s.harness import ev_int, ev_bool, run_fn, Inconclusive
from specs import c06, c03
from specs.c06 import DEF, IMP, INST, ALIAS, E_ALIAS, E_ARG, E_DEP

def builder_overrides(log):
    """ComponentBuilder / name-section calls as events. Encoded indices are fresh symbolic-free constants 1000+k (k = event number)."""
    def ev(ctx, *e):
        k = len(ctx.st.trace); ctx.event(*e, k); return k
    def m_builder(ctx): return ctx.ret(Ref(Lazy('builder', 'ComponentBuilder'), ()))
    def m_component_raw(ctx):
        k = ev(ctx, 'component_raw', ctx.deref(ctx.args[2])); return ctx.ret(BitVecVal(1000 + k, 32))
    def m_import(ctx):
        k = ev(ctx, 'import', ctx.deref(ctx.args[1]), ctx.args[2]); return ctx.ret(BitVecVal(1000 + k, 32))
    def m_instantiate(ctx):
        args = ctx.deref(ctx.args[3]) if isinstance(ctx.args[3], Ref) else ctx.args[3]
        k = ev(ctx, 'instantiate', ctx.eng.term(ctx.args[2], 'u32'), args); return ctx.ret(BitVecVal(1000 + k, 32))
    def m_alias(ctx):
        k = ev(ctx, 'alias', ctx.args[2]); return ctx.ret(BitVecVal(1000 + k, 32))
    def m_export(ctx):
        k = ev(ctx, 'export', ctx.deref(ctx.args[1]), ctx.args[2], ctx.eng.term(ctx.args[3], 'u32')); return ctx.ret(BitVecVal(1000 + k, 32))
    def m_encoder_new(ctx): return ctx.ret(Opaque('type-encoder'))
    def m_encoder_component(ctx):
        k = ev(ctx, 'encode_component_type', ctx.deref(ctx.args[2])); return ctx.ret(BitVecVal(1000 + k, 32))
    def m_pkg_bytes(ctx):
        p = ctx.deref(ctx.args[0]); return ctx.ret(p.kid('!bytes', '&[u8]'))
    def m_pkg_import_name(ctx):
        p = ctx.deref(ctx.args[0]); return ctx.ret(p.kid('!unlocked-dep-name', 'std::string::String'))
    def m_into_kind(ctx): return ctx.ret(Agg((ctx.deref(ctx.args[0]),), 'ComponentExportKind'))
    def m_pkg_name(ctx):
        p = ctx.deref(ctx.args[0]); return ctx.ret(p.kid('!name', 'std::string::String'))      # two packages may share a name (versions)
    def m_id(ctx): return ctx.ret(ctx.args[0])
    return [(r'^(?:encoding::)?State::builder$', m_builder), (r'ComponentBuilder::component_raw$', m_component_raw), (r'ComponentBuilder::import$', m_import),
            (r'ComponentBuilder::instantiate::<.*>$', m_instantiate), (r'ComponentBuilder::alias$', m_alias), (r'ComponentBuilder::export$', m_export),
            (r'^(?:encoding::)?TypeEncoder::<.*>::new$', m_encoder_new), (r'^(?:encoding::)?TypeEncoder::<.*>::component$', m_encoder_component),
            (r'^(?:wac_types::)?Package::bytes$', m_pkg_bytes), (r'^(?:wac_types::)?Package::name$', m_pkg_name), (r'package_import_name$', m_pkg_import_name),
            (r'^<(?:wac_types::)?ItemKind as Into<ComponentExportKind>>::into$', m_into_kind),
            (r'^<std::string::String as Into<Cow<.*>>>::into$|^<&str as Into<Cow<.*>>>::into$', m_id)]

def setup(chk, fns, decls, NN, EE, MM, ARGS, P):
    eng, M_, st, gcell = c03.setup(chk, fns, decls, NN, EE, MM, ARGS, P, extra_ov=builder_overrides(None))
    return eng, M_, st, gcell

def state_value(decls, node_idx, packages=(), implicit=()):
    order = [n for n, t in decls.structs['State'][1]]
    f = [Opaque('state-field')] * len(order)
    f[order.index('node_indexes')] = MapV(tuple(node_idx), hashed=True)
    f[order.index('packages')] = MapV(tuple(packages), hashed=True)
    f[order.index('implicit_args')] = MapV(tuple(implicit), hashed=True)
    return Agg(f, 'State')

def sel(n, vals, default):
    r = default
    for i in reversed(range(len(vals))): r = If(n == bv32(i), vals[i], r)
    return r

# ---------------------------------------------------------------------------- A. instantiation (two in a row)

def part_instantiation(chk, fns, decls, case):
    i, j = case
    NN, EE, MM, ARGS, P = chk.pick((3, 2, 1, 2, 2), (4, 3, 1, 2, 2))
    chk.bounds['instantiation'] = {'node_slots': NN, 'edge_slots': EE, 'world_imports': ARGS, 'package_slots': P, 'implicit_args_per_node': 1}
    eng, M_, st, gcell = setup(chk, fns, decls, NN, EE, MM, ARGS, P)
    fname = c03.encoder_fn(eng, 'instantiation')
    for n in (i, j): eng.assume(And(M_.live[n], M_.kind[n] == bv64(INST)))
    for p in range(P):
        w = c03.world_imports(M_, decls, chk, p); eng.assume(ULE(w.len(), bv64(ARGS)))
        # part of the real invariant (the index of an argument edge comes from the world's import list): index < number of imports
        for e in range(EE):
            for n in range(NN):
                eng.assume(Implies(And(M_.elive[e], M_.ek[e] == bv64(E_ARG), M_.dst[e] == bv32(n), M_.pidx[n] == bv64(p)), ULT(M_.ei[e], w.len())))
    enc = [BitVec(f'encoded_index{n}', 32) for n in range(NN)]
    # one implicit argument recorded for node i (arbitrary name / kind / index), none for j
    imp_name = Lazy('implicit.name', 'std::string::String'); imp_kind = Lazy('implicit.kind', 'ComponentExportKind'); imp_idx = BitVec('implicit.index', 32)
    has_implicit = Bool('has_implicit')
    define = Bool('define_components')
    options = Agg((define, BoolVal(True), Enum('Option', bv64(0), {'None': ()})), 'EncodeOptions')
    oo = [n for n, t in decls.structs['EncodeOptions'][1]]
    ov = [None] * len(oo); ov[oo.index('define_components')] = define; ov[oo.index('validate')] = BoolVal(True); ov[oo.index('processor')] = Enum('Option', bv64(0), {'None': ()})
    options = Agg(ov, 'EncodeOptions')
    slf = Ref(st.alloc(Agg((Ref(gcell),), 'CompositionGraphEncoder')))
    outs_all = []
    for with_implicit in (False, True):
        st1 = st.fork()
        implicit = ((node_index(bv32(i)), VecV((Agg((imp_name, imp_kind, imp_idx)),))),) if with_implicit else ()
        scell = st1.alloc(state_value(decls, [(node_index(bv32(n)), enc[n]) for n in range(NN)], (), implicit))
        def call(st_, n):
            fn = eng.fns[fname]; fr = engine.Frame(fn)
            node_ref = Ref(st_.alloc(M_.node_value(n)))
            for (loc, ty), a in zip(fn.params, [slf, Ref(scell), node_index(bv32(n)), node_ref, options]): fr.env[loc] = st_.alloc(a)
            st_.frames = [fr]
        call(st1, i); n0 = len(eng.out); eng.run(st1); first = eng.out[n0:]
        for o in first:
            if o.kind != 'ret': outs_all.append((with_implicit, o, None)); continue
            st2 = o.st.fork(); st2.ghost = dict(getattr(o.st, 'ghost', {}))
            st2.trace.append(('first-returned', eng.term(o.value, 'u32')))
            call(st2, j); n1 = len(eng.out); eng.run(st2)
            for o2 in eng.out[n1:]: outs_all.append((with_implicit, o2, o))
    chk.account(eng, [fname])
    base = list(eng.assumptions)
    rb, _ = chk.solve(f'instantiation {case}: case is non-empty', base)
    if rb != 'sat': chk.notes.append(f'instantiation {case}: empty case'); return
    wt = chk.decls('wac-types')
    pre_edges = [(M_.elive[e], M_.src[e], M_.dst[e], M_.ek[e], M_.ei[e]) for e in range(EE)]
    def expected_args(n):
        """[(guard, name term, kind identity of source, encoded index of source)] for the argument edges into node n"""
        out = []
        for (l, s_, d_, k_, idx) in pre_edges:
            for p in range(P):
                w = c03.world_imports(M_, decls, chk, p)
                for a in range(ARGS):
                    g = And(l, d_ == bv32(n), k_ == bv64(E_ARG), idx == bv64(a), M_.pidx[n] == bv64(p))
                    out.append((g, lazy_atom(w.kid(f'[{a}].k')).t, s_, sel(s_, enc, BitVecVal(0, 32))))
        return out
    def arg_items(o, args):
        items = args.items if isinstance(args, VecV) else None
        if items is None: raise Inconclusive(f'instantiate arguments are not a vector: {args!r}')
        out = []
        for it in items:
            it = eng.deref(o.st, it); nm = it.f[0]
            while isinstance(nm, Enum) and nm.vars: nm = list(nm.vars.values())[0][0]        # Cow::Borrowed / Cow::Owned
            nm = to_atom(eng, eng.deref(o.st, nm)).t
            kind = it.f[1]; kind_src = kind.f[0] if isinstance(kind, Agg) and kind.ty == 'ComponentExportKind' else kind
            out.append((nm, kind_src, eng.term(it.f[2], 'u32')))
        return out
    same_pkg = And(M_.pidx[i] == M_.pidx[j], M_.pgen[i] == M_.pgen[j])
    bads = []
    for with_implicit, o, first in outs_all:
        if o.kind == 'bound': continue
        if o.kind != 'ret': bads.append(('panic', o, o.cond())); continue
        tr = o.st.trace
        comps = [t for t in tr if t[0] in ('component_raw', 'import')]; insts = [t for t in tr if t[0] == 'instantiate']
        cs = [BoolVal(len(insts) == 2)]
        if len(insts) == 2:
            c_i, c_j = insts[0][1], insts[1][1]
            # one embedded / imported component per package id; each instantiation uses the component of its own package
            cs.append(If(same_pkg, BoolVal(len(comps) == 1), BoolVal(len(comps) == 2)))
            cs.append((c_i == c_j) == same_pkg)
            for t, n in zip(comps, (i, j)):
                # the component embedded first is the package of node i; a second one is the package of node j
                which = [(p, M_.pkg[p]) for p in range(P)]
                if t[0] == 'component_raw':
                    cs.append(define); cs.append(Or([And(M_.pidx[n] == bv64(p), BoolVal(t[1] is pk.kid('!bytes'))) for p, pk in which]))
                else:
                    cs.append(Not(define)); cs.append(Or([And(M_.pidx[n] == bv64(p), BoolVal(t[1] is pk.kid('!unlocked-dep-name'))) for p, pk in which]))
            if comps: cs.append(c_i == BitVecVal(1000 + comps[0][-1], 32))
            if len(comps) == 2: cs.append(c_j == BitVecVal(1000 + comps[1][-1], 32))
            for t, n, impl in zip(insts, (i, j), (with_implicit, False)):
                got = arg_items(o, t[2])
                exp = expected_args(n)
                n_edge = len(got) - (1 if impl else 0)
                cs.append(BoolVal(n_edge >= 0))
                if n_edge < 0: continue
                edge_got = got[:n_edge]
                # every argument edge appears (name of the argument index, kind and index of the source node) and nothing else
                for (g, nm, src, ei) in exp:
                    cs.append(Implies(g, Or([And(nm == a_nm, ei == a_idx, sel(src, [BoolVal(a_kind is M_.ik[x]) for x in range(NN)], BoolVal(False))) for (a_nm, a_kind, a_idx) in edge_got] + [BoolVal(False)])))
                cs.append(z3.Sum([If(g, 1, 0) for (g, _, _, _) in exp] + [z3.IntVal(0)]) == len(edge_got))
                if impl:
                    a_nm, a_kind, a_idx = got[-1]
                    cs.append(And(a_nm == lazy_atom(imp_name).t, a_idx == imp_idx, BoolVal(a_kind is imp_kind)))
        bads.append(('ok-but-wrong', o, And(o.cond(), Not(And(cs)))))
    r, m = chk.obligation(f'instantiation of nodes {i} then {j}: component per package id, arguments = argument edges (name of the index, kind and encoded index of the source) + implicit arguments; no panic',
                          base + [Or([c for _, _, c in bads] + [BoolVal(False)])], base=base)
    if r == 'sat':
        hit = [(k, o) for k, o, c in bads if ev_bool(m, c)]
        kind = hit[0][0] if hit else '?'
        tr = [(t[0],) + tuple(str(x)[:40] for x in t[1:2]) for t in hit[0][1].st.trace] if hit else []
        same = ev_bool(m, same_pkg)
        if kind != 'panic' and not same and confirm_two_versions(chk): return
        site = hit[0][1].site if hit else None
        chk.finding('instantiation-' + kind, f'instantiation of nodes {i},{j} (same package: {same}): outcome `{kind}` at {site} / {hit[0][1].value if hit else None} contradicts the graph (rule-level counterexample over the MIR; events {tr[:8]})', {'rule': 'instantiation', 'nodes': [i, j]})

def confirm_two_versions(chk):
    """native: two versions of one package name, both instantiated and exported; the encoded component must embed two components"""
    def comp(v): return f'(component (core module $m (func (export "f") (result i32) (i32.const {v}))) (core instance $i (instantiate $m)) (func $f (result u32) (canon lift (core func $i "f"))) (export "f" (func $f)))'
    steps = [['package', 't:dep@1.0.0', comp(1)], ['package', 't:dep@2.0.0', comp(2)], ['instantiate', 't:dep@1.0.0'], ['instantiate', 't:dep@2.0.0'],
             ['alias', 2, 'f'], ['alias', 3, 'f'], ['export', 4, 'f1'], ['export', 5, 'f2'], ['encode', True, True]]
    nat = chk.native({'op': 'graph', 'steps': steps, 'inspect': True})
    res = (nat.get('results') or [{}])[-1]
    chk.sample({'script': steps, 'encode': {k: res.get(k) for k in ('ok', 'len', 'components', 'instances')}})
    if res.get('components') is not None and res.get('components') != 2:
        chk.finding('instantiation-wrong-package', f'two versions of one package name instantiated in one composition: the encoded component embeds {res.get("components")} component(s) and instantiates {res.get("instances")}  [script: {json.dumps(steps)[:600]}]', {'op': 'graph', 'steps': steps})
        return True
    return False

# ---------------------------------------------------------------------------- B. alias

def part_alias(chk, fns, decls, case):
    n = case
    NN, EE, MM, ARGS, P = chk.pick((3, 2, 1, 2, 1), (4, 3, 1, 2, 2))
    chk.bounds['alias'] = {'node_slots': NN, 'edge_slots': EE, 'instance_exports': 2}
    eng, M_, st, gcell = setup(chk, fns, decls, NN, EE, MM, ARGS, P)
    fname = c03.encoder_fn(eng, 'alias')
    eng.assume(And(M_.live[n], M_.kind[n] == bv64(ALIAS)))
    wt = chk.decls('wac-types'); ei = [x for x, t in wt.structs['Interface'][1]].index('exports')
    # part of the real invariant (the index of an alias edge comes from the instance's export list): index < number of exports; export names are distinct
    for e in range(EE):
        for x in range(NN):
            iface = M_.gtypes.kid(f'[{M_.ik[x].kid("Instance.0").name}]').kid(str(ei))
            eng.assume(Implies(And(M_.elive[e], M_.ek[e] == bv64(E_ALIAS), M_.src[e] == bv32(x)), ULT(M_.ei[e], iface.len())))
            eng.assume(lazy_atom(iface.kid('[0].k')).t != lazy_atom(iface.kid('[1].k')).t)
    enc = [BitVec(f'encoded_index{x}', 32) for x in range(NN)]
    scell = st.alloc(state_value(decls, [(node_index(bv32(x)), enc[x]) for x in range(NN)]))
    slf = Ref(st.alloc(Agg((Ref(gcell),), 'CompositionGraphEncoder')))
    fn = eng.fns[fname]; fr = engine.Frame(fn)
    for (loc, ty), a in zip(fn.params, [slf, Ref(scell), node_index(bv32(n))]): fr.env[loc] = st.alloc(a)
    st.frames = [fr]; eng.run(st); outs = eng.out; chk.account(eng, [fname])
    base = list(eng.assumptions)
    rb, _ = chk.solve(f'alias [{n}]: case is non-empty', base)
    if rb != 'sat': chk.notes.append(f'alias [{n}]: empty case'); return
    wt = chk.decls('wac-types'); ei = [x for x, t in wt.structs['Interface'][1]].index('exports')
    pre_edges = [(M_.elive[e], M_.src[e], M_.dst[e], M_.ek[e], M_.ei[e]) for e in range(EE)]
    bads = []
    for o in outs:
        if o.kind == 'bound': continue
        if o.kind != 'ret': bads.append(('panic', o, o.cond())); continue
        al = [t for t in o.st.trace if t[0] == 'alias']
        cs = [BoolVal(len(al) == 1)]
        if len(al) == 1:
            a = al[0][1]; a = eng.deref(o.st, a) if isinstance(a, Ref) else a
            fs = a.vars.get('InstanceExport') if isinstance(a, Enum) else (a.f if isinstance(a, Agg) and 'InstanceExport' in (a.ty or '') else None)
            if not fs: cs.append(BoolVal(False))
            else:
                # declared field order of wasm_encoder::Alias::InstanceExport: instance, kind, name
                inst = eng.term(fs[0], 'u32'); kind = fs[1]; name = to_atom(eng, eng.deref(o.st, fs[2])).t
                ok_any = []
                for (l, s_, d_, k_, idx) in pre_edges:
                    for x in range(NN):
                        iface = M_.gtypes.kid(f'[{M_.ik[x].kid("Instance.0").name}]').kid(str(ei))
                        for q in range(2):
                            g = And(l, d_ == bv32(n), k_ == bv64(E_ALIAS), s_ == bv32(x), idx == bv64(q))
                            kq = iface.kid(f'[{q}].v'); kind_src = kind.f[0] if isinstance(kind, Agg) and kind.ty == 'ComponentExportKind' else kind
                            kq2 = iface.kids.get(f'[@{iface.kid(f"[{q}].k").name}].v')       # the same entry reached through a lookup by its own key
                            ok_any.append(And(g, inst == enc[x], name == lazy_atom(iface.kid(f'[{q}].k')).t, BoolVal(kind_src is kq or (kq2 is not None and kind_src is kq2))))
                cs.append(Or(ok_any + [BoolVal(False)]))
        bads.append(('ok-but-wrong', o, And(o.cond(), Not(And(cs)))))
    r, m = chk.obligation(f'alias of node {n}: instance = encoded index of the alias source, name and kind = the designated export of that instance; no panic',
                          base + [Or([c for _, _, c in bads] + [BoolVal(False)])], base=base)
    if r == 'sat':
        hit = [(k, o) for k, o, c in bads if ev_bool(m, c)]
        chk.finding('alias-' + (hit[0][0] if hit else '?'), f'alias emission of node {n} contradicts the graph (rule-level counterexample over the MIR)', {'rule': 'alias', 'node': n})

# ---------------------------------------------------------------------------- C. encode_names

SECTIONS = ['types', 'funcs', 'instances', 'components', 'core_modules', 'values']
KIND_OF_SECTION = {'types': 'Type', 'funcs': 'Func', 'instances': 'Instance', 'components': 'Component', 'core_modules': 'Module', 'values': 'Value'}

def part_names(chk, fns, decls):
    NN, EE, MM, ARGS, P = chk.pick((2, 1, 1, 2, 1), (3, 1, 1, 2, 1))
    chk.bounds['encode_names'] = {'node_slots': NN}
    wt = chk.decls('wac-types')
    def m_namemap_new(ctx):
        k = len([t for t in ctx.st.trace if t[0] == 'namemap']); ctx.event('namemap', k); return ctx.ret(Agg((BitVecVal(k, 32),), 'NameMap'))
    def m_append(ctx):
        mp = ctx.deref(ctx.args[0]); ctx.event('append', z3.simplify(mp.f[0]).as_long(), ctx.eng.term(ctx.args[1], 'u32'), to_atom(ctx.eng, ctx.deref(ctx.args[2])).t); return ctx.ret(UNIT)
    def m_is_empty(ctx):
        mp = ctx.deref(ctx.args[0])
        if isinstance(mp, Agg) and mp.ty == 'NameMap':
            k = z3.simplify(mp.f[0]).as_long(); return ctx.ret(BoolVal(not any(t[0] == 'append' and t[1] == k for t in ctx.st.trace)))
        return ctx.ret(BoolVal(not any(t[0] == 'section' for t in ctx.st.trace)))
    def m_section(ctx):
        which = re.search(r'ComponentNameSection::(\w+)$', ctx.callee).group(1); mp = ctx.deref(ctx.args[1])
        ctx.event('section', which, z3.simplify(mp.f[0]).as_long()); return ctx.ret(UNIT)
    def m_section_new(ctx): return ctx.ret(Agg((), 'ComponentNameSection'))
    def m_noop(ctx): return ctx.ret(UNIT)
    def m_as_custom(ctx): return ctx.ret(Opaque('custom-section'))
    ov = [(r'NameMap::new$', m_namemap_new), (r'NameMap::append$', m_append), (r'NameMap::is_empty$|ComponentNameSection::is_empty$', m_is_empty),
          (r'ComponentNameSection::(?:types|funcs|instances|components|core_modules|values|core_funcs|core_instances|core_types|core_tables|core_memories|core_globals)$', m_section),
          (r'ComponentNameSection::new$', m_section_new), (r'ComponentNameSection::as_custom$', m_as_custom), (r'ComponentBuilder::custom_section(?:::<.*>)?$', m_noop)]
    eng, M_, st, gcell = c03.setup(chk, fns, decls, NN, EE, MM, ARGS, P, extra_ov=ov)
    fname = c03.encoder_fn(eng, 'encode_names')
    # node names: the Model leaves `name` None; here every live node may carry a name
    has_name = [Bool(f'has_name{x}') for x in range(NN)]; names = [Lazy(f'node_name{x}', 'std::string::String') for x in range(NN)]
    g = st.heap[gcell]; order = [x for x, t in decls.structs['CompositionGraph'][1]]; gv = g.f[order.index('graph')]
    no = [x for x, t in decls.structs['Node'][1]]
    nodes2 = []
    for x, (l, w) in enumerate(gv.nodes):
        f = list(w.f); f[no.index('name')] = Enum('Option', If(has_name[x], bv64(1), bv64(0)), {'None': (), 'Some': (names[x],)}); nodes2.append((l, Agg(f, 'Node')))
    gf = list(g.f); gf[order.index('graph')] = graphmodel.GraphV(nodes2, gv.edges); st.heap[gcell] = Agg(gf, 'CompositionGraph')
    enc = [BitVec(f'encoded_index{x}', 32) for x in range(NN)]
    scell = st.alloc(state_value(decls, [(node_index(bv32(x)), enc[x]) for x in range(NN)]))
    slf = Ref(st.alloc(Agg((Ref(gcell),), 'CompositionGraphEncoder')))
    fn = eng.fns[fname]; fr = engine.Frame(fn)
    for (loc, ty), a in zip(fn.params, [slf, Ref(scell), Ref(Lazy('builder', 'ComponentBuilder'), ())]): fr.env[loc] = st.alloc(a)
    for x in range(NN): eng.assume(ULT(M_.ik[x].disc, bv64(len(wt.enums['ItemKind']))))
    st.frames = [fr]; eng.run(st); outs = eng.out; chk.account(eng, [fname])
    base = list(eng.assumptions)
    bads = []
    for o in outs:
        if o.kind == 'bound': continue
        if o.kind != 'ret': bads.append(o.cond()); continue
        tr = o.st.trace; apps = [t for t in tr if t[0] == 'append']; secs = [t for t in tr if t[0] == 'section']
        sec_of_map = {t[2]: t[1] for t in secs}
        cs = [BoolVal(len(sec_of_map) == len(secs))]
        # every named live node: one append, under its encoded index and name, into a map that is handed to the section of the node's own kind
        for x in range(NN):
            named = And(M_.live[x], has_name[x])
            hits = []
            for t in apps:
                sec = sec_of_map.get(t[1])
                if sec is None or sec not in KIND_OF_SECTION: continue
                hits.append(And(t[2] == enc[x], t[3] == lazy_atom(names[x]).t, M_.ik[x].disc == bv64(wt.enum_index('ItemKind', KIND_OF_SECTION[sec]))))
            cs.append(Implies(named, Or(hits + [BoolVal(False)])))
        cs.append(z3.Sum([If(And(M_.live[x], has_name[x]), 1, 0) for x in range(NN)] + [z3.IntVal(0)]) == len(apps))
        bads.append(And(o.cond(), Not(And(cs))))
    r, m = chk.obligation('encode_names: every named node is recorded once, under its encoded index and name, in the name map of its own kind', base + [Or(bads + [BoolVal(False)])], base=base)
    if r == 'sat':
        confirm_names(chk)

def confirm_names(chk):
    steps = [['package', 't:p0', '(component (core module $m) (export "m" (core module $m)))'], ['instantiate', 't:p0'], ['alias', 1, 'm'], ['name', 2, 'the-module'], ['export', 2, 'm'], ['encode', True, True]]
    nat = chk.native({'op': 'graph', 'steps': steps, 'inspect': True}); res = (nat.get('results') or [{}])[-1]
    chk.sample({'script': steps, 'names': res.get('names')})
    nm = res.get('names')
    if nm is not None and not any(sec == 'core_modules' and 'the-module' in vals for sec, vals in nm):
        chk.finding('names-wrong-section', f'a named node of core-module kind is not recorded in the core-module name map: name section = {nm}  [script: {json.dumps(steps)}]', {'op': 'graph', 'steps': steps})
    else:
        chk.finding('names-rule', f'encode_names records a named node under the wrong kind or index (rule-level counterexample over the MIR; native probe: {nm})', {'rule': 'encode_names'})

# ---------------------------------------------------------------------------- D. the node loop and the export loop of `encode`

def part_encode_loop(chk, fns, decls):
    NN, EE, MM, ARGS, P = chk.pick((3, 1, 2, 2, 1), (4, 1, 3, 2, 1))
    chk.bounds['encode loop'] = {'node_slots (all live)': NN, 'export_map_entries': MM, 'topological order': 'node order'}
    wt = chk.decls('wac-types')
    enc_imp = [BitVec(f'import_index{x}', 32) for x in range(NN)]
    def node_arg(ctx, v):
        t = z3.simplify(idx_term(ctx.eng, ctx.st, v))
        if not z3.is_bv_value(t): raise engine.EngineError('emission called with a symbolic node index')
        return t.as_long()
    def m_toposort(ctx): return ctx.ret(models.ok(VecV(tuple(node_index(bv32(x)) for x in range(NN)))))
    def m_encode_imports(ctx):
        # contract (C03 part C): the explicit import nodes get their encoded index
        nodes = ctx.args[2]; nodes = ctx.deref(nodes) if isinstance(nodes, Ref) else nodes
        r = ctx.args[1]; stv = ctx.deref(r); order = [n for n, t in decls.structs['State'][1]]
        ni = stv.f[order.index('node_indexes')]; ents = list(ni.entries); passed = []
        for it in nodes.items:
            x = node_arg(ctx, it); passed.append(x); ents.append((node_index(bv32(x)), enc_imp[x]))
        f = list(stv.f); f[order.index('node_indexes')] = MapV(tuple(ents), hashed=True); ctx.eng.write_ref(ctx.st, r, Agg(f, 'State'))
        ctx.event('encode_imports', tuple(passed)); return ctx.ret(models.ok(UNIT))
    def emit(kind, pos):
        def h(ctx):
            x = node_arg(ctx, ctx.args[pos]) if pos is not None else None
            if pos is None:
                # definition(state, node: &Node): identify the node by its export name lazy
                nd = ctx.deref(ctx.args[2]); x = [q for q in range(NN) if nd.f[4].vars.get('Some', (None,))[0] is M_.expname[q]]
                x = x[0] if len(x) == 1 else None
            k = len(ctx.st.trace); ctx.event('emit', kind, x, k); return ctx.ret(BitVecVal(2000 + k, 32))
        return h
    def m_state_new(ctx): return ctx.ret(state_value(decls, ()))
    def m_noop(ctx): return ctx.ret(UNIT)
    def m_finish(ctx): return ctx.ret(VecV(()))
    ov = [(r'CompositionGraphEncoder::<.*>::toposort$', m_toposort), (r'CompositionGraphEncoder::<.*>::encode_imports$', m_encode_imports),
          (r'CompositionGraphEncoder::<.*>::definition$', emit('definition', None)), (r'CompositionGraphEncoder::<.*>::instantiation$', emit('instantiation', 2)),
          (r'CompositionGraphEncoder::<.*>::alias$', emit('alias', 2)), (r'CompositionGraphEncoder::<.*>::encode_names$', m_noop),
          (r'^(?:encoding::)?State::new$', m_state_new), (r'ComponentBuilder::finish$', m_finish)]
    eng, M_, st, gcell = c03.setup(chk, fns, decls, NN, EE, MM, ARGS, P, extra_ov=ov + builder_overrides(None))
    fname = c03.encoder_fn(eng, 'encode')
    for x in range(NN): eng.assume(M_.live[x])
    oo = [n for n, t in decls.structs['EncodeOptions'][1]]
    ovv = [None] * len(oo); ovv[oo.index('define_components')] = Bool('define_components'); ovv[oo.index('validate')] = BoolVal(False); ovv[oo.index('processor')] = Enum('Option', bv64(0), {'None': ()})
    fn = eng.fns[fname]; fr = engine.Frame(fn)
    for (loc, ty), a in zip(fn.params, [Agg((Ref(gcell),), 'CompositionGraphEncoder'), Agg(ovv, 'EncodeOptions')]): fr.env[loc] = st.alloc(a)
    st.frames = [fr]; eng.run(st); outs = eng.out; chk.account(eng, [fname])
    base = list(eng.assumptions)
    kinds = {}
    for o in outs: kinds[o.kind] = kinds.get(o.kind, 0) + 1
    chk.notes.append(f'encode loop: {len(outs)} paths {kinds}; sample trace {[t[:3] for t in outs[len(outs) // 2].st.trace][:10]}')
    KIND = {'definition': DEF, 'instantiation': INST, 'alias': ALIAS}
    exps = [(l, lazy_atom(k).t, v) for (l, k, v) in M_.exports]
    bads = []
    for o in outs:
        if o.kind == 'bound': continue
        if o.kind != 'ret' or 'Ok' not in o.value.vars: bads.append(('not-ok', o, o.cond())); continue
        tr = o.st.trace
        ei = [t for t in tr if t[0] == 'encode_imports']; em = [t for t in tr if t[0] == 'emit']; ex = [t for t in tr if t[0] == 'export']
        cs = [BoolVal(len(ei) == 1)]
        if len(ei) == 1:
            passed = ei[0][1]
            # the import nodes (and only they) are passed to encode_imports, in order; every other node is emitted once, in order, by the function of its kind
            for x in range(NN): cs.append((M_.kind[x] == bv64(IMP)) == BoolVal(x in passed))
            cs.append(BoolVal(list(passed) == sorted(passed)))
            emitted = [t[2] for t in em]
            cs.append(BoolVal(None not in emitted and emitted == sorted(emitted) and len(set(emitted)) == len(emitted)))
            for x in range(NN): cs.append((M_.kind[x] != bv64(IMP)) == BoolVal(x in emitted))
            for t in em:
                if t[2] is not None: cs.append(M_.kind[t[2]] == bv64(KIND[t[1]]))
            index_of = lambda x: ([BitVecVal(2000 + t[3], 32) for t in em if t[2] == x] + [enc_imp[x]])[0]
            # exports: every entry of the export map whose node is not a definition, in map order, bound to the node's kind and encoded index
            items = []
            for (l, nm, v) in exps:
                items.append((And(l, sel(v, [M_.kind[x] != bv64(DEF) for x in range(NN)], BoolVal(False))), nm, v))
            def key(it, e):
                nm = to_atom(eng, e[1]).t; kind = e[2]; kind_src = kind.f[0] if isinstance(kind, Agg) and kind.ty == 'ComponentExportKind' else kind
                return And(it[1] == nm, e[3] == sel(it[2], [index_of(x) for x in range(NN)], BitVecVal(0, 32)), sel(it[2], [BoolVal(kind_src is M_.ik[x]) for x in range(NN)], BoolVal(False)))
            cs.append(c03.seq_matches(items, ex, key))
        bads.append(('ok-but-wrong', o, And(o.cond(), Not(And(cs)))))
    r, m = chk.obligation('encode: import nodes go to encode_imports, every other node is emitted once in topological order by the function of its kind; every non-definition export is bound to its node (kind, encoded index), in export order',
                          base + [Or([c for _, _, c in bads] + [BoolVal(False)])], base=base)
    if r == 'sat':
        hit = [(k, o) for k, o, c in bads if ev_bool(m, c)]
        chk.finding('encode-loop-' + (hit[0][0] if hit else '?'), f'the node / export loop of encode contradicts the graph (rule-level counterexample over the MIR; outcome {hit[0][1].kind if hit else None} {hit[0][1].site if hit else None})', {'rule': 'encode'})

# ---------------------------------------------------------------------------- E. definition (type definitions are exported under their own name)

def part_definition(chk, fns, decls):
    """`definition(state, node)`: the type of the node is encoded by the encoder of its kind (or the index of an already exported aliased type is reused),
    exported as a type under the node's export name, and the exported index is recorded for the type"""
    wt = chk.decls('wac-types')
    tkey = wt.find_enum(['component', 'Type'], 'Resource')[0]; tvars = [v[0] for v in wt.enums[tkey]]
    kinds = [v[0] for v in wt.enums['ItemKind']]
    vkey = wt.find_enum(['component', 'ValueType'], 'Defined')[0]; vvars = [v[0] for v in wt.enums[vkey]]
    dkey = wt.find_enum(['component', 'DefinedType'], 'Alias')[0]; dvars = [v[0] for v in wt.enums[dkey]]
    export_name = Lazy('export_name', 'std::string::String'); kind = Lazy('item_kind', 'ItemKind')
    known_ty = Lazy('known.type', 'wac_types::Type'); known_idx = BitVec('known.type_index', 32)
    def m_builder(ctx): return ctx.ret(Ref(Lazy('builder', 'ComponentBuilder'), ()))
    def m_export(ctx): ctx.event('export', to_atom(ctx.eng, ctx.deref(ctx.args[1])).t, ctx.args[2], ctx.eng.term(ctx.args[3], 'u32')); return ctx.ret(BitVecVal(3000, 32))
    def enc(which, idx):
        def h(ctx): ctx.event('encode', which, ctx.deref(ctx.args[2])); return ctx.ret(BitVecVal(idx, 32))
        return h
    def m_types(ctx): return ctx.ret(Ref(Lazy('gtypes', 'Types'), ()))
    def m_defined(ctx):
        idv = ctx.deref(ctx.args[1]); return ctx.ret(Ref(Lazy(f'defined[{idv.name}]', 'DefinedType'), ()))
    def m_desc(ctx): return ctx.ret(Opaque('desc'))
    ov = [(r'^(?:encoding::)?State::builder$', m_builder), (r'ComponentBuilder::export$', m_export), (r'^(?:encoding::)?TypeEncoder::<.*>::new$', lambda ctx: ctx.ret(Opaque('type-encoder'))),
          (r'^(?:encoding::)?TypeEncoder::<.*>::ty$', enc('ty', 501)), (r'^(?:encoding::)?TypeEncoder::<.*>::interface$', enc('interface', 502)), (r'^(?:encoding::)?TypeEncoder::<.*>::world$', enc('world', 503)),
          (r'CompositionGraph::types$', m_types), (r'^<wac_types::Types as Index<(?:wac_types::)?DefinedTypeId>>::index$', m_defined), (r'^(?:wac_types::)?ItemKind::desc$', m_desc)]
    eng = chk.engine(fns, decls, overrides=ov, loop_bound=4); eng.atom_strings = True
    def eq_hook(a, b):
        t = (a.ty or b.ty or '')
        if 'Type' in t or t.endswith('Id') or t == '': return lazy_atom(a).t == lazy_atom(b).t
        return None
    eng.eq_hook = eq_hook
    def eq_hook2(a, b):
        # `Type::Value(*aliased)` built by the MIR, compared with a key of the type-index table: identity of the aliased value type
        return c06.type_ident(a) == c06.type_ident(b) if (isinstance(a, Enum) or isinstance(b, Enum)) else None
    eng.eq_hook2 = eq_hook2
    fname = c03.encoder_fn(eng, 'definition')
    so = [x for x, t in decls.structs['Scope'][1]]; sto = [x for x, t in decls.structs['State'][1]]; no = [x for x, t in decls.structs['Node'][1]]
    scope = [Opaque('scope-field')] * len(so); scope[so.index('type_indexes')] = MapV(((known_ty, known_idx),))
    sf = [Opaque('state-field')] * len(sto); sf[sto.index('current')] = Agg(scope, 'Scope'); sf[sto.index('scopes')] = VecV(())
    st = engine.State(); scell = st.alloc(Agg(sf, 'State'))
    nf = [Opaque('node-field')] * len(no); nf[no.index('item_kind')] = kind; nf[no.index('export')] = Enum('Option', bv64(1), {'None': (), 'Some': (export_name,)})
    fn = eng.fns[fname]; fr = engine.Frame(fn)
    for (loc, ty), a in zip(fn.params, [Ref(st.alloc(Agg((Ref(Lazy('graph', 'CompositionGraph'), ()),), 'CompositionGraphEncoder'))), Ref(scell), Ref(st.alloc(Agg(nf, 'Node')))]): fr.env[loc] = st.alloc(a)
    ty = kind.kid('Type.0'); vt = ty.kid('Value.0'); did = vt.kid('Defined.0'); dsrc = Lazy(f'defined[{did.name}]', 'DefinedType'); aliased = dsrc.kid('Alias.0')
    eng.assume(ULT(kind.disc, bv64(len(kinds)))); eng.assume(ULT(ty.disc, bv64(len(tvars)))); eng.assume(ULT(vt.disc, bv64(len(vvars)))); eng.assume(ULT(dsrc.disc, bv64(len(dvars)))); eng.assume(ULT(aliased.disc, bv64(len(vvars))))
    st.frames = [fr]; eng.run(st); outs = eng.out; chk.account(eng, [fname])
    base = list(eng.assumptions)
    is_type = kind.disc == bv64(kinds.index('Type')); T = lambda v: ty.disc == bv64(tvars.index(v))
    alias_of_defined = And(T('Value'), vt.disc == bv64(vvars.index('Defined')), dsrc.disc == bv64(dvars.index('Alias')), aliased.disc == bv64(vvars.index('Defined')))
    reuse = And(alias_of_defined, c06.type_ident(aliased) == c06.type_ident(known_ty))
    bads = []
    for o in outs:
        if o.kind == 'bound': continue
        if o.kind != 'ret':
            # documented panics: a node that is not a type, or a resource
            bads.append(And(o.cond(), is_type, Not(T('Resource')))); continue
        tr = o.st.trace; ex = [t for t in tr if t[0] == 'export']; en = [t for t in tr if t[0] == 'encode']
        cs = [is_type, Not(T('Resource')), BoolVal(len(ex) == 1)]
        if len(ex) == 1:
            cs.append(ex[0][1] == lazy_atom(export_name).t)
            k = ex[0][2]; k = eng.deref(o.st, k) if isinstance(k, Ref) else k
            kname = list(k.vars)[0] if isinstance(k, Enum) and k.vars else (k.ty.split('::')[-1] if isinstance(k, Agg) and k.ty else str(k))
            cs.append(BoolVal('Type' in str(kname)))
            if not en:
                cs.append(reuse); cs.append(ex[0][3] == known_idx)
            else:
                cs.append(BoolVal(len(en) == 1)); cs.append(Not(reuse))
                which = en[0][1]
                cs.append({'ty': Or(T('Func'), T('Value'), T('Module')), 'interface': T('Interface'), 'world': T('World')}[which])
                cs.append(ex[0][3] == BitVecVal({'ty': 501, 'interface': 502, 'world': 503}[which], 32))
            post = o.st.heap[scell].f[sto.index('current')].f[so.index('type_indexes')].entries
            # the exported index is recorded for the defined type
            cs.append(Or([And(c06.type_ident(k_) == c06.type_ident(ty), eng.term(v_, 'u32') == BitVecVal(3000, 32)) for k_, v_ in post] + [BoolVal(False)]))
            cs.append(eng.term(o.value, 'u32') == BitVecVal(3000, 32))
        bads.append(And(o.cond(), Not(And(cs))))
    r, m = chk.obligation('definition: the type is encoded by the encoder of its kind (an alias of an already exported type reuses its index), exported as a type under the node\'s name, and the exported index is recorded',
                          base + [Or(bads + [BoolVal(False)])], base=base)
    if r == 'sat':
        chk.finding('definition-emission', 'definition exports a type under the wrong name / kind / index or does not record the exported index (rule-level counterexample over the MIR)', {'rule': 'definition'})

def body(chk):
    chk.assumptions += ['graph states satisfy the representation invariant of C06; the node -> encoded index table is arbitrary',
                        'every ComponentBuilder / NameMap / ComponentNameSection / TypeEncoder call is an event; the bytes wasm_encoder produces for them are NOT decided',
                        '`toposort` (the loop takes node order), `definition`, `import`, TypeEncoder and both dependency modes beyond the choice component_raw / import are outside the claim']
    fns = chk.load('wac-graph'); decls = chk.decls('wac-graph')
    c06.IK_INSTANCE = decls.enum_index('ItemKind', 'Instance')
    NN = chk.pick(3, 4)
    parts = [(f'instantiation{(i, j)}', part_instantiation, (fns, decls, (i, j))) for i, j in ([(0, 1), (1, 0), (1, 2)] if chk.quick else itertools.permutations(range(NN), 2))]
    parts += [(f'alias[{n}]', part_alias, (fns, decls, n)) for n in range(1, NN)]
    parts += [('encode_names', part_names, (fns, decls)), ('encode loop', part_encode_loop, (fns, decls)), ('definition', part_definition, (fns, decls))]
    chk.parallel(parts)

if __name__ == '__main__':
    harness.run_check('C02', body)
