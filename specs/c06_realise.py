"""State realiser for C06: rebuilds a solver model of a CompositionGraph pre-state through the PUBLIC API (as a script for the native
`graph` replay op), then appends the operation under test. Returns (script, index of the first operation step) or (None, reason)."""
import z3
from m2s.containers import lazy_atom

DEF, IMP, INST, ALIAS = 0, 1, 2, 3
E_ALIAS, E_ARG, E_DEP = 0, 1, 2
FUNC = {'func': {'params': [], 'result': None}}

def _ev(m, t): return m.eval(t, model_completion=True)
def _b(m, t): return z3.is_true(_ev(m, t))
def _i(m, t): return _ev(m, t).as_long()

class Names:
    def __init__(s, m): s.m = m; s.seen = {}
    def of(s, lazy):
        v = _i(s.m, lazy_atom(lazy).t)
        if v not in s.seen: s.seen[v] = f'n{len(s.seen)}'
        return s.seen[v]

def snapshot(M, m):
    nm = Names(m)
    nodes = []
    for i in range(M.NN):
        nodes.append(dict(live=_b(m, M.live[i]), kind=_i(m, M.kind[i]), imp=nm.of(M.impname[i]), sat=[_b(m, x) for x in M.sat[i]],
                          haspkg=_b(m, M.haspkg[i]), pidx=_i(m, M.pidx[i]), hasexp=_b(m, M.hasexp[i]), exp=nm.of(M.expname[i])))
    edges = []
    for j in range(M.EE):
        if _b(m, M.elive[j]): edges.append(dict(src=_i(m, M.src[j]), dst=_i(m, M.dst[j]), k=_i(m, M.ek[j]), idx=_i(m, M.ei[j]), slot=j))
    exports = [(nm.of(k), _i(m, v)) for (l, k, v) in M.exports if _b(m, l)]
    imports = [(nm.of(k), _i(m, v)) for (l, k, v) in M.imports if _b(m, l)]
    pk = [dict(some=_b(m, M.pk_some[p]), gen=_i(m, M.pk_gen[p])) for p in range(M.P)]
    return nm, nodes, edges, exports, imports, pk

def describe(M, m, argterms):
    nm, nodes, edges, exports, imports, pk = snapshot(M, m)
    K = ['def', 'import', 'inst', 'alias']
    ns = [f'{i}:{K[n["kind"]] if n["kind"] < 4 else n["kind"]}' + (f'({n["imp"]})' if n['kind'] == IMP else '') + (f' sat={[k for k, b in enumerate(n["sat"]) if b]}' if n['kind'] == INST else '')
          + (f' pkg={n["pidx"]}' if n['haspkg'] else '') + (f' export={n["exp"]}' if n['hasexp'] else '') for i, n in enumerate(nodes) if n['live']]
    es = [f'{e["src"]}->{e["dst"]} {["alias","arg","dep"][e["k"]] if e["k"] < 3 else e["k"]}' + (f'({e["idx"]})' if e['k'] != E_DEP else '') for e in edges]
    args = {}
    for k, t in argterms.items():
        try: args[k] = nm.of(t) if hasattr(t, 'kids') else _i(m, t)
        except Exception: args[k] = '?'
    return f'nodes [{"; ".join(ns)}] edges [{", ".join(es)}] exports {exports} imports {imports} packages {pk} args {args}'

def realise(M, m, opname, argterms, extra=None):
    extra = extra or {}
    nm, nodes, edges, exports, imports, pk = snapshot(M, m)
    A = M.ARGS
    steps = []; ref = {}
    imps = ' '.join(f'(import "a{k}" (func))' for k in range(A))
    exps = ' '.join(f'(export "e{k}" (func {k % max(A, 1)}))' for k in range(2)) if A else ''
    wat = f'(component {imps} {exps})'
    for p in range(M.P):
        if pk[p]['some'] and pk[p]['gen'] != 0: return None, f'package slot {p} has generation {pk[p]["gen"]} (only generation 0 is realised)'
        steps.append(['package', f't:p{p}', wat])
    for p in range(M.P):
        if not pk[p]['some']: steps.append(['unregister', f't:p{p}'])
    # types of definition nodes (and of the type a define_type operation is about to define), in dependency order
    defs = [i for i, n in enumerate(nodes) if n['live'] and n['kind'] == DEF]
    deps = {i: sorted({e['src'] for e in edges if e['k'] == E_DEP and e['dst'] == i}) for i in defs}
    tnodes = list(defs)
    if opname == 'define_type':
        if extra.get('same_as'): newname = f'T{extra["same_as"][0]}'
        else:
            tnodes.append('new'); deps['new'] = list(extra.get('deps', []))
            for i in extra.get('rdeps', []): deps[i] = deps[i] + ['new']
            newname = 'Tnew'
    done = []
    while len(done) < len(tnodes):
        prog = False
        for i in tnodes:
            if i in done: continue
            if all(d in done for d in deps[i]):
                body = [{'ref': f'T{d}'} for d in deps[i]] or [{'prim': 'u8'}]
                pad = (tnodes.index(i) + 1)
                steps.append(['mktype', f'T{i}', {'tuple': body + [{'prim': 'u16'}] * pad}]); done.append(i); prog = True
        if not prog: return None, 'cyclic dependency edges'
    alias_src = {e['src'] for e in edges if e['k'] == E_ALIAS}
    arg_src = {e['src'] for e in edges if e['k'] == E_ARG}
    inst_item = {'instance': [['e0', FUNC], ['e1', FUNC]]}
    for i, n in enumerate(nodes):
        if not n['live']:
            steps.append(['import', f'dead{i}', FUNC]); ref[i] = len(steps) - 1; continue
        if n['kind'] == IMP:
            if i in alias_src and i in arg_src: return None, f'import node {i} is both an alias source (instance) and a function argument'
            steps.append(['import', n['imp'], inst_item if i in alias_src else FUNC])
        elif n['kind'] == INST:
            if not n['haspkg'] or n['pidx'] >= M.P or not pk[n['pidx']]['some']: return None, f'instantiation node {i} without a live package'
            steps.append(['instantiate', f't:p{n["pidx"]}'])
        elif n['kind'] == ALIAS:
            inc = [e for e in edges if e['k'] == E_ALIAS and e['dst'] == i]
            if len(inc) != 1: return None, f'alias node {i} has {len(inc)} alias edges'
            s_ = inc[0]['src']
            if s_ >= i or s_ not in ref: return None, f'alias node {i} precedes its source {s_}'
            if inc[0]['idx'] >= 2: return None, 'alias export index beyond the two exports of the realiser packages'
            steps.append(['alias', ref[s_], f'e{inc[0]["idx"]}'])
        elif n['kind'] == DEF:
            if not n['hasexp']: return None, f'definition node {i} without an export name'
            steps.append(['define_ref', n['exp'], f'T{i}'])
        else: return None, f'node {i} has kind {n["kind"]}'
        ref[i] = len(steps) - 1
    for e in edges:
        if e['k'] == E_ARG: steps.append(['set_arg', ref[e['dst']], f'a{e["idx"]}', ref[e['src']]])
    # export names: every entry of the export map; the node's own export field is the last name given to it
    by_node = {}
    for name, n in exports: by_node.setdefault(n, []).append(name)
    for i, n in enumerate(nodes):
        if not n['live']: continue
        names = by_node.get(i, [])
        if n['kind'] == DEF:
            names = [x for x in names if x != n['exp']]
            for x in names: return None, 'definition node exported under a second name (not realised)'
            continue
        if n['hasexp']:
            if n['exp'] not in names: return None, f'node {i}: export field {n["exp"]} missing from the export map'
            for x in [y for y in names if y != n['exp']] + [n['exp']]: steps.append(['export', ref[i], x])
        elif names:
            for x in names: steps.append(['export', ref[i], x])
            steps.append(['export', ref[i], 'zz-tmp']); steps.append(['unexport', ref[i]])
    for i, n in enumerate(nodes):
        if not n['live']: steps.append(['remove', ref[i]])
    final = len(steps)
    g = lambda k: argterms[k]
    node = lambda k: ref.get(_i(m, g(k)))
    try:
        if opname == 'none': pass
        elif opname == 'remove_node': steps.append(['remove', node('node')])
        elif opname == 'unexport': steps.append(['unexport', node('node')])
        elif opname == 'export': steps.append(['export', node('node'), nm.of(g('name'))])
        elif opname == 'import': steps.append(['import', nm.of(g('name')), FUNC])
        elif opname in ('set_instantiation_argument', 'unset_instantiation_argument'):
            inst = _i(m, g('inst'))
            # the argument name: resolve through the model of the world's import list when possible, else by position
            steps.append(['set_arg' if opname.startswith('set') else 'unset_arg', ref.get(inst), extra.get('argname', 'zz-none'), node('src')])
        elif opname == 'alias_instance_export': steps.append(['alias', node('inst'), extra.get('export', 'zz-none')])
        elif opname == 'unregister_package': steps.append(['unregister', f't:p{_i(m, g("pidx"))}'])
        elif opname == 'instantiate': steps.append(['instantiate', f't:p{_i(m, g("pidx"))}'])
        elif opname == 'define_type': steps.append(['define_ref', nm.of(g('name')), newname])
        else: return None, f'no realiser for {opname}'
    except KeyError as e:
        return None, f'argument {e} not realisable'
    if any(x is None for st_ in steps[final:] for x in st_): return None, 'operation argument refers to a node that was not built'
    steps += [['imports'], ['encode']]
    return steps, final
