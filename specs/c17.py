"""C17 — package discovery finds every package resolution will ask for.

Encoded (real MIR, wac-resolver dump): PackageVisitor::{visit, import_statement, type_statement, interface_item, world_item,
world_item_path, expr}, wac_resolver::packages and its closure.
The reference is derived from the AST's own type definitions (wac-parser/src/ast/*.rs, re-read on every run): every access path
from `Document` to a `PackagePath` / `PackageName` is a position that must be reported.
"""
import sys, os, re
sys.path.insert(0, os.path.dirname(os.path.dirname(os.path.abspath(__file__))))
import z3
from z3 import And, Or, Not, If, BoolVal, BitVecVal, ULT, ULE, UGT, UGE, Implies
from m2s import harness, engine, models, containers, rustdecl
from m2s.engine import Lazy, Agg, Enum, StrV, Ref, Opaque, bv64, UNIT, fresh_id
from m2s.containers import VecV, MapV, lazy_atom, Atom
from m2s.harness import ev_int, ev_bool, run_fn, Inconclusive

TARGETS = {'PackagePath', 'PackageName'}

def ast_paths(decls, depth):
    """all access paths Document -> PackagePath/PackageName; a path is a list of steps:
       ('f', idx) struct field | ('v', enum, variant, idx) | ('vec',) | ('opt',) | ('box',)   plus the final type name"""
    is_ast = lambda n: '/wac-parser/src/ast' in decls.where.get(n, '')
    out = []
    def steps_of_type(t, base):
        """expand wrappers of a field type; yields (steps, inner type name)"""
        t = t.strip()
        m = re.match(r'^Vec<(.*)>$', t)
        if m:
            for s_, n in steps_of_type(m.group(1), base): yield [('vec',)] + s_, n
            return
        m = re.match(r'^Option<(.*)>$', t)
        if m:
            for s_, n in steps_of_type(m.group(1), base): yield [('opt',)] + s_, n
            return
        m = re.match(r'^Box<(.*)>$', t)
        if m:
            for s_, n in steps_of_type(m.group(1), base): yield [('box',)] + s_, n
            return
        m = re.match(r"^(\w+)(?:<'a>|<'_>)?$", t)
        if m: yield [], m.group(1)
    def walk(n, path, count):
        fields = []
        if n in decls.structs and is_ast(n):
            for i, (fn_, ft) in enumerate(decls.structs[n][1]): fields.append((('f', i, fn_), ft))
        if n in decls.enums and is_ast(n):
            for v, k, fs in decls.enums[n]:
                for i, (fn_, ft) in enumerate(fs): fields.append((('v', n, v, i), ft))
        for st, ft in fields:
            for wr, inner in steps_of_type(ft, n):
                p2 = path + [st] + wr
                if inner in TARGETS:
                    out.append((p2, inner))
                elif (inner in decls.structs or inner in decls.enums) and is_ast(inner) and count.get(inner, 0) < depth:
                    c2 = dict(count); c2[inner] = c2.get(inner, 0) + 1
                    walk(inner, p2, c2)
    walk('Document', [], {'Document': 1})
    return out

def show(path):
    o = []
    for s_ in path:
        if s_[0] == 'f': o.append(f'.{s_[2] or s_[1]}')
        elif s_[0] == 'v': o.append(f'::{s_[2]}')
        elif s_[0] == 'vec': o.append('[i]')
        elif s_[0] == 'opt': o.append('?')
    return ''.join(o)

def realise_path(decls, root, path, vec_index):
    """navigate the lazily instantiated document along `path`; returns (target lazy, constraints, vectors on the path)
    vec_index: dict position-in-path -> element index (default 0)"""
    cur = root; cs = []; vecs = []
    for pos, s_ in enumerate(path):
        if s_[0] == 'f': cur = cur.kid(str(s_[1]))
        elif s_[0] == 'v':
            idx = decls.enum_index(s_[1], s_[2]); cs.append(cur.disc == bv64(idx)); cur = cur.kid(f'{s_[2]}.{s_[3]}')
        elif s_[0] == 'vec':
            j = vec_index.get(pos, 0)
            vecs.append((pos, cur, j)); cs.append(('len', pos, cur.len() == bv64(j + 1))); cur.extra['cap'] = 2; cur = cur.kid(f'[{j}]')
        elif s_[0] == 'opt':
            cs.append(cur.disc == bv64(1)); cur = cur.kid('Some.0')
        elif s_[0] == 'box':
            cur = cur.kid('0').kid('0').kid('*')
    lens = [c for c in cs if isinstance(c, tuple)]
    cs = [c[2] if isinstance(c, tuple) else c for c in cs]
    return cur, cs, (vecs, lens)

def mirror_sibling(decls, root, path, vpos):
    """constraints making element [0] of the vector at path position vpos a copy (same shape) of element [1] along the rest of the path"""
    cs = []
    tgt0, c0, _ = realise_path(decls, root, path, {})               # all indices 0
    # element 0 of the chosen vector follows the same suffix; vectors before vpos use index 0, the chosen one index 0 as well
    return tgt0, [c for c in c0 if True]

def make_engine(chk, fns, decls, trace_cb=True):
    def m_call_mut(ctx):
        f = ctx.deref(ctx.args[0])
        tup = ctx.args[1]
        if isinstance(f, engine.Closure):
            return containers.call_closure(ctx.eng, ctx.st, ctx.fr, ctx.args[0], tuple(tup.f), lambda eng, st, fr, kd, rv: containers._finish(eng, st, fr, ctx.dst, ctx.tgt, rv))
        name, ver, span = tup.f
        ctx.event('cb', ctx.deref(name), ver, span)
        return ctx.ret(BoolVal(True))
    def m_pns(ctx):
        p = ctx.deref(ctx.args[0]); return ctx.ret(Opaque('pns:' + p.name))
    def m_key(ctx):
        return ctx.ret(Agg((ctx.deref(ctx.args[0]), ctx.args[1]), 'BorrowedPackageKey'))
    ov = [(r'^<T as FnMut<.*>>::call_mut$', m_call_mut),
          (r'^wac_parser::PackagePath::<.*>::package_name_span$', m_pns),
          (r'^BorrowedPackageKey::<.*>::from_name_and_version$', m_key)]
    eng = chk.engine(fns, decls, overrides=ov, vec_cap=1, loop_bound=4, rec_bound=3)
    eng.atom_strings = True
    def eq_hook(a, b):
        t = (a.ty or b.ty or '')
        if 'Version' in t: return lazy_atom(a).t == lazy_atom(b).t
        return None
    eng.eq_hook = eq_hook
    return eng

def cb_targets(o):
    """names (lazy access paths) handed to the callback on this path"""
    out = []
    for ev in o.st.trace:
        if ev[0] == 'cb':
            nm = ev[1]
            out.append(nm.name if isinstance(nm, Lazy) else repr(nm))
    return out

def body(chk):
    fns_p = chk.load('wac-parser'); fns_r = chk.load('wac-resolver')
    fns = dict(fns_p); fns.update(fns_r)
    decls = chk.decls('wac-parser')
    D = chk.pick(2, 3)
    paths = ast_paths(decls, D)
    chk.bounds['ast'] = {'recursive_type_repeats_max': D, 'positions': len(paths), 'vector_elements_on_path': '[0], and [1] with a mirrored sibling [0]', 'off_path_vectors_max': 1}
    chk.assumptions += ['the callback returns true (full traversal)', 'names compare by identity (atoms)',
                        'positions are derived from the struct/enum declarations of wac-parser/src/ast (re-read every run)',
                        'second half of the property (same resolution result with exactly the discovered set) needs the resolver: outside']
    name_field = {'PackagePath': None, 'PackageName': None}
    for t in name_field:
        for i, (fn_, ft) in enumerate(decls.structs[t][1]):
            if fn_ == 'name': name_field[t] = i
    visit = None
    n_checked = 0
    own_positions = 0
    nbound = 0; nerr = 0
    for path, tname in paths:
        # the package directive's own name is not a reference
        if show(path) == '.directive.package': continue
        # variants: all vector indices 0; then each vector on the path at index 1 with a mirrored sibling
        nvec = [i for i, s_ in enumerate(path) if s_[0] == 'vec']
        variants = [dict()] + [{v: 1} for v in nvec]
        for vi in variants:
            eng = make_engine(chk, fns, decls)
            visit = eng.find_fn(r'^visitor::<impl at [^>]*>::visit$')
            docref = engine.norm_lazy(Lazy('doc', "&wac_parser::Document<'_>")); doc = docref.base
            tgt, cs, vecs = realise_path(decls, doc, path, vi)
            for c in cs: eng.assume(c)
            want = [tgt]
            if vi:
                # sibling [0] of the chosen vector mirrors the rest of the path (same shape, its own package reference)
                vpos = list(vi)[0]
                tgt0, c0, (_, lens0) = realise_path(decls, doc, path, {})
                skip = [c for (_, pos_, c) in lens0 if pos_ == vpos]
                for c in c0:
                    if any(c.eq(x) for x in skip): continue
                    eng.assume(c)
                want.append(tgt0)
            # not the own package (the own-package case is checked separately below)
            own = doc.kid('1').kid('0')           # directive.package : PackageName
            own_name = own.kid(str(name_field['PackageName']))
            names = [w.kid(str(name_field[tname])) for w in want]
            if tname == 'PackageName':
                for n in names: eng.assume(lazy_atom(n).t != lazy_atom(own_name).t)
            # enclosing `new` expressions on the way do not instantiate the own package either
            pk = [i for i, (fn_, ft) in enumerate(decls.structs['NewExpr'][1]) if fn_ == 'package'][0]
            for vv in ([vi, {}] if vi else [vi]):
                for cut in range(len(path)):
                    if path[cut][0] == 'v' and path[cut][1] == 'PrimaryExpr' and path[cut][2] == 'New':
                        ne, _, _ = realise_path(decls, doc, path[:cut + 1], vv)
                        eng.assume(lazy_atom(ne.kid(str(pk)).kid(str(name_field['PackageName']))).t != lazy_atom(own_name).t)
            st = engine.State(); vis = Ref(st.alloc(Agg((Opaque('callback'),), 'PackageVisitor')))
            fr = engine.Frame(eng.fns[visit])
            for (loc, ty), a in zip(eng.fns[visit].params, [vis, docref]): fr.env[loc] = st.alloc(a)
            st.frames = [fr]; eng.run(st)
            outs = eng.out; chk.account(eng, [visit])
            missing = []; nerr = 0
            for o in outs:
                if o.kind == 'ret':
                    got = cb_targets(o)
                    if _is_err(o.value):
                        nerr += 1; continue      # CannotInstantiateSelf raised by some other `new` of the own package in an unconstrained part of the document
                    lacks = [n.name for n in names if n.name not in got]
                    if lacks: missing.append((o, And(o.cond()), lacks))
                    # an Err return without the callbacks is also a miss (only CannotInstantiateSelf may do that, excluded above)
                elif o.kind == 'bound':
                    nbound += 1       # expression nesting deeper than the stated recursion bound: outside the claim (counted in the evidence)
                else:
                    missing.append((o, o.cond(), ['<' + o.kind + '>']))
            tag = f'visit reports {tname} at {show(path)}' + (f' (element [1] of vector #{list(vi)[0]}, sibling mirrored)' if vi else '')
            r, m = chk.obligation(tag, list(eng.assumptions) + [Or([c for _, c, _ in missing]) if missing else BoolVal(False)], base=list(eng.assumptions))
            if not [o for o in outs if o.kind == 'ret']: raise Inconclusive(f'{tag}: no execution reaches a return (vacuous)')
            if not [o for o in outs if o.kind == 'ret' and not _is_err(o.value)]: raise Inconclusive(f'{tag}: no execution returns Ok (vacuous)')
            n_checked += 1
            if r == 'sat':
                hit = [(o, l) for o, c, l in missing if ev_bool(m, c)]
                src = realise_source(path, tname, vi)
                role = 'visitor-misses-' + re.sub(r'[^A-Za-z]+', '-', show(path)).strip('-')
                what = f'PackageVisitor does not report the package referenced at {show(path)} ({"second element" if vi else "first element"}); callbacks seen: {cb_targets(hit[0][0]) if hit else "?"}'
                case = {'op': 'discover', 'source': src, 'expect': 'ref:pkg'} if src else None
                if src:
                    nat = chk.native({'op': 'discover', 'source': src})
                    if 'packages' in nat and not any(p.startswith('ref:pkg') for p in nat['packages']):
                        chk.finding(role, what + f'; reproduced natively on `{src}` -> {nat["packages"]}', case)
                    elif 'packages' in nat:
                        raise Inconclusive(f'{tag}: model says the position is missed, but natively `{src}` yields {nat}')
                    else:
                        chk.finding(role, what + f' (native replay of `{src}` gave {nat})', case)
                else:
                    chk.finding(role, what + ' (no source realiser for this position)', {'path': show(path)})
            elif len(chk.samples) < 10:
                chk.sample({'position': show(path), 'variant': 'second element' if vi else 'first element', 'paths': len(outs), 'callbacks': cb_targets(outs[0]) if outs else []})
        # own-package instantiation is rejected
        if tname == 'PackageName' and show(path) != '.directive.package':
            eng = make_engine(chk, fns, decls)
            docref = engine.norm_lazy(Lazy('doc', "&wac_parser::Document<'_>")); doc = docref.base
            tgt, cs, vecs = realise_path(decls, doc, path, {})
            for c in cs: eng.assume(c)
            own_name = doc.kid('1').kid('0').kid(str(name_field['PackageName']))
            eng.assume(lazy_atom(tgt.kid(str(name_field['PackageName']))).t == lazy_atom(own_name).t)
            st = engine.State(); vis = Ref(st.alloc(Agg((Opaque('callback'),), 'PackageVisitor')))
            fr = engine.Frame(eng.fns[visit])
            for (loc, ty), a in zip(eng.fns[visit].params, [vis, docref]): fr.env[loc] = st.alloc(a)
            st.frames = [fr]; eng.run(st); chk.account(eng, [visit])
            bad = [o.cond() for o in eng.out if not (o.kind == 'ret' and _is_err(o.value)) and o.kind != 'bound']
            r, m = chk.obligation(f'`new <own package>` at {show(path)} is rejected (CannotInstantiateSelf)', list(eng.assumptions) + [Or(bad) if bad else BoolVal(False)], base=list(eng.assumptions))
            own_positions += 1
            if r == 'sat':
                src = realise_source(path, tname, {}, own=True)
                nat = chk.native({'op': 'discover', 'source': src}) if src else {}
                if src and 'error' in nat and 'CannotInstantiateSelf' in nat['error']:
                    raise Inconclusive(f'own-package model does not reproduce on `{src}`: {nat}')
                chk.finding('self-instantiation-accepted', f'`new` of the document\'s own package at {show(path)} is not rejected; native: {nat}', {'op': 'discover', 'source': src})
    part_packages(chk, fns, decls, paths, name_field)
    chk.notes.append(f'{n_checked} position obligations, {own_positions} own-package obligations; {nbound} symbolic paths ended at the recursion bound (expression nesting > 3) and are outside the claim')
    chk.bounds['recursion'] = {'expr_nesting_max': 3, 'paths_cut_at_bound': nbound}

def _ok_disc(v): return 0
def _is_err(v):
    return isinstance(v, Enum) and z3.is_true(z3.simplify(v.disc != bv64(_ok_variant_index(v))))
def _ok_variant_index(v):
    # Result<(), Error> : Ok is the variant that carries no Error payload; M2S builds it from `Result::Ok(..)` aggregates with disc 0
    return 0

def part_packages(chk, fns, decls, paths, name_field):
    """the callback of wac_resolver::packages, as a unit: the own package is skipped, everything else is recorded (first span wins).
    packages() = this closure handed to the visitor verified above."""
    for pre in (0, 1):
        eng = make_engine(chk, fns, decls)
        clo = [n for n in eng.fns if n.startswith('packages::{closure#0}') and 'promoted' not in n][0]
        docref = engine.norm_lazy(Lazy('doc', "&wac_parser::Document<'_>")); doc = docref.base
        own_name = doc.kid('1').kid('0').kid(str(name_field['PackageName']))
        st = engine.State()
        entries = ()
        if pre:
            entries = ((Agg((Lazy('k0name', '&str'), Lazy('k0ver', 'std::option::Option<&semver::Version>')), 'BorrowedPackageKey'), Lazy('k0span', 'SourceSpan')),)
        keys = st.alloc(MapV(entries))
        env = Ref(st.alloc(engine.Closure('packages-closure', (docref, Ref(keys)))))
        name = Lazy('name', '&str'); ver = Lazy('ver', 'std::option::Option<&semver::Version>'); span = Lazy('span', 'SourceSpan')
        fr = engine.Frame(eng.fns[clo])
        for (loc, ty), a in zip(eng.fns[clo].params, [env, name, ver, span]): fr.env[loc] = st.alloc(a)
        st.frames = [fr]; eng.run(st); chk.account(eng, [clo])
        is_own = lazy_atom(name).t == lazy_atom(own_name).t
        bad = []
        for o in eng.out:
            if o.kind != 'ret': bad.append(o.cond()); continue
            m_ = o.st.heap[keys]
            has_new = [k for k, v in m_.entries if isinstance(k.f[0], Lazy) and k.f[0].name == 'name']
            unchanged = len(m_.entries) == len(entries)
            # returns true always; own name => map unchanged; foreign => the key is present (new entry, or it was already there)
            okc = And(o.value == BoolVal(True), If(is_own, BoolVal(unchanged), BoolVal(bool(has_new) or unchanged and bool(entries))))
            if unchanged and entries and not has_new:
                # "already there" must really mean an equal key
                k0 = entries[0][0]
                same = And(lazy_atom(k0.f[0]).t == lazy_atom(name).t, containers.val_eq(eng, o.st, k0.f[1], ver))
                okc = And(o.value == BoolVal(True), If(is_own, BoolVal(True), same))
            bad.append(And(o.cond(), Not(okc)))
        r, m = chk.obligation(f'packages() callback with {pre} existing key(s): own package skipped, foreign package recorded once', list(eng.assumptions) + [Or(bad)])
        if r == 'sat':
            confirmed = None
            for src in ('package a:b; import x: a:b/i; import y: ref:pkg/i;', 'package a:b@1.0.0; import x: a:b/i; import y: ref:pkg/i;',
                        'package a:b@1.0.0 targets a:b/w; import y: ref:pkg/i;', 'package a:b; import x: ref:pkg/i; import y: ref:pkg/j;'):
                nat = chk.native({'op': 'discover', 'source': src})
                if nat.get('packages') != ['ref:pkg']: confirmed = (src, nat); break
            if confirmed is None:
                raise Inconclusive(f'packages() callback model does not reproduce natively on the candidate documents')
            chk.finding('packages-callback', f'wac_resolver::packages records the wrong set; native on `{confirmed[0]}`: {confirmed[1]} (expected only ref:pkg)', {'op': 'discover', 'source': confirmed[0]})
    # end-to-end native sanity of the composition on one document per position (translator validation)
    for path, tname in paths:
        if show(path) == '.directive.package': continue
        src = realise_source(path, tname, {})
        if not src: continue
        nat = chk.native({'op': 'discover', 'source': src})
        if 'packages' not in nat or 'ref:pkg' not in nat['packages']:
            raise Inconclusive(f'native discovery on `{src}` gives {nat} although the position obligation was discharged (encoding or template wrong)')

# ---------------------------------------------------------------------------- concrete sources for native replay

def realise_source(path, tname, vi, own=False):
    """a WAC document that has a package reference exactly at `path`. With vi = {pos: 1} the vector at path position pos gets a
    sibling element (same shape, package `ref:sib`) in front. Returns None when no template applies."""
    p = show(path)
    nvec = [i for i, s_ in enumerate(path) if s_[0] == 'vec']
    which = None
    if vi:
        which = nvec.index(list(vi)[0])          # ordinal of the duplicated vector along the path
    main = 'a:b' if own else 'ref:pkg'
    def use(r): return f'use {r}/iface.{{t}};'
    # each template: list of levels; level k is a function (ref, inner_text) -> text of ONE element of vector k
    def stmt(kind):
        return {
            'import-pkg': [lambda r, inner: f'import x{r[-3:]}: {r}/iface;'],
            'import-iface-use': [lambda r, inner: f'import x{r[-3:]}: interface {{ {inner} }};', lambda r, inner: use(r)],
            'iface-use': [lambda r, inner: f'interface i{r[-3:]} {{ {inner} }}', lambda r, inner: use(r)],
            'world-use': [lambda r, inner: f'world w{r[-3:]} {{ {inner} }}', lambda r, inner: use(r)],
            'world-import': [lambda r, inner: f'world w{r[-3:]} {{ {inner} }}', lambda r, inner: f'import {r}/iface;'],
            'world-export': [lambda r, inner: f'world w{r[-3:]} {{ {inner} }}', lambda r, inner: f'export {r}/iface;'],
            'world-include': [lambda r, inner: f'world w{r[-3:]} {{ {inner} }}', lambda r, inner: f'include {r}/w;'],
            'world-import-named-use': [lambda r, inner: f'world w{r[-3:]} {{ {inner} }}', lambda r, inner: f'import n{r[-3:]}: interface {{ {inner} }};', lambda r, inner: use(r)],
            'world-export-named-use': [lambda r, inner: f'world w{r[-3:]} {{ {inner} }}', lambda r, inner: f'export n{r[-3:]}: interface {{ {inner} }};', lambda r, inner: use(r)],
            'let-new': [lambda r, inner: f'let x{r[-3:]} = new {r} {{ }};'],
            'export-new': [lambda r, inner: f'export new {r} {{ }};'],
            'let-new-named-new': [lambda r, inner: f'let x{r[-3:]} = new o:p {{ {inner} }};', lambda r, inner: f'y{r[-3:]}: new {r} {{ }}'],
            'export-new-named-new': [lambda r, inner: f'export new o:p {{ {inner} }};', lambda r, inner: f'y{r[-3:]}: new {r} {{ }}'],
            'let-nested-new': [lambda r, inner: f'let x{r[-3:]} = (new {r} {{ }});'],
            'export-nested-new': [lambda r, inner: f'export (new {r} {{ }});'],
        }[kind]
    T = {
        '.statements[i]::Import.ty::Package': 'import-pkg',
        '.statements[i]::Import.ty::Interface.items[i]::Use.path::Package': 'import-iface-use',
        '.statements[i]::Type::Interface.items[i]::Use.path::Package': 'iface-use',
        '.statements[i]::Type::World.items[i]::Use.path::Package': 'world-use',
        '.statements[i]::Type::World.items[i]::Import.path::Package': 'world-import',
        '.statements[i]::Type::World.items[i]::Export.path::Package': 'world-export',
        '.statements[i]::Type::World.items[i]::Include.world::Package': 'world-include',
        '.statements[i]::Type::World.items[i]::Import.path::Named.ty::Interface.items[i]::Use.path::Package': 'world-import-named-use',
        '.statements[i]::Type::World.items[i]::Export.path::Named.ty::Interface.items[i]::Use.path::Package': 'world-export-named-use',
        '.statements[i]::Let.expr.primary::New.package': 'let-new',
        '.statements[i]::Export.expr.primary::New.package': 'export-new',
        '.statements[i]::Let.expr.primary::New.arguments[i]::Named.expr.primary::New.package': 'let-new-named-new',
        '.statements[i]::Export.expr.primary::New.arguments[i]::Named.expr.primary::New.package': 'export-new-named-new',
        '.statements[i]::Let.expr.primary::Nested.inner.primary::New.package': 'let-nested-new',
        '.statements[i]::Export.expr.primary::Nested.inner.primary::New.package': 'export-nested-new',
    }
    if p == '.directive.targets?':
        return f'package a:b targets {main}/w;' if not vi else None
    if p not in T: return None
    levels = stmt(T[p])
    if which is not None and which >= len(levels): return None
    def build(k, r, dup_here):
        """text of the elements of vector k"""
        inner = build(k + 1, r, dup_here) if k + 1 < len(levels) else ''
        one = levels[k](r, inner)
        if dup_here == k:
            sib_inner = build(k + 1, 'ref:sib', None) if k + 1 < len(levels) else ''
            sep = ', ' if 'y' in one[:2] else ' '
            return levels[k]('ref:sib', sib_inner) + sep + one
        return one
    return 'package a:b; ' + build(0, main, which)

if __name__ == '__main__':
    harness.run_check('C17', body)
