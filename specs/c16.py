"""C16 — composition is reproducible: the result does not depend on hash-map iteration order.

Relational (2-safety) obligations over the real MIR: every std HashMap/HashSet iteration of the functions below is executed in EVERY order of
its entries (the order is a fork of the symbolic execution); for every pair of orders and one common input the solver must refute
"the observable results differ".
  A. CompositionGraph::define_type   - observable: the edge list of the graph (edge order is what toposort / encode emit by)
  B. TypeAggregator::aggregate       - observable: imports (ordered) and the redirect map (as a function)
  C. TypeAggregator::find_semver_compatible_interface - observable: the returned id, under the invariant "one id per semver track"
  D. hash-iteration census           - every HashMap/HashSet iteration site in the MIR of wac-types / wac-graph / wac-parser / wac-resolver is
                                       either covered by A-C, or order-insensitive by construction (listed with the reason); a new site is reported.
Native confirmation: the same operation script in fresh processes (fresh per-process hash seeds), comparing the encoded bytes.
"""
import sys, os, re, json, itertools
sys.path.insert(0, os.path.dirname(os.path.dirname(os.path.abspath(__file__))))
import z3
from z3 import And, Or, Not, If, BoolVal, BitVecVal, ULT, ULE, UGT, UGE, Implies, Int, Function, IntSort, BoolSort
from m2s import harness, engine, models, containers, graphmodel
from m2s.engine import Lazy, Agg, Enum, StrV, Ref, Opaque, bv64, UNIT, fresh_id
from m2s.containers import VecV, MapV, lazy_atom, Atom, to_atom
from m2s.harness import ev_int, ev_bool, ev_bytes, run_fn, Inconclusive
from specs import absnames as AN
from specs import c06

def hash_order(o): return tuple(t[1] for t in o.st.trace if t[0] == 'hash-order')

def by_order(outs):
    g = {}
    for o in outs: g.setdefault(hash_order(o), []).append(o)
    return g

def comparable_orders(groups):
    """pairs of iteration orders that can belong to the same input: same set of visited entries (or one is a prefix choice of the other)"""
    ks = sorted(groups)
    return [(a, b) for a, b in itertools.combinations(ks, 2) if sorted(a) == sorted(b)]

# ---------------------------------------------------------------------------- A. define_type

def edges_differ(v1, v2):
    n = max(v1.ne, v2.ne); cs = []
    for j in range(n):
        e1 = v1.edge(j) if j < v1.ne else None; e2 = v2.edge(j) if j < v2.ne else None
        if e1 is None: cs.append(e2[0]); continue
        if e2 is None: cs.append(e1[0]); continue
        same = And(e1[0] == e2[0], Implies(e1[0], And(e1[1] == e2[1], e1[2] == e2[2], e1[3] == e2[3])))
        cs.append(Not(same))
    return Or(cs) if cs else BoolVal(False)

def part_define_type(chk, fns, decls, case):
    NN, EE, MM, ARGS, P = chk.pick((3, 1, 2, 2, 1), (4, 1, 2, 2, 1)); rec = 2
    chk.bounds['define_type'] = {'node_slots': NN, 'edge_slots_before': EE, 'defined_types_before': MM, 'orders': 'all permutations of the present entries of `defined`'}
    eng, M_, gcell, pre_view, argterms = c06.run_op(chk, fns, decls, 'define_type', NN, EE, MM, ARGS, P, rec, part=case, hash_order=True)
    outs = [o for o in eng.out]; chk.account(eng, [c06.op_fn(eng, 'define_type')])
    base = list(eng.assumptions)
    rb, _ = chk.solve(f'define_type {case}: case is non-empty', base)
    if rb != 'sat': chk.notes.append(f'define_type {case}: empty case'); return
    rets = [o for o in outs if o.kind == 'ret']
    # the graph model chooses the slot of the new node nondeterministically (reuse of a free slot or append): runs are compared under the same choice
    groups = {}
    for o in rets: groups.setdefault((hash_order(o), tuple(t[1] for t in o.st.trace if t[0] == 'add_node')), []).append(o)
    pairs = [(a, b) for a, b in itertools.combinations(sorted(groups), 2) if a[1] == b[1] and sorted(a[0]) == sorted(b[0])]
    chk.notes.append(f'define_type {case}: {len(outs)} paths, iteration orders explored: {sorted(groups)}')
    bad = [o for o in outs if o.kind == 'bound']
    if bad: chk.notes.append(f'define_type {case}: {len(bad)} paths cut by bounds (outside the claim)')
    if not pairs and sum(case[1]) >= 2: raise Inconclusive(f'define_type {case}: only one iteration order explored ({sorted(groups)})')
    def summary(group):
        """edge list of the post-state as a function of the input, for one iteration order (paths of one order are mutually exclusive)"""
        views = [(o.cond(), c06.View(eng, o.st, o.st.heap[gcell], decls, ARGS, P)) for o in group]
        ne = max(v.ne for _, v in views); slots = []
        for j in range(ne):
            live = BoolVal(False); src = graphmodel.bv32(0) if hasattr(graphmodel, 'bv32') else z3.BitVecVal(0, 32); dstn = src; disc = bv64(0)
            for c, v in views:
                if j >= v.ne: continue
                l, a_, b_, d_, _ = v.edge(j)
                live = If(c, l, live); src = If(c, a_, src); dstn = If(c, b_, dstn); disc = If(c, d_, disc)
            slots.append((live, src, dstn, disc))
        return Or([c for c, _ in views]), slots
    sums = {k: summary(g) for k, g in groups.items()}
    for (a, b) in pairs:
        (va, sa), (vb, sb) = sums[a], sums[b]
        cs = []
        for j in range(max(len(sa), len(sb))):
            if j >= len(sa): cs.append(sb[j][0]); continue
            if j >= len(sb): cs.append(sa[j][0]); continue
            (l1, a1, b1, d1), (l2, a2, b2, d2) = sa[j], sb[j]
            cs.append(Or(l1 != l2, And(l1, Or(a1 != a2, b1 != b2, d1 != d2))))
        diffs = [And(va, vb, Or(cs))]
        r, m = chk.obligation(f'define_type {case}: same edge list when `defined` is iterated in order {a[0]} and in order {b[0]} (new node in slot {a[1]})', base + [Or(diffs)], base=base)
        if r == 'sat':
            from specs.c06_realise import realise, describe
            # prefer a counterexample whose dependants do not reference each other (their relative order is then free in the output as well)
            indep = [Not(c06.REFS(c06.type_ident(k1), c06.type_ident(k2))) for (l1, k1, v1), (l2, k2, v2) in itertools.permutations(M_.defined, 2)]
            r2, m2 = chk.solve(f'define_type {case}: order-dependence with mutually independent dependants', base + [Or(diffs)] + indep)
            if r2 == 'sat': m = m2
            extra = c06.resolve_names(M_, m, 'define_type', argterms, decls)
            script, final = realise(M_, m, 'define_type', argterms, extra)
            chk.notes.append(f'define_type order-dependence model: {describe(M_, m, argterms)} extra={extra}')
            if script is None: raise Inconclusive(f'define_type: order-dependence counterexample has no realisation: {final}; pre-state {describe(M_, m, argterms)}')
            confirm_native(chk, script, 'define_type-edge-order', f'define_type adds the dependency edges of the types that reference the new type in the iteration order of the `defined` HashMap (orders {a[0]} / {b[0]} give different edge lists)')

def confirm_native(chk, script, role, what, runs=None):
    runs = runs or chk.pick(12, 24)
    case = {'op': 'graph', 'steps': script}
    outs = chk.native_fresh(case, runs)
    hashes = []
    for o in outs:
        res = o.get('results') or []
        enc = res[-1] if res else {}
        hashes.append(enc.get('hash') or json.dumps(enc)[:80])
    distinct = sorted(set(hashes))
    chk.sample({'script': script, 'runs': runs, 'distinct_outputs': len(distinct)})
    if len(distinct) > 1:
        chk.finding(role, f'{what}; natively: the same script encoded in {runs} fresh processes gives {len(distinct)} different outputs {distinct[:4]}  [script: {json.dumps(script)}]', case)
        return True
    # the dependants' order may not reach the bytes with two dependants of equal shape: widen the same shape (more dependants defined before the base type)
    return False

def widen(script):
    """the same shape with six dependants (defined before the type they reference): makes an order difference visible in the bytes with high probability"""
    steps = [['mktype', 'Tbase', {'tuple': [{'prim': 'u8'}, {'prim': 'u8'}]}]]
    for i in range(6): steps.append(['mktype', f'D{i}', {'tuple': [{'ref': 'Tbase'}] + [{'prim': 'u16'}] * (i + 1)}])
    for i in range(6): steps.append(['define_ref', f'd{i}', f'D{i}'])
    steps.append(['define_ref', 'base', 'Tbase']); steps += [['imports'], ['encode']]
    return steps

# ---------------------------------------------------------------------------- B. aggregate (naming step)

def part_aggregate(chk, fns, decls):
    from specs import c09
    K = 2; R = chk.pick(2, 3)
    chk.bounds['aggregate'] = {'imports': K, 'redirects': R, 'orders': 'all permutations of name_redirects'}
    merge_ok = z3.Bool('merge_ok'); remap_ok = z3.Bool('remap_ok')
    def m_merge(ctx): return ctx.ret(models.result(merge_ok, UNIT, Opaque('merge-error')))
    def m_remap(ctx): return ctx.ret(models.result(remap_ok, Lazy('remapped_kind', 'component::ItemKind'), Opaque('remap-error')))
    for ni, nr in [(1, R), (2, R)]:
        eng = chk.engine(fns, decls, overrides=AN.OVERRIDES + [(r'^TypeAggregator::merge_item_kind$', m_merge), (r'^TypeAggregator::remap_item_kind$', m_remap)], loop_bound=K + R + 3)
        eng.atom_strings = True; eng.hash_order_symbolic = True
        fname = eng.find_fn(r'^aggregator::<impl at [^>]*>::aggregate$')
        imps = [Lazy(f'imp{i}', 'std::string::String') for i in range(ni)]; kinds = [Lazy(f'kind{i}', 'component::ItemKind') for i in range(ni)]
        rf = [Lazy(f'rfrom{i}', 'std::string::String') for i in range(nr)]; rt = [Lazy(f'rto{i}', 'std::string::String') for i in range(nr)]
        name = Lazy('name', '&str')
        at = c09.atom_of
        it = [at(x) for x in imps]; rft = [(at(a), at(b)) for a, b in zip(rf, rt)]; nt = at(name)
        for c in AN.linking(it + [t for p in rft for t in p] + [nt]): eng.assume(c)
        for c in c09.naming_invariant(it, rft): eng.assume(c)
        order = [n for n, t in decls.structs['TypeAggregator'][1]]
        f = [None] * 5
        f[order.index('types')] = Lazy('agg_types', 'component::Types'); f[order.index('imports')] = MapV(tuple(zip(imps, kinds)))
        f[order.index('remapped')] = Opaque('remapped'); f[order.index('interfaces')] = Opaque('interfaces')
        f[order.index('name_redirects')] = MapV(tuple(zip(rf, rt)), hashed=True)
        st = harness.start(eng, fname, [Agg(f, 'TypeAggregator'), name, engine.norm_lazy(Lazy('types', '&component::Types')), Lazy('kind', 'component::ItemKind'), Opaque('checker')])
        n0 = len(eng.out); eng.run(st); outs = eng.out[n0:]; chk.account(eng, [fname])
        base = list(eng.assumptions)
        rets = [o for o in outs if o.kind == 'ret' and 'Ok' in o.value.vars]; groups = by_order(rets); pairs = comparable_orders(groups)
        chk.notes.append(f'aggregate ({ni} imports, {nr} redirects): {len(outs)} paths, orders {sorted(groups)}')
        if len(groups) < 2: raise Inconclusive(f'aggregate: only one iteration order of name_redirects explored: {sorted(groups)}')
        def observable(o):
            post = o.value.vars['Ok'][0]
            pim = [at(k) for k, _ in post.f[order.index('imports')].entries]
            red = [(at(a), at(eng.deref(o.st, b))) for a, b in post.f[order.index('name_redirects')].entries]
            return pim, red
        def differ(o1, o2):
            i1, r1 = observable(o1); i2, r2 = observable(o2)
            cs = [BoolVal(len(i1) != len(i2))] + [a != b for a, b in zip(i1, i2)]
            # redirects as a function: every (from,to) of one has an equal pair in the other
            for ra, rb in ((r1, r2), (r2, r1)):
                for (f_, t_) in ra: cs.append(Not(Or([And(f_ == f2, t_ == t2) for f2, t2 in rb] + [BoolVal(False)])))
            return Or(cs)
        for a, b in pairs:
            r, m = chk.obligation(f'aggregate ({ni} imports, {nr} redirects): same imports and redirect function when name_redirects is iterated in order {a} / {b}',
                                  base + [Or([And(o1.cond(), o2.cond(), differ(o1, o2)) for o1 in groups[a] for o2 in groups[b]])], base=base)
            if r == 'sat':
                chk.finding('aggregate-hash-order', f'TypeAggregator::aggregate: the resulting imports / redirects depend on the iteration order of name_redirects (orders {a} / {b}); rule-level counterexample', {'rule': 'aggregate'})

# ---------------------------------------------------------------------------- C. find_semver_compatible_interface

def part_find_interface(chk, fns, decls):
    K = chk.pick(3, 4)
    chk.bounds['find_semver_compatible_interface'] = {'interfaces': K}
    eng = chk.engine(fns, decls, overrides=AN.OVERRIDES, loop_bound=K + 3); eng.atom_strings = True; eng.hash_order_symbolic = True
    fname = eng.find_fn(r'^aggregator::<impl at [^>]*>::find_semver_compatible_interface$')
    names = [Lazy(f'iface{i}', 'std::string::String') for i in range(K)]; ids = [Lazy(f'ifaceid{i}', 'InterfaceId') for i in range(K)]
    name = Lazy('name', '&str'); at = lambda x: lazy_atom(x).t
    order = [n for n, t in decls.structs['TypeAggregator'][1]]
    f = [Opaque('x')] * 5; f[order.index('interfaces')] = MapV(tuple(zip(names, ids)), hashed=True)
    slf = engine.State()
    for c in AN.linking([at(n) for n in names] + [at(name)]): eng.assume(c)
    for a, b in itertools.combinations(range(K), 2): eng.assume(at(names[a]) != at(names[b]))
    st = engine.State(); cell = st.alloc(Agg(f, 'TypeAggregator'))
    fn = eng.fns[fname]; fr = engine.Frame(fn)
    for (loc, ty), a in zip(fn.params, [Ref(cell), name]): fr.env[loc] = st.alloc(a)
    st.frames = [fr]; eng.run(st); outs = eng.out; chk.account(eng, [fname])
    base = list(eng.assumptions)
    idt = [lazy_atom(i).t for i in ids]
    # the aggregator's invariant (remap_interface registers every name of a track under the id of the first one): one id per track
    inv = [Implies(AN.same_track(at(names[a]), at(names[b])), idt[a] == idt[b]) for a, b in itertools.combinations(range(K), 2)]
    rets = [o for o in outs if o.kind == 'ret']; groups = by_order(rets)
    if len(groups) < 2: raise Inconclusive(f'find_semver_compatible_interface: only one order explored: {sorted(groups)}')
    def result(o):
        v = o.value
        if 'Some' in v.vars:
            x = eng.deref(o.st, v.vars['Some'][0]); return v.disc, (lazy_atom(x).t if isinstance(x, Lazy) else None)
        return v.disc, None
    diffs = []
    for a, b in itertools.combinations(sorted(groups), 2):
        for o1 in groups[a]:
            for o2 in groups[b]:
                d1, x1 = result(o1); d2, x2 = result(o2)
                c = [d1 != d2]
                if x1 is not None and x2 is not None: c.append(And(d1 == bv64(1), d2 == bv64(1), x1 != x2))
                diffs.append(And(o1.cond(), o2.cond(), Or(c)))
    r, m = chk.obligation(f'find_semver_compatible_interface ({K} interfaces, one id per track): same result for every iteration order of `interfaces`', base + inv + [Or(diffs)], base=base + inv)
    if r == 'sat':
        chk.finding('find-interface-hash-order', 'find_semver_compatible_interface returns different interfaces for different iteration orders although every track has one id (rule-level)', {'rule': 'find_semver_compatible_interface'})
    # the invariant is needed (otherwise the function is order-dependent): witness that the harness can see order dependence at all
    r2, _ = chk.solve('find_semver_compatible_interface: order-dependent without the invariant (sensitivity witness)', base + [Or(diffs)])
    if r2 != 'sat': raise Inconclusive('sensitivity witness failed: the harness cannot observe order dependence of find_semver_compatible_interface')

# ---------------------------------------------------------------------------- E. world_include (diagnostic determinism)

def part_world_include(chk, fns, decls):
    W = chk.pick(2, 3); K = chk.pick(1, 2)
    chk.bounds['world_include'] = {'with_items': W, 'included_world_imports': K, 'included_world_exports': K}
    wt = chk.decls('wac-types'); worder = [n for n, t in wt.structs['World'][1]]
    has_colon = Function('has_colon', IntSort(), BoolSort())
    inc_imports = [(Lazy(f'inc.import{i}', 'std::string::String'), Lazy(f'inc.importty{i}', 'ItemKind')) for i in range(K)]
    inc_exports = [(Lazy(f'inc.export{i}', 'std::string::String'), Lazy(f'inc.exportty{i}', 'ItemKind')) for i in range(K)]
    wid = Lazy('included_world', 'WorldId')
    def m_root_item(ctx): return ctx.ret(models.ok(Agg((Lazy('item', 'Item'), Lazy('span0', 'SourceSpan')))))
    def m_kind(ctx):
        return ctx.ret(Enum('ItemKind', bv64(wt.enum_index('ItemKind', 'Type')), {'Type': (Enum('Type', bv64(wt.enum_index('Type', 'World')), {'World': (wid,)}),)}))
    def m_types(ctx): return ctx.ret(Ref(Lazy('gtypes', 'Types'), ()))
    def m_world_index(ctx):
        f = [Opaque('world-field')] * len(worder); f[worder.index('imports')] = MapV(tuple(inc_imports)); f[worder.index('exports')] = MapV(tuple(inc_exports))
        return ctx.ret(Ref(ctx.st.alloc(Agg(f, 'World'))))
    def m_contains_char(ctx): return ctx.ret(has_colon(to_atom(ctx.eng, ctx.deref(ctx.args[0])).t))
    def m_to_owned(ctx): return ctx.ret(ctx.deref(ctx.args[0]))
    def m_name(ctx): return ctx.ret(Lazy('included_world_name', '&str'))
    def m_span(ctx): return ctx.ret(Lazy('included_world_span', 'SourceSpan'))
    def m_externkind_eq(ctx):
        a = ctx.deref(ctx.args[0]); b = ctx.deref(ctx.args[1]); return ctx.ret(a.disc == b.disc)
    ov = [(r'^<ExternKind as PartialEq>::eq$', m_externkind_eq), (r'^State::root_item$', m_root_item), (r'^Item::kind$', m_kind), (r'^CompositionGraph::types$', m_types), (r'^<wac_graph::wac_types::Types as Index<WorldId>>::index$', m_world_index),
          (r'^core::str::<impl str>::contains::<char>$', m_contains_char), (r'^<str as ToOwned>::to_owned$', m_to_owned),
          (r'^r#type::WorldRef::<.*>::name$', m_name), (r'^r#type::WorldRef::<.*>::span$', m_span)]
    eng = chk.engine(fns, decls, overrides=ov, loop_bound=W + K + 3, vec_cap=W); eng.atom_strings = True; eng.hash_order_symbolic = True
    fname = c04_resolver_fn(eng, 'world_include')
    include = Lazy('include', "ast::WorldInclude<'_>")
    io = [n for n, t in decls.structs['WorldInclude'][1]]
    withv = include.kid(str(io.index('with'))); wref = include.kid(str(io.index('world')))
    eng.assume(withv.len() == bv64(W)); eng.assume(wref.disc == bv64(decls.enum_index('WorldRef', 'Ident')))
    st = engine.State()
    f = [Opaque('world-field')] * len(worder); f[worder.index('imports')] = MapV(()); f[worder.index('exports')] = MapV(())
    tycell = st.alloc(Agg(f, 'World'))
    fn = eng.fns[fname]; fr = engine.Frame(fn)
    for (loc, ty), a in zip(fn.params, [Opaque('self'), Ref(Lazy('state', 'State'), ()), Ref(include, ()), Lazy('world_name', '&str'), Opaque('packages'), Ref(tycell)]): fr.env[loc] = st.alloc(a)
    st.frames = [fr]; eng.run(st); outs = eng.out; chk.account(eng, [fname])
    base = list(eng.assumptions)
    names = [lazy_atom(k).t for k, _ in inc_imports + inc_exports]
    base += [a != b for a, b in itertools.combinations([lazy_atom(k).t for k, _ in inc_imports], 2)] + [a != b for a, b in itertools.combinations([lazy_atom(k).t for k, _ in inc_exports], 2)]
    rets = [o for o in outs if o.kind == 'ret']; groups = by_order(rets)
    chk.notes.append(f'world_include: {len(outs)} paths, orders {sorted(groups)}')
    if len(groups) < 2:
        if not hash_sites(fns, r'::world_include(?:::replace_name)?$|^replace_name$'):
            chk.obligations += 1; chk.discharged += 1; chk.notes.append('world_include: the MIR iterates no hash map (result and diagnostic cannot depend on a hash order)'); return
        raise Inconclusive(f'world_include: only one iteration order explored: {sorted(groups)}')
    def observable(o):
        v = o.value
        if 'Ok' in v.vars: return ('Ok', None)
        e = v.vars['Err'][0]; cls = list(e.vars)[0] if isinstance(e, Enum) and e.vars else 'opaque'
        nm = None
        if cls == 'MissingWorldInclude':
            fs = e.vars[cls]
            # fields in declaration order: world, name, span
            nm = to_atom(eng, eng.deref(o.st, fs[1])).t
        return (cls, nm)
    diffs = []; pairs = 0
    for a, b in itertools.combinations(sorted(groups), 2):
        for o1 in groups[a]:
            for o2 in groups[b]:
                k1, n1 = observable(o1); k2, n2 = observable(o2); pairs += 1
                if k1 != k2: diffs.append(And(o1.cond(), o2.cond()))
                elif n1 is not None and n2 is not None: diffs.append(And(o1.cond(), o2.cond(), n1 != n2))
    r, m = chk.obligation(f'world_include ({W} with-items): same result and same diagnostic for every iteration order of the replacement map', base + [Or(diffs + [BoolVal(False)])], base=base)
    if r == 'sat':
        items = ', '.join(f'{chr(97 + i)} as x{i}' for i in range(3))
        case = {'op': 'resolve_doc', 'doc': f'package t:doc; world w {{ }} world v {{ include w with {{ {items} }}; }}', 'packages': {}}
        outs_n = chk.native_fresh(case, chk.pick(12, 24)); msgs = sorted({o.get('error', json.dumps(o)[:120]) for o in outs_n})
        chk.sample({'doc': case['doc'], 'distinct_diagnostics': msgs})
        if len(msgs) > 1:
            chk.finding('world_include-missing-diagnostic-order', f'`include w with {{ {items} }}` where none of the names exists: {len(outs_n)} fresh processes report {len(msgs)} different diagnostics {msgs} '
                        '(the reported name is the first entry of a HashMap in iteration order)', case)
        else: raise Inconclusive(f'world_include: order-dependence counterexample does not reproduce natively: {msgs}')

def c04_resolver_fn(eng, name):
    c = eng.index.get(('AstResolver', None, name), [])
    if len(c) != 1: raise engine.EngineError(f'AstResolver::{name} not found: {c}')
    return c[0]

# ---------------------------------------------------------------------------- F. CompositionGraph::imports (listing order)

def part_imports_listing(chk, fns, decls):
    NN, EE, MM, ARGS, P = chk.pick((3, 1, 2, 2, 1), (4, 2, 3, 2, 1))
    chk.bounds['imports()'] = {'node_slots': NN, 'import_map_entries': MM, 'package_slots': P, 'world_imports': ARGS}
    c06.OPS['imports'] = lambda M_, eng: ([], [], {})
    try:
        eng, M_, gcell, pre_view, argterms = c06.run_op(chk, fns, decls, 'imports', NN, EE, MM, ARGS, P, 2, part=None, hash_order=True)
    finally:
        del c06.OPS['imports']
    fname = c06.op_fn(eng, 'imports'); outs = eng.out; chk.account(eng, [fname])
    base = list(eng.assumptions)
    rets = [o for o in outs if o.kind == 'ret']; groups = by_order(rets)
    chk.notes.append(f'imports(): {len(outs)} paths, orders {sorted(groups)}')
    if len(groups) < 2:
        if not hash_sites(fns, r'::imports$'):
            chk.obligations += 1; chk.discharged += 1; chk.notes.append('CompositionGraph::imports: the MIR iterates no hash map (the listing order is node order)'); return
        raise Inconclusive(f'imports(): hash iteration present but only one order explored: {sorted(groups)}')
    def listing(o):
        v = o.value
        v = eng.deref(o.st, v) if isinstance(v, Ref) else v
        items = v.items if isinstance(v, VecV) else (v.a if isinstance(v, containers.It) and v.kind == 'seq' else None)
        if items is None: raise Inconclusive(f'imports(): unexpected return value {v!r}')
        out = []
        for it in items:
            it = eng.deref(o.st, it); nm = to_atom(eng, eng.deref(o.st, it.f[0])).t
            out.append(nm)
        return out
    diffs = []
    for a, b in comparable_orders(groups):
        for o1 in groups[a]:
            l1 = listing(o1)
            for o2 in groups[b]:
                l2 = listing(o2)
                d = BoolVal(True) if len(l1) != len(l2) else Or([x != y for x, y in zip(l1, l2)] + [BoolVal(False)])
                diffs.append(And(o1.cond(), o2.cond(), d))
    r, m = chk.obligation('CompositionGraph::imports: same listing for every iteration order of the hash maps', base + [Or(diffs + [BoolVal(False)])], base=base)
    if r == 'sat':
        steps = [['import', f'extra-{w}', {'func': {'params': [], 'result': None}}] for w in ('alpha', 'bravo', 'charlie', 'delta')] + [['imports']]
        case = {'op': 'graph', 'steps': steps}
        outs_n = chk.native_fresh(case, chk.pick(12, 24)); lists = sorted({json.dumps((o.get('results') or [{}])[-1]) for o in outs_n})
        chk.sample({'script': steps, 'distinct_listings': len(lists)})
        if len(lists) > 1: chk.finding('imports-listing-order', f'CompositionGraph::imports() lists four explicit imports in {len(lists)} different orders over {len(outs_n)} fresh processes: {lists[:3]}', case)
        else: raise Inconclusive(f'imports(): order dependence does not reproduce natively: {lists}')

# ---------------------------------------------------------------------------- G. spread arguments (order of the arguments that a spread adds)

def part_spread_order(chk, fns, decls):
    K = chk.pick(2, 3)
    chk.bounds['spread order'] = {'expected_imports': K}
    from specs import c04
    item = Lazy('spread_item', 'Item'); kind = Lazy('spread_kind', 'ItemKind')
    wt = chk.decls('wac-types'); inst_idx = bv64(wt.enum_index('ItemKind', 'Instance'))
    def m_local_item(ctx): return ctx.ret(models.ok(Agg((item, Lazy('span0', 'SourceSpan')))))
    def m_item_kind(ctx): return ctx.ret(Enum('ItemKind', inst_idx, {'Instance': (Lazy('iface', 'InterfaceId'),)}))
    def m_types(ctx): return ctx.ret(Ref(Lazy('gtypes', 'Types'), ()))
    def m_alias_export(ctx):
        t = to_atom(ctx.eng, ctx.deref(ctx.args[3])).t
        return ctx.ret(models.ok(models.some(Agg((t, 'aliased'), 'Item'))))
    ov = [(r'^State::local_item$', m_local_item), (r'^Item::kind$', m_item_kind), (r'^CompositionGraph::types$', m_types), (r'^AstResolver::<.*>::alias_export$', m_alias_export)]
    eng = chk.engine(fns, decls, overrides=ov, vec_cap=K, loop_bound=K + 3); eng.atom_strings = True; eng.hash_order_symbolic = True
    fname = c04.resolver_fn(eng, 'spread_instantiation_arg')
    fn = eng.fns[fname]
    exp_ty = fn.locals.get(fn.params[3][0], '') if hasattr(fn, 'locals') else ''
    exp_ty = fn.params[3][1] or exp_ty
    hashed = 'HashSet' in exp_ty or 'HashMap' in exp_ty
    exp_names = [Lazy(f'expected{i}', 'std::string::String') for i in range(K)]
    st = engine.State()
    expected = Ref(st.alloc(MapV(tuple((e, UNIT) for e in exp_names), hashed=hashed))); args_cell = st.alloc(MapV(())); arguments = Ref(args_cell)
    fr = engine.Frame(fn)
    for (loc, ty), a in zip(fn.params, [Opaque('self'), Ref(Lazy('state', 'State'), ()), Ref(Lazy('id', 'Ident'), ()), expected, arguments]): fr.env[loc] = st.alloc(a)
    st.frames = [fr]; eng.run(st); outs = eng.out; chk.account(eng, [fname])
    et = [lazy_atom(e).t for e in exp_names]
    base = list(eng.assumptions) + [a != b for a, b in itertools.combinations(et, 2)]
    rets = [o for o in outs if o.kind == 'ret' and 'Ok' in o.value.vars]; groups = by_order(rets)
    chk.notes.append(f'spread_instantiation_arg (expected: {exp_ty}): {len(outs)} paths, orders {sorted(groups)}')
    if len(groups) < 2:
        if not hashed and not hash_sites(fns, r'::spread_instantiation_arg$'):
            chk.obligations += 1; chk.discharged += 1; chk.notes.append('spread_instantiation_arg: the expected names are an insertion-ordered set and the MIR iterates no hash map'); return
        raise Inconclusive(f'spread_instantiation_arg: hash-ordered input but only one order explored: {sorted(groups)}')
    diffs = []
    for a, b in comparable_orders(groups):
        for o1 in groups[a]:
            p1 = [to_atom(eng, k).t for k, _ in o1.st.heap[args_cell].entries]
            for o2 in groups[b]:
                p2 = [to_atom(eng, k).t for k, _ in o2.st.heap[args_cell].entries]
                d = BoolVal(True) if len(p1) != len(p2) else Or([x != y for x, y in zip(p1, p2)] + [BoolVal(False)])
                diffs.append(And(o1.cond(), o2.cond(), d))
    r, m = chk.obligation('spread_instantiation_arg: the arguments a spread adds are in the same order for every iteration order of the expected names', base + [Or(diffs + [BoolVal(False)])], base=base)
    if r == 'sat':
        imports = ' '.join(f'(import "{w}" (func))' for w in ('alpha', 'bravo', 'charlie', 'delta', 'echo', 'foxtrot'))
        exports = ' '.join(f'(export "{w}" (func $f))' for w in ('alpha', 'bravo', 'charlie', 'delta', 'echo', 'foxtrot'))
        case = {'op': 'resolve_doc', 'encode': True, 'doc': 'package t:doc; let p = new t:provider { }; let i = new t:consumer { ...p };',
                'packages': {'t:consumer': f'(component {imports})', 't:provider': f'(component (core module $m (func (export "f"))) (core instance $i (instantiate $m)) (func $f (canon lift (core func $i "f"))) {exports})'}}
        outs_n = chk.native_fresh(case, chk.pick(12, 24)); orders = sorted({json.dumps([n['desc'] for n in o.get('nodes', [])]) for o in outs_n})
        chk.sample({'doc': case['doc'], 'distinct_node_orders': len(orders)})
        if len(orders) > 1: chk.finding('spread-argument-order', f'`new t:consumer {{ ...p }}` with six matching imports: {len(outs_n)} fresh processes build the alias nodes in {len(orders)} different orders', case)
        else: raise Inconclusive(f'spread order dependence does not reproduce natively: {orders}')

# ---------------------------------------------------------------------------- D. census of hash iteration sites

AUDITED = {
    # (function regex, callee regex): reason
    (r'::define_type$', r'HashMap(?:::)?<(?:wac_types::)?Type, .*NodeIndex'): 'part A (order-normalised by the function; relational obligation)',
    (r'aggregate$', r'ValuesMut|values_mut'): 'part B (each redirect updated independently; relational obligation)',
    (r'find_semver_compatible_interface', r'HashMap<std::string::String, .*InterfaceId'): 'part C (one id per track; relational obligation)',
    (r'::unregister_package$', r'retain'): 'retain with a pure predicate: the kept set does not depend on the visiting order',
    (r'encode_imports', r'HashMap<&str, .*NodeIndex'): 'each entry inserts under its own key into node_indexes; no emission inside the loop',
    (r'::world_include', r'WorldIncludeItem'): 'part E (relational obligation on the result and the diagnostic)',
    (r'::imports$', r'HashMap'): 'part F (relational obligation on the listing)',
    (r'::spread_instantiation_arg$|::new_expr$', r'HashSet'): 'part G (relational obligation on the order of the added arguments)',
    (r'verif_', r'.*'): 'verification hook (cfg(wac_verif)), not part of the product',
    (r'get_instantiation_arguments|is_arg_satisfied|add_satisfied_arg|remove_satisfied_arg', r'.*'): 'HashSet<usize> membership only',
}
HASH_ITER = re.compile(r'= ((?:<&?(?:mut )?)?(?:std::collections::)?Hash(?:Map|Set)[^;(]*::(?:iter|iter_mut|keys|values|values_mut|into_iter|drain|retain|into_keys|into_values|extract_if)(?:::<[^(]*>)?)\(')

def hash_sites(fns, name_re):
    out = []
    for name, fn in fns.items():
        if not re.search(name_re, name): continue
        for bb, stmts in fn.blocks.items():
            for s_ in stmts:
                m = HASH_ITER.search(s_)
                if m: out.append((name, m.group(1)))
    return out

def part_census(chk):
    sites = []
    for crate, feat in (('wac-types', ''), ('wac-graph', ''), ('wac-parser', ''), ('wac-resolver', 'wat')):
        fns = chk.load(crate, feat) if feat else chk.load(crate)
        for name, fn in fns.items():
            for bb, stmts in fn.blocks.items():
                for s_ in stmts:
                    m = HASH_ITER.search(s_)
                    if m: sites.append((crate, name, m.group(1)))
    unaudited = []
    for crate, name, callee in sites:
        if '::tests::' in name or name.startswith('tests::'): continue
        why = [reason for (fre, cre), reason in AUDITED.items() if re.search(fre, name) and re.search(cre, callee)]
        if why: chk.notes.append(f'hash iteration in {crate}::{name[-60:]}: {callee[:90]} -- {why[0]}')
        else: unaudited.append((crate, name, callee))
    chk.bounds['census'] = {'hash_iteration_sites': len(sites), 'unaudited': len(unaudited)}
    chk.obligations += 1
    if unaudited:
        raise Inconclusive('hash-map iteration sites that no obligation covers (reproducibility cannot be claimed for them): ' + '; '.join(f'{c}::{n[-50:]} -> {k[:80]}' for c, n, k in unaudited[:6]))
    chk.discharged += 1

def body(chk):
    chk.assumptions += ['reproducibility is decided for the hash-ordered maps of the composition path (define_type, aggregate, find_semver_compatible_interface) as a 2-safety property over iteration orders; '
                        'the remaining hash iteration sites are listed with the reason they cannot influence output order (census); a new site makes the check inconclusive',
                        'pre-states of define_type satisfy the representation invariant of C06; aggregate pre-states satisfy the naming invariant of C09',
                        'diagnostics / printed text determinism and cross-process equality of whole documents are observed only on the replayed scripts']
    gf = chk.load('wac-graph'); gd = chk.decls('wac-graph')
    c06.IK_INSTANCE = gd.enum_index('ItemKind', 'Instance')
    tf = chk.load('wac-types'); td = chk.decls('wac-types')
    MMd = 2
    parts = [(f'define_type{m_}', part_define_type, (gf, gd, ('defsN', m_, None))) for m_ in itertools.product((0, 1), repeat=MMd)]
    pf = chk.load('wac-parser'); pd = chk.decls('wac-parser')
    parts += [('aggregate', part_aggregate, (tf, td)), ('find_semver_compatible_interface', part_find_interface, (tf, td)), ('world_include', part_world_include, (pf, pd)),
              ('imports()', part_imports_listing, (gf, gd)), ('spread order', part_spread_order, (pf, pd))]
    chk.parallel(parts)
    chk.part('census', part_census, chk)
    # native baseline: a composition whose encoding must be byte-identical across fresh processes
    steps = widen(None)
    outs = chk.native_fresh({'op': 'graph', 'steps': steps}, chk.pick(8, 16))
    hs = sorted({(o.get('results') or [{}])[-1].get('hash', '?') for o in outs})
    chk.sample({'script': 'six dependants defined before their base type', 'distinct_outputs': len(hs)})
    if len(hs) > 1:
        chk.finding('define_type-edge-order', f'six types that reference a later-defined base type: {len(outs)} fresh processes give {len(hs)} different encodings {hs[:4]}', {'op': 'graph', 'steps': steps, 'fresh_processes': len(outs)})

if __name__ == '__main__':
    harness.run_check('C16', body)
