"""Abstract extern names for assume-guarantee reasoning above `alternate_lookup_key` (whose contract is verified in C15):
a name is an identity (Int); alternate_lookup_key(n) = Some((track key, version)) is given by uninterpreted functions of the
identity, linked by the facts the verified contract implies."""
import itertools
import z3
from z3 import And, Or, Not, Implies, ULT, If
from m2s.engine import Agg, bv64
from m2s.containers import Atom, to_atom
from m2s.models import opt

I = z3.IntSort(); B = z3.BoolSort(); BV = z3.BitVecSort(64)
alt_some = z3.Function('alt_some', I, B); alt_key = z3.Function('alt_key', I, I)
vmaj = z3.Function('v_major', I, BV); vmin = z3.Function('v_minor', I, BV); vpat = z3.Function('v_patch', I, BV); vbuild = z3.Function('v_buildrank', I, I)

def version_of(t):
    return Agg((vmaj(t), vmin(t), vpat(t), Agg((Atom(z3.IntVal(0)),), 'Prerelease'), Agg((Atom(vbuild(t)),), 'BuildMetadata')), 'Version')
def m_alt(ctx):
    n = to_atom(ctx.eng, ctx.deref(ctx.args[0]))
    # track keys live in a disjoint id space (negative numbers): a key never equals a full name
    return ctx.ret(opt(alt_some(n.t), Agg((Atom(-1 - alt_key(n.t)), version_of(n.t)))))
def ver_lt_terms(a, b):
    am, an, ap = a.f[0], a.f[1], a.f[2]; bm, bn, bp = b.f[0], b.f[1], b.f[2]
    ab = a.f[4].f[0].t; bb = b.f[4].f[0].t
    lt = Or(ULT(am, bm), And(am == bm, Or(ULT(an, bn), And(an == bn, Or(ULT(ap, bp), And(ap == bp, ab < bb))))))
    eq = And(am == bm, an == bn, ap == bp, ab == bb)
    return lt, eq
def m_version_cmp(ctx):
    a = ctx.deref(ctx.args[0]); b = ctx.deref(ctx.args[1]); lt, eq = ver_lt_terms(a, b)
    op = ctx.callee.rsplit('::', 1)[1]
    return ctx.ret({'lt': lt, 'le': Or(lt, eq), 'gt': Not(Or(lt, eq)), 'ge': Not(lt)}[op])
def m_clone(ctx): return ctx.ret(ctx.deref(ctx.args[0]))
OVERRIDES = [(r'^(?:names::)?alternate_lookup_key$', m_alt), (r'^<semver::Version as PartialOrd>::(?:lt|le|gt|ge)$', m_version_cmp),
             (r'^<semver::Version as Clone>::clone$', m_clone)]


def triple_lt(a, b):
    """version triple of name a strictly lower than that of b (build metadata left open)"""
    return Or(ULT(vmaj(a), vmaj(b)), And(vmaj(a) == vmaj(b), Or(ULT(vmin(a), vmin(b)), And(vmin(a) == vmin(b), ULT(vpat(a), vpat(b))))))
def same_track(a, b): return And(alt_some(a), alt_some(b), alt_key(a) == alt_key(b))
def linking(terms):
    """facts that follow from alternate_lookup_key's contract, for a finite set of name identities"""
    cs = []
    for a in terms:
        cs += [a >= 0, alt_key(a) >= 0, vbuild(a) >= 0, Implies(alt_some(a), Or(vmaj(a) != bv64(0), vmin(a) != bv64(0))),
               And(ULT(vmaj(a), bv64(1000)), ULT(vmin(a), bv64(1000)), ULT(vpat(a), bv64(1000)))]
    for a, b in itertools.combinations(terms, 2):
        cs.append(Implies(same_track(a, b), And(vmaj(a) == vmaj(b), Implies(vmaj(a) == bv64(0), vmin(a) == vmin(b)))))
        # same identity <=> same string; a name determines its version: equal names have equal (key, version, build)
    return cs
def render(m, t, seen):
    """concrete string for a name identity under model m"""
    ident = m.eval(t, model_completion=True).as_long()
    if ident in seen: return seen[ident]
    if z3.is_true(m.eval(alt_some(t), model_completion=True)):
        key = m.eval(alt_key(t), model_completion=True).as_long()
        mj = m.eval(vmaj(t), model_completion=True).as_long(); mn = m.eval(vmin(t), model_completion=True).as_long(); pt = m.eval(vpat(t), model_completion=True).as_long()
        s_ = f't{key}:p/i@{mj}.{mn}.{pt}+i{ident}'
    else:
        s_ = f'p{ident}:p/i'
    seen[ident] = s_; return s_

# ---- textual order of names (`&str` comparisons): exact for two rendered names of one track (same prefix, so the decimal text of the
# version components decides: a component is followed by `.` or `+`, both smaller than any digit), an arbitrary strict order otherwise
str_lt_uf = z3.Function('str_lt', I, I, B)
def _digits(x):
    """decimal digits of x < 1000, left-aligned, padded with -1 (the separator that follows sorts below every digit)"""
    from z3 import BV2Int, UGE
    n = BV2Int(x)
    d3 = (n / 100, (n / 10) % 10, n % 10); d2 = (n / 10, n % 10, z3.IntVal(-1)); d1 = (n, z3.IntVal(-1), z3.IntVal(-1))
    return tuple(If(n >= 100, a, If(n >= 10, b, c)) for a, b, c in zip(d3, d2, d1))
def _lex_lt(xs, ys):
    r = z3.BoolVal(False)
    for x, y in reversed(list(zip(xs, ys))): r = Or(x < y, And(x == y, r))
    return r
def text_lt(a, b):
    seq = lambda t: _digits(vmaj(t)) + _digits(vmin(t)) + _digits(vpat(t)) + (t,)
    return If(same_track(a, b), _lex_lt(seq(a), seq(b)), And(a != b, str_lt_uf(a, b)))
def m_str_cmp(ctx):
    a = to_atom(ctx.eng, ctx.deref(ctx.args[0])).t; b = to_atom(ctx.eng, ctx.deref(ctx.args[1])).t
    lt = text_lt(a, b); eq = a == b
    op = ctx.callee.rsplit('::', 1)[1]
    return ctx.ret({'lt': lt, 'le': Or(lt, eq), 'gt': And(Not(lt), Not(eq)), 'ge': Not(lt)}[op])

OVERRIDES.append((r'^<&?(?:str|std::string::String|String) as PartialOrd(?:<.*>)?>::(?:lt|le|gt|ge)$', m_str_cmp))
