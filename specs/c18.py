"""C18 — file-system dependency lookup follows the documented layout and precedence.

Encoded (real MIR, three dumps of wac-resolver: no features, `wat`, `wit`): FileSystemPackageResolver::resolve, append_extension.
The file system is a set of UNINTERPRETED functions of the path (kind = absent | file | dir, content); paths are sequences of
abstract tokens (components made of dot-separated pieces), so `1.2.3` + ".wasm" and `set_extension("wasm")` give different paths.
The oracle is the README / fs.rs decision table; the query asks for a file system and a key on which the real code deviates.
"""
import sys, os, re, json, itertools
sys.path.insert(0, os.path.dirname(os.path.dirname(os.path.abspath(__file__))))
import z3
from z3 import And, Or, Not, If, BoolVal, Implies, Int, IntVal, Function, IntSort, BoolSort, SeqSort, Unit, Concat, Empty
from m2s import harness, engine, models, containers, mirdump, mir
from m2s.engine import Lazy, Agg, Enum, StrV, Ref, Opaque, bv64, UNIT, fresh_id
from m2s.containers import VecV, MapV, It
from m2s.graphmodel import GMapV
from m2s.harness import ev_int, ev_bool, Inconclusive

SEQ = SeqSort(IntSort())
SLASH, DOT = IntVal(-1), IntVal(-2)
TOK = {'wasm': IntVal(-10), 'wat': IntVal(-11), 'wit': IntVal(-12)}
KIND = Function('fs_kind', SEQ, IntSort())          # 0 absent, 1 file, 2 dir
ABSENT, FILE, DIR = 0, 1, 2
READ_OK = Function('fs_read_ok', SEQ, BoolSort())
WAT_OK = Function('wat_parse_ok', SEQ, BoolSort()); WAT_TEXT = Function('wat_is_text', SEQ, BoolSort())
WIT_OK = Function('wit_encode_ok', SEQ, BoolSort())

class PathV:
    """path = tuple of components; component = tuple of pieces (Int terms); `opaque` paths (root, override) are one token"""
    __slots__ = ('comps', 'pending')
    def __init__(s, comps, pending=False): s.comps = tuple(tuple(c) for c in comps); s.pending = pending
    def seq(s):
        parts = []
        for i, c in enumerate(s.comps):
            if i: parts.append(Unit(SLASH))
            for j, p in enumerate(c):
                if j: parts.append(Unit(DOT))
                parts.append(Unit(p))
        return Concat(*parts) if len(parts) > 1 else parts[0]
    def __repr__(s): return f'PathV{s.comps}'

class Comp:
    """a string that becomes a path component: pieces separated by dots"""
    __slots__ = ('pieces',)
    def __init__(s, pieces): s.pieces = tuple(pieces)

def make_engine(chk, fns, decls, features):
    def P(ctx, v):
        v = ctx.deref(v)
        if isinstance(v, PathV): return v
        raise engine.EngineError(f'not a path: {v!r}')
    def m_clone(ctx): return ctx.ret(P(ctx, ctx.args[0]))
    def m_push(ctx):
        r = ctx.args[0]; p = P(ctx, r); seg = ctx.deref(ctx.args[1])
        if isinstance(seg, Comp): comp = seg.pieces
        else: raise engine.EngineError(f'push of {seg!r}')
        ctx.eng.write_ref(ctx.st, r, PathV(p.comps + (comp,))); return ctx.ret(UNIT)
    def m_is_file(ctx): return ctx.ret(KIND(P(ctx, ctx.args[0]).seq()) == FILE)
    def m_is_dir(ctx): return ctx.ret(KIND(P(ctx, ctx.args[0]).seq()) == DIR)
    def m_exists(ctx): return ctx.ret(KIND(P(ctx, ctx.args[0]).seq()) != ABSENT)
    def m_display(ctx): return ctx.ret(Opaque('display'))
    def m_as_os(ctx): return ctx.ret(ctx.args[0])
    def m_os_push(ctx):
        r = ctx.args[0]; p = P(ctx, r); s_ = ctx.deref(ctx.args[1])
        text = concrete_text(s_)
        last = p.comps[-1]
        if text == '.': np = PathV(p.comps[:-1] + (last + ('PENDING',),), True)
        elif p.pending and last[-1] == 'PENDING': np = PathV(p.comps[:-1] + (last[:-1] + (TOK[text],),))
        else: raise engine.EngineError(f'OsString::push of {text!r} in an unmodelled position')
        ctx.eng.write_ref(ctx.st, r, np); return ctx.ret(UNIT)
    def m_set_ext(ctx):
        r = ctx.args[0]; p = P(ctx, r); text = concrete_text(ctx.deref(ctx.args[1])); last = p.comps[-1]
        # std: replaces the text after the last '.' of the file name, or appends `.ext` when there is none
        new = (last[:-1] + (TOK[text],)) if len(last) > 1 else (last + (TOK[text],))
        ctx.eng.write_ref(ctx.st, r, PathV(p.comps[:-1] + (new,))); return ctx.ret(BoolVal(True))
    def m_extension(ctx):
        p = P(ctx, ctx.args[0]); last = p.comps[-1]
        if len(last) > 1: return ctx.ret(models.some(Agg((last[-1],), 'ext')))
        if len(p.comps) == 1 and len(last) == 1:      # an opaque path (override): unknown extension
            e = EXT(last[0]); return ctx.ret(models.opt(e != IntVal(0), Agg((e,), 'ext')))
        return ctx.ret(models.none())
    def m_and_then_to_str(ctx): return ctx.ret(ctx.args[0])
    def m_opt_str_eq(ctx):
        a = ctx.deref(ctx.args[0]); b = ctx.deref(ctx.args[1])
        sa, pa = models.opt_parts(ctx, a); sb, pb = models.opt_parts(ctx, b)
        tb = TOK[concrete_text(ctx.deref(pb))]
        e = And(sa, ctx.deref(pa).f[0] == tb) if pa is not None else BoolVal(False)
        return ctx.ret(Not(e) if ctx.callee.endswith('::ne') else e)
    def m_split(ctx):
        n = ctx.deref(ctx.args[0]); return ctx.ret(It('seq', tuple(Comp((s_,)) for s_ in n.extra['segments']), 0))
    def m_ver_to_string(ctx): return ctx.ret(Comp(VERSION_PIECES))
    def m_read(ctx):
        p = P(ctx, ctx.args[0]); ctx.event('read', p)
        return ctx.ret(models.result(READ_OK(p.seq()), Agg((p,), 'content'), Opaque('io-error')))
    def m_context(ctx): return ctx.ret(ctx.args[0])
    def m_wat_parse(ctx):
        b = ctx.deref(ctx.args[0]); p = b.f[0]
        cow = Enum('Cow', If(WAT_TEXT(p.seq()), bv64(1), bv64(0)), {'Borrowed': (b,), 'Owned': (Agg((p, 'wat-encoded'), 'content'),)})
        return ctx.ret(models.result(WAT_OK(p.seq()), cow, Opaque('wat-error')))
    def m_set_path(ctx): return ctx.ret(UNIT)
    def m_resolve_new(ctx): return ctx.ret(Opaque('wit-resolve'))
    def m_push_dir(ctx):
        p = P(ctx, ctx.args[1]); ctx.event('push_dir', p)
        return ctx.ret(models.result(z3.Bool(f'wit_parse_ok{fresh_id()}'), Agg((Agg((p, 'dir'), 'wit-pkg'), Opaque('srcmap'))), Opaque('wit-error')))
    def m_push_file(ctx):
        p = P(ctx, ctx.args[1]); ctx.event('push_file', p)
        return ctx.ret(models.result(z3.Bool(f'wit_parse_ok{fresh_id()}'), Agg((p, 'file'), 'wit-pkg'), Opaque('wit-error')))
    def m_wit_encode(ctx):
        pk = ctx.deref(ctx.args[1]); p = pk.f[0]
        return ctx.ret(models.result(WIT_OK(p.seq()), Agg((p, 'wit-encoded'), 'content'), Opaque('wit-encode-error')))
    def m_deref_drop(ctx): return ctx.ret(ctx.args[0])
    ov = [(r'^<PathBuf as Clone>::clone$', m_clone), (r'^PathBuf::push::<.*>$', m_push), (r'^Path::is_file$', m_is_file), (r'^Path::is_dir$', m_is_dir),
          (r'^Path::exists$', m_exists), (r'^Path::display$', m_display), (r'^PathBuf::as_mut_os_string$', m_as_os), (r'^OsString::push::<&str>$', m_os_push),
          (r'^PathBuf::set_extension::<&str>$', m_set_ext), (r'^Path::extension$', m_extension),
          (r'^(?:std::option::)?Option::<&OsStr>::and_then::<&str, .*>$', m_and_then_to_str),
          (r'^<(?:std::option::)?Option<&str> as PartialEq>::(?:eq|ne)$', m_opt_str_eq),
          (r'^core::str::<impl str>::split::<char>$', m_split), (r'^<Version as ToString>::to_string$', m_ver_to_string),
          (r'^std::fs::read::<.*>$', m_read), (r'^<(?:std::result::)?Result<.*> as anyhow::Context<.*>>::(?:with_context|context)(?:::<.*>)?$', m_context),
          (r'^(?:wat::)?parse_bytes$', m_wat_parse), (r'^wat::Error::set_path::<.*>$', m_set_path),
          (r'^Resolve::new$', m_resolve_new), (r'^wit_parser::resolve::fs::<impl Resolve>::push_dir::<.*>$', m_push_dir),
          (r'^wit_parser::resolve::fs::<impl Resolve>::push_file::<.*>$', m_push_file), (r'^wit_component::encode$', m_wit_encode),
          (r'^<wat::Error as anyhow::kind::TraitKind>::anyhow_kind$|^anyhow::kind::Trait::new::<.*>$', m_deref_drop)]
    eng = chk.engine(fns, decls, overrides=ov, loop_bound=6)
    eng.atom_strings = True
    return eng

EXT = Function('override_ext', IntSort(), IntSort())      # extension token of an opaque (override) path; 0 = none
VERSION_PIECES = (Int('version_stem'), Int('version_last'))    # `x.y.z[-pre][+build]` always contains a dot: stem "." last piece

def concrete_text(s_):
    if isinstance(s_, StrV):
        n = engine.conc(s_.len); off = engine.conc(s_.off)
        return bytes(engine.conc(s_.buf[off + i]) for i in range(n)).decode()
    raise engine.EngineError(f'concrete text of {s_!r}')

def run_variant(chk, features, nseg):
    fns = chk.load('wac-resolver', features); decls = chk.decls('wac-resolver')
    eng = make_engine(chk, fns, decls, features)
    fname = eng.find_fn(r'^fs::<impl at [^>]*>::resolve$')
    segs = [Int(f'seg{i}') for i in range(nseg)]
    name = Lazy('keyname', '&str'); name.extra['segments'] = segs
    has_ver = z3.Bool('key_has_version')
    version = Enum('Option', If(has_ver, bv64(1), bv64(0)), {'None': (), 'Some': (Ref(Lazy('version', 'semver::Version'), ()),)})
    key = Agg((name, version), 'BorrowedPackageKey')
    korder = [n for n, t in decls.structs['BorrowedPackageKey'][1]]
    kf = [None, None]; kf[korder.index('name')] = name; kf[korder.index('version')] = version; key = Agg(kf, 'BorrowedPackageKey')
    span = Lazy('span', 'SourceSpan')
    keys = MapV(((key, span),))
    ROOT = Int('root_path'); OVR = Int('override_path')
    ov_present = z3.Bool('override_present'); err_unknown = z3.Bool('error_on_unknown')
    forder = [n for n, t in decls.structs['FileSystemPackageResolver'][1]]
    ff = [None] * 3
    ff[forder.index('root')] = PathV(((ROOT,),)); ff[forder.index('overrides')] = GMapV(((ov_present, name, PathV(((OVR,),))),), True)
    ff[forder.index('error_on_unknown')] = err_unknown
    st = engine.State(); slf = Ref(st.alloc(Agg(ff, 'FileSystemPackageResolver'))); kref = Ref(st.alloc(keys))
    fn = eng.fns[fname]; fr = engine.Frame(fn)
    for (loc, ty), a in zip(fn.params, [slf, kref]): fr.env[loc] = st.alloc(a)
    st.frames = [fr]; eng.run(st)
    chk.account(eng, [fname, 'append_extension'])
    toks = segs + list(VERSION_PIECES) + [ROOT, OVR]
    dom = [t > 0 for t in toks] + [z3.Distinct(*toks)]
    dom += [z3.ForAll([z3.Const('p', SEQ)], And(KIND(z3.Const('p', SEQ)) >= 0, KIND(z3.Const('p', SEQ)) <= 2))] if False else []
    return eng, eng.out, dict(segs=segs, has_ver=has_ver, ROOT=ROOT, OVR=OVR, ov_present=ov_present, err_unknown=err_unknown, key=key, dom=dom)

def oracle(features, S):
    """the documented decision table -> (kind, payload): kind in ok-content | ok-skipped | err"""
    base_comps = ((S['ROOT'],),) + tuple((s_,) for s_ in S['segs'])
    base_v = PathV(base_comps + (VERSION_PIECES,)); base_n = PathV(base_comps)
    def kind(p): return KIND(p.seq())
    def with_ext(p, ext): return PathV(p.comps[:-1] + (p.comps[-1] + (TOK[ext],),))
    override = PathV(((S['OVR'],),))
    use_override = And(S['ov_present'], Not(S['has_ver']))
    cases = []     # (condition, expected outcome)
    for hv, base in ((True, base_v), (False, base_n)):
        gv = (S['has_ver'] if hv else Not(S['has_ver']))
        # candidate path when no override applies
        cands = [(kind(base) == DIR, base)]
        wasm = with_ext(base, 'wasm'); wat = with_ext(base, 'wat')
        if 'wat' in features:
            cands.append((And(kind(base) != DIR, kind(wat) != ABSENT), wat)); cands.append((And(kind(base) != DIR, kind(wat) == ABSENT), wasm))
        else:
            cands.append((kind(base) != DIR, wasm))
        for c, p in cands:
            cases.append((And(gv, Not(use_override), c), p, None))
    cases.append((And(use_override, kind(override) != FILE), None, 'PackageResolutionFailure'))
    cases.append((And(use_override, kind(override) == FILE), override, None))
    return cases

def expected_for_path(features, S, p, path_ext):
    """given the chosen path p: list of (condition, outcome) with outcome = ('err', name) | ('skip',) | ('content', tag)"""
    k = KIND(p.seq()); out = []
    ext_is = lambda e: path_ext(p) == TOK[e]
    notwit = BoolVal(True)
    if 'wit' in features:
        # a directory is a WIT package; a `.wit` file too
        out.append((k == DIR, ('wit', p))); out.append((And(k != DIR, ext_is('wit')), ('wit', p)))
        notwit = And(k != DIR, Not(ext_is('wit')))
    out.append((And(notwit, k != FILE, S['err_unknown']), ('err', 'UnknownPackage')))
    out.append((And(notwit, k != FILE, Not(S['err_unknown'])), ('skip',)))
    rd = And(notwit, k == FILE)
    out.append((And(rd, Not(READ_OK(p.seq()))), ('err', 'PackageResolutionFailure')))
    if 'wat' in features:
        isw = ext_is('wat')
        out.append((And(rd, READ_OK(p.seq()), isw, Not(WAT_OK(p.seq()))), ('err', 'PackageResolutionFailure')))
        out.append((And(rd, READ_OK(p.seq()), isw, WAT_OK(p.seq()), WAT_TEXT(p.seq())), ('content', p, 'wat-encoded')))
        out.append((And(rd, READ_OK(p.seq()), isw, WAT_OK(p.seq()), Not(WAT_TEXT(p.seq()))), ('content', p, None)))
        out.append((And(rd, READ_OK(p.seq()), Not(isw)), ('content', p, None)))
    else:
        out.append((And(rd, READ_OK(p.seq())), ('content', p, None)))
    return out

def classify_outcome(o):
    """what the real code did on this path: ('err', variant) | ('skip',) | ('content', PathV, tag) | ('wit', PathV, ok?)"""
    if o.kind != 'ret': return (o.kind, str(o.site))
    v = o.value
    if 'Err' in v.vars:
        e = v.vars['Err'][0]; return ('err', list(e.vars)[0] if isinstance(e, Enum) and e.vars else '?')
    m = v.vars['Ok'][0]
    if not m.entries: return ('skip',)
    c = m.entries[0][1]
    c = c if isinstance(c, Agg) else None
    if c is None: return ('content', None, None)
    tag = c.f[1] if len(c.f) > 1 else None
    return ('content', c.f[0], tag)

def path_ext_fn(p):
    last = p.comps[-1]
    if len(last) > 1: return last[-1]
    if len(p.comps) == 1: return EXT(last[0])
    return IntVal(0)

def check_variant(chk, features, nseg):
    eng, outs, S = run_variant(chk, features, nseg)
    base = list(eng.assumptions) + S['dom']
    tag = f'[features: {features or "none"}; {nseg} name segment(s)]'
    bads = []
    cases = oracle(features, S)
    for o in outs:
        got = classify_outcome(o)
        oks = []
        for cond, p, err in cases:
            if err is not None:
                oks.append(And(cond, BoolVal(got == ('err', err)))); continue
            for c2, exp in expected_for_path(features, S, p, path_ext_fn):
                if exp[0] == 'err': match = got == ('err', exp[1])
                elif exp[0] == 'skip': match = got == ('skip',)
                elif exp[0] == 'wit':
                    # WIT package: parse + encode are opaque; accept the encoded content of that path or a resolution failure
                    match = (got[0] == 'content' and got[1] is not None and got[1].comps == exp[1].comps and got[2] == 'wit-encoded') or got == ('err', 'PackageResolutionFailure')
                else:
                    match = got[0] == 'content' and got[1] is not None and got[1].comps == exp[1].comps and got[2] == exp[2]
                oks.append(And(cond, c2, BoolVal(bool(match))))
        bads.append((o, got, And(o.cond(), Not(Or(oks)))))
    r, m = chk.obligation(f'resolve {tag}: outcome = documented decision table for every file system, override, version and mode',
                          base + [Or([c for _, _, c in bads])], base=base)
    if r == 'sat':
        hit = [(o, g) for o, g, c in bads if ev_bool(m, c)][0]
        case = realise(m, S, features, nseg)
        nat = chk.native(case)
        exp = reference_fs(case)
        if nat.get('result') != exp:
            chk.finding(f'fs-resolve-{features or "plain"}', f'FileSystemPackageResolver::resolve deviates from the documented lookup: layout {case["layout"]}, key {case["key"]}, override={case.get("override")}, '
                        f'error_on_unknown={case["error_on_unknown"]}: got {nat.get("result")}, documented {exp}', case)
        else:
            raise Inconclusive(f'resolve {tag}: counterexample does not reproduce natively: model outcome {hit[1]}, case {case}, native {nat}')
    # witnesses (reachability + translator validation): one per path
    step = max(1, len(outs) // 10)
    for o in outs[::step]:
        r, m = chk.solve(f'resolve {tag}: witness', base + [o.cond()])
        if r != 'sat': continue
        case = realise(m, S, features, nseg); nat = chk.native(case); exp = reference_fs(case)
        chk.sample({'features': features, 'case': {k: case[k] for k in ('layout', 'key', 'override', 'error_on_unknown')}, 'native': nat.get('result')})
        if nat.get('result') != exp: raise Inconclusive(f'resolve {tag}: native result {nat.get("result")} differs from the Python reference {exp} on {case}')
    chk.notes.append(f'resolve {tag}: {len(outs)} paths')

# ---------------------------------------------------------------------------- native realisation: a real directory tree

def realise(m, S, features, nseg):
    """concrete directory layout: kind of each candidate path under the model"""
    ev = lambda t: m.eval(t, model_completion=True)
    segs = [f's{i}' for i in range(nseg)]
    hv = z3.is_true(ev(S['has_ver']))
    ver = '1.2.3'
    base_comps = ((S['ROOT'],),) + tuple((s_,) for s_ in S['segs'])
    base = PathV(base_comps + ((VERSION_PIECES,) if hv else ()))
    rel = '/'.join(segs + ([ver] if hv else []))
    def kind(p): return ev(KIND(p.seq())).as_long() % 3
    def w(p, e): return PathV(p.comps[:-1] + (p.comps[-1] + (TOK[e],),))
    layout = {}
    layout[rel] = ['absent', 'file', 'dir'][kind(base)]
    for e in ('wasm', 'wat'):
        layout[rel + '.' + e] = ['absent', 'file', 'dir'][kind(w(base, e))]
    # the mistaken candidates a buggy implementation may look at (extension replacing the version's last component)
    if hv:
        stem = '/'.join(segs + ['1.2'])
        for e in ('wasm', 'wat'):
            p = PathV(base_comps + ((VERSION_PIECES[0], TOK[e]),)); layout[stem + '.' + e] = ['absent', 'file', 'dir'][kind(p)]
    ovp = PathV(((S['OVR'],),)); ov_present = z3.is_true(ev(S['ov_present']))
    ov_ext = {TOK[k].as_long(): k for k in TOK}.get(ev(EXT(S['OVR'])).as_long(), 'bin')
    case = {'op': 'fs_resolve', 'features': features, 'layout': layout, 'key': {'name': ':'.join(segs), 'version': ver if hv else None},
            'override': ({'kind': ['absent', 'file', 'dir'][kind(ovp)], 'ext': ov_ext} if ov_present else None),
            'error_on_unknown': z3.is_true(ev(S['err_unknown']))}
    return case

def reference_fs(case):
    """plain-Python reference of the documented lookup over the concrete layout -> result descriptor compared with the native one"""
    L = case['layout']; key = case['key']; feats = case['features'] or ''
    rel = '/'.join(key['name'].split(':') + ([key['version']] if key['version'] else []))
    if case['override'] is not None and key['version'] is None:
        if case['override']['kind'] != 'file': return {'err': 'PackageResolutionFailure'}
        path = 'OVERRIDE.' + case['override']['ext']; kind = 'file'
    else:
        if L.get(rel, 'absent') == 'dir': path = rel
        else:
            path = rel + '.wasm'
            if 'wat' in feats and L.get(rel + '.wat', 'absent') != 'absent': path = rel + '.wat'
        kind = L.get(path, 'absent')
    if 'wit' in feats and (kind == 'dir' or path.endswith('.wit')): return {'wit': 'OVERRIDE' if path.startswith('OVERRIDE') else path}
    if kind != 'file': return {'err': 'UnknownPackage'} if case['error_on_unknown'] else {'skipped': True}
    if 'wat' in feats and path.endswith('.wat'): return {'content_of': path, 'converted': 'wat'}
    return {'content_of': path}

def body(chk):
    chk.assumptions += ['file system = uninterpreted functions of the path (kind, readability, content); names and version strings are abstract tokens; a version string contains a dot',
                        'WIT parsing/encoding and WAT parsing are opaque with arbitrary success; a `.wat` file either is text (converted) or already binary',
                        'one key per call (further keys repeat the same loop body)']
    chk.bounds['keys'] = {'keys_per_call': 1, 'name_segments': '1..3', 'features': ['none', 'wat', 'wit']}
    parts = []
    for features in ('', 'wat', 'wit'):
        for nseg in chk.pick((2,), (1, 2, 3)):
            parts.append((f'resolve[{features or "none"},{nseg}]', lambda c, f=features, n=nseg: check_variant(c, f, n), ()))
    chk.parallel(parts)

if __name__ == '__main__':
    harness.run_check('C18', body)
