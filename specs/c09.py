"""C09 — merged import requirements satisfy every contributor, order-independently.

Encoded (real MIR, wac-types dump): TypeAggregator::aggregate (naming / redirect step, one inductive step from an arbitrary state
satisfying the naming invariant), find_semver_compatible_import (abstractly inside aggregate and with real strings on its own),
canonical_import_name, merge_interface (export merge rule with `<:` an uninterpreted preorder).
"""
import sys, os, re, json, itertools
sys.path.insert(0, os.path.dirname(os.path.dirname(os.path.abspath(__file__))))
import z3
from z3 import And, Or, Not, If, BoolVal, BitVecVal, ULT, ULE, UGT, UGE, Implies, Int, Function, IntSort, BoolSort
from m2s import harness, engine, models, containers
from m2s.engine import Lazy, Agg, Enum, StrV, Ref, Opaque, bv64, UNIT, fresh_id
from m2s.containers import VecV, MapV, lazy_atom, Atom, to_atom
from m2s.harness import ev_int, ev_bool, ev_bytes, run_fn, Inconclusive
from specs import absnames as AN

def atom_of(x): return x.t if isinstance(x, Atom) else lazy_atom(x).t

def naming_invariant(imports, redirects):
    """imports: list of name terms (Int); redirects: list of (from, to) terms"""
    cs = []
    for a, b in itertools.combinations(imports, 2):
        cs += [a != b, Not(AN.same_track(a, b))]
    for (f, t) in redirects:
        cs.append(Or([t == i for i in imports]) if imports else BoolVal(False))       # target is an import
        cs += [f != i for i in imports]                                              # a superseded name is not an import itself
        cs.append(AN.same_track(f, t)); cs.append(Not(AN.triple_lt(t, f)))           # redirected to a name on its track that is not lower
    for (f1, t1), (f2, t2) in itertools.combinations(redirects, 2):
        cs.append(f1 != f2)
    return cs

def part_naming(chk, fns, decls):
    K = chk.pick(2, 3); R = chk.pick(2, 2)
    chk.bounds['aggregate/naming'] = {'existing_imports_max': K, 'existing_redirects_max': R, 'names': 'abstract identities with track key + version (assume-guarantee on alternate_lookup_key)'}
    merge_ok = z3.Bool('merge_ok'); remap_ok = z3.Bool('remap_ok')
    def m_merge(ctx):
        ctx.event('merge', ctx.args[1]); return ctx.ret(models.result(merge_ok, UNIT, Opaque('merge-error')))
    def m_remap(ctx):
        return ctx.ret(models.result(remap_ok, Lazy('remapped_kind', 'component::ItemKind'), Opaque('remap-error')))
    total = 0
    for ni in range(0, K + 1):
        for nr in range(0, R + 1):
            if nr and not ni: continue
            eng = chk.engine(fns, decls, overrides=AN.OVERRIDES + [(r'^TypeAggregator::merge_item_kind$', m_merge), (r'^TypeAggregator::remap_item_kind$', m_remap)],
                             loop_bound=K + R + 3)
            eng.atom_strings = True; eng.hash_order_symbolic = False
            fname = eng.find_fn(r'^aggregator::<impl at [^>]*>::aggregate$')
            imps = [Lazy(f'imp{i}', 'std::string::String') for i in range(ni)]
            kinds = [Lazy(f'kind{i}', 'component::ItemKind') for i in range(ni)]
            rf = [Lazy(f'rfrom{i}', 'std::string::String') for i in range(nr)]; rt = [Lazy(f'rto{i}', 'std::string::String') for i in range(nr)]
            name = Lazy('name', '&str')
            it = [atom_of(x) for x in imps]; rft = [(atom_of(a), atom_of(b)) for a, b in zip(rf, rt)]; nt = atom_of(name)
            allt = it + [t for p in rft for t in p] + [nt]
            for c in AN.linking(allt): eng.assume(c)
            # stated restriction of the universe: two different names on one track differ in the version triple
            # (names that differ only in build metadata are outside the naming-step claim)
            for a_, b_ in itertools.combinations(allt, 2):
                eng.assume(Implies(And(AN.same_track(a_, b_), Not(AN.triple_lt(a_, b_)), Not(AN.triple_lt(b_, a_))), a_ == b_))
            for c in naming_invariant(it, rft): eng.assume(c)
            f = [None] * 5
            order = [n for n, t in decls.structs['TypeAggregator'][1]]
            f[order.index('types')] = Lazy('agg_types', 'component::Types'); f[order.index('imports')] = MapV(tuple(zip(imps, kinds)))
            f[order.index('remapped')] = Opaque('remapped'); f[order.index('interfaces')] = Opaque('interfaces')
            f[order.index('name_redirects')] = MapV(tuple(zip(rf, rt)), hashed=True)
            slf = Agg(f, 'TypeAggregator')
            args = [slf, name, engine.norm_lazy(Lazy('types', '&component::Types')), Lazy('kind', 'component::ItemKind'),
                    Ref(engine.State().alloc(None))]
            st = harness.start(eng, fname, args[:4] + [Opaque('checker')])
            n0 = len(eng.out); eng.run(st); outs = eng.out[n0:]; chk.account(eng, [fname]); total += len(outs)
            base = list(eng.assumptions)
            bads = []; roles = []
            for o in outs:
                if o.kind != 'ret':
                    bads.append((o.cond(), 'panic', o)); continue
                v = o.value
                if 'Ok' not in v.vars:
                    # errors are allowed exactly when the opaque merge/remap failed
                    bads.append((And(o.cond(), merge_ok, remap_ok), 'spurious-error', o)); continue
                post = v.vars['Ok'][0]
                pimps = [atom_of(k) for k, _ in post.f[order.index('imports')].entries]
                pred = [(atom_of(a), atom_of(eng.deref(o.st, b))) for a, b in post.f[order.index('name_redirects')].entries]
                inv = naming_invariant(pimps, pred)
                # effect: the canonical name of `name` is an import on its track whose version is not lower
                canon = nt
                for (a, b) in pred: canon = If(a == nt, b, canon)
                eff = And(Or([canon == i for i in pimps]), Or(canon == nt, And(AN.same_track(canon, nt), Not(AN.triple_lt(canon, nt)))))
                # every old import is still reachable: it is an import, or redirected to one
                keep = []
                for i in it:
                    keep.append(Or([i == p for p in pimps] + [And(a == i, Or([b == p for p in pimps])) for a, b in pred]))
                # old redirects still end at an import
                for (a, b) in rft:
                    c2 = a
                    for (x, y) in pred: c2 = If(x == a, y, c2)
                    keep.append(Or([c2 == p for p in pimps]))
                bads.append((And(o.cond(), Not(And(inv + [eff] + keep))), 'invariant', o))
            r, m = chk.obligation(f'aggregate naming step ({ni} imports, {nr} redirects): invariant preserved, canonical name is the highest on its track, no panic',
                                  base + [Or([c for c, _, _ in bads])], base=base)
            if r == 'sat':
                hit = [(k, o) for c, k, o in bads if ev_bool(m, c)][0]
                seen = {}
                hist = realise_history(m, it, rft, nt, seen)
                nat = chk.native({'op': 'aggregate', 'reqs': [[n, {'instance': [['f', {'func': {'params': [], 'result': None}}]]}] for n in hist]}) if hist else {}
                exp = expected_canonical(hist) if hist else None
                if hist and 'canonical' in nat and (nat['canonical'] != exp['canonical'] or sorted(nat['imports']) != sorted(exp['imports'])):
                    chk.finding('aggregate-naming', f'aggregating {hist} gives imports {nat["imports"]} / canonical names {nat["canonical"]}, expected {exp}', {'op': 'aggregate', 'names': hist})
                elif hist and 'panic' in nat:
                    chk.finding('aggregate-naming-panic', f'aggregating {hist} panics: {nat["panic"]}', {'op': 'aggregate', 'names': hist})
                else:
                    raise Inconclusive(f'naming-step counterexample ({hit[0]}) is not reproduced by the history {hist}: native {nat}; the pre-state may be unreachable (strengthen the invariant)')
    chk.notes.append(f'naming step: {total} symbolic paths')
    # native validation of the reference on a few histories (translator validation)
    for hist in (['a:b/c@0.2.0', 'a:b/c@0.2.2', 'a:b/c@0.2.1'], ['a:b/c@1.2.0', 'a:b/c@1.0.0', 'x:y/z', 'a:b/c@2.0.0'], ['a:b/c@0.2.0', 'a:b/c@0.2.1', 'a:b/c@0.2.2']):
        nat = chk.native({'op': 'aggregate', 'reqs': [[n, {'instance': [['f', {'func': {'params': [], 'result': None}}]]}] for n in hist]})
        exp = expected_canonical(hist)
        chk.sample({'history': hist, 'native': nat})
        if nat.get('canonical') != exp['canonical']: raise Inconclusive(f'reference naming semantics disagrees with the real aggregator on {hist}: {nat} vs {exp}')

def realise_history(m, imports, redirects, name, seen):
    """a history of aggregate() calls that produces the model's pre-state, followed by `name`: for each import, first the names
    redirected to it (ascending), then the import itself (highest); finally the new name"""
    hist = []
    for i in imports:
        iv = m.eval(i, model_completion=True).as_long()
        lower = [f for f, t in redirects if m.eval(t, model_completion=True).as_long() == iv]
        for f in lower: hist.append(AN.render(m, f, seen))
        hist.append(AN.render(m, i, seen))
    hist.append(AN.render(m, name, seen))
    return hist

def expected_canonical(hist):
    def track(n):
        if '@' not in n: return None
        base, v = n.split('@', 1)
        mm = re.match(r'^(0|[1-9]\d*)\.(0|[1-9]\d*)\.(0|[1-9]\d*)(?:\+[0-9A-Za-z.-]+)?$', v)
        if not mm: return None
        a, b, c = int(mm.group(1)), int(mm.group(2)), int(mm.group(3))
        if a: return (base, a), (a, b, c)
        if b: return (base, 0, b), (a, b, c)
        return None
    best = {}; order = []
    for n in hist:
        t = track(n)
        key = t[0] if t else ('exact', n)
        if key not in best:
            best[key] = n; order.append(key)
        elif t and t[1] > track(best[key])[1]: best[key] = n
    return {'canonical': [best[track(n)[0] if track(n) else ('exact', n)] for n in hist], 'imports': [best[k] for k in order]}

def part_find_compatible(chk, fns, decls):
    """find_semver_compatible_import with real strings: returns the existing import on the same semver track (C15's oracle)"""
    from specs.c15 import oracle, in_alphabet
    from m2s.models import lazy_str, str_eq, substr
    N = chk.pick(8, 10)
    chk.bounds['find_semver_compatible_import'] = {'name_bytes_max': N, 'existing_imports': 1, 'alphabet': 'a 0 1 2 @ . :'}
    eng = chk.engine(fns, decls, str_cap=N, loop_bound=3)
    fname = eng.find_fn(r'^aggregator::<impl at [^>]*>::find_semver_compatible_import$')
    ex = Lazy('existing', 'std::string::String'); name = Lazy('name', '&str'); kind = Lazy('kind0', 'component::ItemKind')
    order = [n for n, t in decls.structs['TypeAggregator'][1]]
    f = [Opaque('x')] * 5; f[order.index('imports')] = MapV(((ex, kind),))
    st0 = engine.State(); slf = Ref(st0.alloc(Agg(f, 'TypeAggregator')))
    fn = eng.fns[fname]; fr = engine.Frame(fn)
    for (loc, ty), a in zip(fn.params, [slf, name]): fr.env[loc] = st0.alloc(a)
    st0.frames = [fr]; eng.run(st0); outs = eng.out; chk.account(eng, [fname, 'alternate_lookup_key'])
    se = lazy_str(eng, ex); sn = lazy_str(eng, name)
    alpha = b'a012@.:'
    base = list(eng.assumptions) + [in_alphabet(se, alpha), in_alphabet(sn, alpha)]
    oe = oracle(se); on = oracle(sn)
    same_base = str_eq(substr(se, bv64(0), oe['at']), substr(sn, bv64(0), on['at']))
    pe, pn = oe['p'], on['p']
    track = Or(And(pe['major'] != bv64(0), pe['major'] == pn['major']), And(pe['major'] == bv64(0), pn['major'] == bv64(0), pe['minor'] == pn['minor']))
    spec = And(oe['on_track'], on['on_track'], same_base, track)
    bads = []
    for o in outs:
        if o.kind != 'ret': bads.append(o.cond()); continue
        bads.append(And(o.cond(), (o.value.disc == bv64(1)) != spec))
    r, m = chk.obligation('find_semver_compatible_import: Some exactly for an existing import on the same semver track', base + [Or(bads)], base=base)
    if r == 'sat':
        a, b = ev_bytes(m, se).decode(), ev_bytes(m, sn).decode()
        nat = chk.native({'op': 'aggregate', 'reqs': [[a, {'instance': [['f', {'func': {'params': [], 'result': None}}]]}], [b, {'instance': [['f', {'func': {'params': [], 'result': None}}]]}]]})
        exp = expected_canonical([a, b])
        if nat.get('imports') is not None and sorted(nat['imports']) != sorted(exp['imports']):
            chk.finding('find-compatible-import', f'aggregating `{a}` then `{b}`: imports {nat["imports"]}, expected {exp["imports"]} (semver-track matching is wrong)', {'op': 'aggregate', 'names': [a, b]})
        elif 'error' in nat or 'panic' in nat:
            chk.finding('find-compatible-import', f'aggregating `{a}` then `{b}` fails: {nat}', {'op': 'aggregate', 'names': [a, b]})
        else: raise Inconclusive(f'find_semver_compatible_import counterexample ({a!r}, {b!r}) does not reproduce: {nat}')
    for want in (True, False):
        c = [And(o.cond(), (o.value.disc == bv64(1)) == BoolVal(want)) for o in outs if o.kind == 'ret']
        r, m = chk.solve(f'find_compatible/witness {want}', base + [Or(c)])
        if r != 'sat':
            if want: raise Inconclusive('find_semver_compatible_import: no witness for a match (vacuous)')
            continue
        a, b = ev_bytes(m, se).decode(), ev_bytes(m, sn).decode()
        nat = chk.native({'op': 'aggregate', 'reqs': [[a, {'instance': []}], [b, {'instance': []}]]})
        chk.sample({'existing': a, 'name': b, 'native_imports': nat.get('imports')})
        merged = len(nat.get('imports', [])) == 1
        if a != b and merged != want: raise Inconclusive(f'witness mismatch for ({a!r},{b!r}): predicted match={want}, native {nat}')

def part_merge_interface(chk, fns, decls):
    """merge_interface export rule with `<:` an uninterpreted preorder: the merged export must satisfy both contributors"""
    K = chk.pick(2, 2)
    chk.bounds['merge_interface'] = {'exports_per_side_max': K}
    sub = Function('sub', IntSort(), IntSort(), BoolSort())          # sub(x, y): x <: y
    ids = {}
    def ident(x):
        x = x.base if isinstance(x, Ref) and isinstance(x.base, Lazy) else x
        nm = x.name if isinstance(x, (Lazy, Opaque)) else repr(x)
        nm = re.sub(r'^remap\((.*)\)$', r'\1', nm)                       # a remapped copy stands for its source (remap contract)
        if nm not in ids: ids[nm] = Int('item:' + nm)
        return ids[nm]
    used_ok = z3.Bool('used_types_ok'); remap_ok = z3.Bool('remap_ok2')
    def m_is_subtype(ctx):
        a = ctx.deref(ctx.args[1]); b = ctx.deref(ctx.args[3])
        return ctx.ret(models.result(sub(ident(a), ident(b)), UNIT, Opaque('subtype-error')))
    def m_remap(ctx):
        k = ctx.deref(ctx.args[2]); return ctx.ret(models.result(remap_ok, Opaque(f'remap({k.name})'), Opaque('remap-error')))
    def m_used(ctx): return ctx.ret(models.result(used_ok, UNIT, Opaque('used-error')))
    def m_ty(ctx): return ctx.ret(Opaque('ty'))
    def m_noop(ctx): return ctx.ret(models.none())
    def m_context(ctx): return ctx.ret(ctx.args[0])
    for nt in range(0, K + 1):
        tgt_names = [Lazy(f'tname{i}', 'std::string::String') for i in range(nt)]; tgt_kinds = [Lazy(f'tkind{i}', 'component::ItemKind') for i in range(nt)]
        eng = None
        st0 = engine.State()
        iface_order = [n for n, t in decls.structs['Interface'][1]]
        tf = [None] * 3; tf[iface_order.index('id')] = Opaque('id'); tf[iface_order.index('uses')] = Opaque('uses'); tf[iface_order.index('exports')] = MapV(tuple(zip(tgt_names, tgt_kinds)))
        tcell = st0.alloc(Agg(tf, 'Interface'))
        src_types = engine.norm_lazy(Lazy('types', '&component::Types'))
        def m_index(ctx):
            base = ctx.args[0]; idv = ctx.deref(ctx.args[1])
            b0 = ctx.deref(base) if isinstance(base, Ref) else base
            if isinstance(b0, Lazy) and b0.name.startswith('types'):
                return ctx.ret(Ref(b0.kid(f'[{idv.name}]', 'component::Interface'), ()))
            return ctx.ret(Ref(tcell, ()))
        eng = chk.engine(fns, decls, vec_cap=K, loop_bound=K + 2, overrides=[
            (r'^checker::SubtypeChecker::<.*>::is_subtype$', m_is_subtype), (r'^TypeAggregator::remap_item_kind$', m_remap),
            (r'^TypeAggregator::merge_interface_used_types$', m_used), (r'^component::ItemKind::ty$', m_ty),
            (r'^HashMap::<component::Type, component::Type>::insert$', m_noop),
            (r'^<component::Types as Index(?:Mut)?<component::InterfaceId>>::index(?:_mut)?$', m_index),
            (r'^<(?:std::result::)?Result<.*> as anyhow::Context<.*>>::(?:with_context|context)(?:::<.*>)?$', m_context)])
        eng.atom_strings = True
        fname = eng.find_fn(r'^aggregator::<impl at [^>]*>::merge_interface$')
        agg_order = [n for n, t in decls.structs['TypeAggregator'][1]]
        af = [Opaque('x')] * 5; af[agg_order.index('types')] = Lazy('selftypes', 'component::Types'); af[agg_order.index('remapped')] = MapV((), True)
        slf = Ref(st0.alloc(Agg(af, 'TypeAggregator')))
        existing = Lazy('existing', 'component::InterfaceId'); sid = Lazy('id', 'component::InterfaceId')
        fn = eng.fns[fname]; fr = engine.Frame(fn)
        for (loc, ty), a in zip(fn.params, [slf, existing, src_types, sid, Opaque('checker')]): fr.env[loc] = st0.alloc(a)
        st0.frames = [fr]; eng.run(st0); outs = eng.out; chk.account(eng, [fname])
        src_exports = src_types.base.kid(f'[{sid.name}]').kid(str(iface_order.index('exports')))
        sitems = [(src_exports.kid(f'[{j}].k'), src_exports.kid(f'[{j}].v')) for j in range(K)]
        # well-formedness: distinct keys on both sides; `<:` reflexive and transitive on the items involved
        tn = [lazy_atom(x).t for x in tgt_names]
        base = list(eng.assumptions) + [a != b for a, b in itertools.combinations(tn, 2)]
        for (ka, _), (kb, _) in itertools.combinations(list(enumerate(sitems)), 2): pass
        for j1 in range(K):
            for j2 in range(j1 + 1, K):
                base.append(Or(UGE(bv64(j2), src_exports.len()), lazy_atom(sitems[j1][0]).t != lazy_atom(sitems[j2][0]).t))
        all_items = [ident(k) for k in tgt_kinds] + [ident(v) for _, v in sitems]
        for x in all_items: base.append(sub(x, x))
        for x, y, z_ in itertools.permutations(all_items, 3): base.append(Implies(And(sub(x, y), sub(y, z_)), sub(x, z_)))
        bads = []
        for o in outs:
            if o.kind != 'ret': bads.append((o.cond(), 'panic', o)); continue
            v = o.value; is_ok = 'Ok' in v.vars
            # expected failure condition: an opaque step failed, or some common name has incomparable requirements
            conflict = []
            for j, (sk, sv) in enumerate(sitems):
                for i in range(nt):
                    conflict.append(And(ULT(bv64(j), src_exports.len()), lazy_atom(sk).t == tn[i], Not(sub(ident(sv), ident(tgt_kinds[i]))), Not(sub(ident(tgt_kinds[i]), ident(sv)))))
            must_fail = Or([Not(used_ok), Not(remap_ok)] + conflict)
            if not is_ok:
                bads.append((And(o.cond(), Not(must_fail)), 'spurious-error', o)); continue
            post = o.st.heap[tcell].f[iface_order.index('exports')]
            cs = []
            # (1) every source export is present and the merged entry satisfies the source requirement: merged <: source
            for j, (sk, sv) in enumerate(sitems):
                present = []
                for (pk, pv) in post.entries:
                    present.append(And(lazy_atom(pk).t == lazy_atom(sk).t, sub(ident(pv), ident(sv))))
                cs.append(Implies(ULT(bv64(j), src_exports.len()), Or(present) if present else BoolVal(False)))
            # (2) every target export is still present and the merged entry satisfies the old target requirement
            for i in range(nt):
                present = []
                for (pk, pv) in post.entries:
                    present.append(And(lazy_atom(pk).t == tn[i], sub(ident(pv), ident(tgt_kinds[i]))))
                cs.append(Or(present) if present else BoolVal(False))
            bads.append((And(o.cond(), Or(Not(And(cs)), And(must_fail, Not(Or(Not(used_ok), Not(remap_ok)))) if False else Not(And(cs)))), 'merged-does-not-satisfy', o))
        r, m = chk.obligation(f'merge_interface ({nt} existing exports): merged exports satisfy both contributors; fails exactly on incomparable requirements', base + [Or([c for c, _, _ in bads])], base=base)
        if r == 'sat':
            kindhit = [k for c, k, o in bads if ev_bool(m, c)][0]
            # realise: one shared name `x`; the narrower requirement is instance{a,b}, the wider instance{a}
            wide = {'instance': [['a', {'value': {'prim': 'u8'}}]]}; narrow = {'instance': [['a', {'value': {'prim': 'u8'}}], ['b', {'value': {'prim': 'u8'}}]]}
            worst = None
            for first, second in ((wide, narrow), (narrow, wide)):
                nat = chk.native({'op': 'aggregate', 'reqs': [['i', {'instance': [['x', first]]}], ['i', {'instance': [['x', second]]}]]})
                if nat.get('satisfies') and False in nat['satisfies']: worst = (first, second, nat)
            if worst:
                chk.finding('merge-keeps-supertype-export', f'merge_interface ({kindhit}): aggregating i:{{x:{json.dumps(worst[0])}}} and i:{{x:{json.dumps(worst[1])}}} succeeds but the merged import does not satisfy every contributor: {worst[2]}',
                            {'op': 'aggregate', 'reqs': [['i', {'instance': [['x', worst[0]]]}], ['i', {'instance': [['x', worst[1]]]}]]})
            else:
                raise Inconclusive(f'merge_interface counterexample ({kindhit}) is not reproduced by the nested-instance realisation')
            # re-ask with the known class excluded (no strictly ordered pair of requirements under a common name): anything left is a different defect
            excl = []
            for j, (sk, sv) in enumerate(sitems):
                for i in range(nt):
                    excl.append(Implies(And(ULT(bv64(j), src_exports.len()), lazy_atom(sk).t == tn[i]), sub(ident(sv), ident(tgt_kinds[i])) == sub(ident(tgt_kinds[i]), ident(sv))))
            r2, m2 = chk.obligation(f'merge_interface ({nt} existing exports), strictly-ordered common requirements excluded', base + excl + [Or([c for c, _, _ in bads])], base=base + excl)
            if r2 == 'sat':
                k2 = [k for c, k, o in bads if ev_bool(m2, c)][0]
                chk.finding('merge-interface-other', f'merge_interface violates its merge rule ({k2}) even when no common export has strictly ordered requirements (rule-level model, not replayed natively)', {'rule': 'merge_interface', 'kind': k2})

def body(chk):
    fns = chk.load('wac-types'); decls = chk.decls('wac-types')
    chk.assumptions += ['alternate_lookup_key replaced by its contract (verified in C15) over abstract names in the naming step',
                        'merge_item_kind / remap_item_kind opaque in the naming step (arbitrary success/failure)',
                        '`<:` an arbitrary preorder in the merge rule; remap_* returns a copy equivalent to its source',
                        'deep-copy correctness of remap_* and merge_world/merge_module_type are outside the claim']
    chk.part('naming step', part_naming, chk, fns, decls)
    chk.part('find_semver_compatible_import', part_find_compatible, chk, fns, decls)
    chk.part('merge_interface', part_merge_interface, chk, fns, decls)

if __name__ == '__main__':
    harness.run_check('C09', body)
