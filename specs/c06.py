"""C06 — the graph API stays consistent over every operation history (one inductive step per operation).

Encoded (real MIR, wac-graph dump): CompositionGraph::{remove_node, export, unexport, import, set_instantiation_argument (+ add_edge),
unset_instantiation_argument, unregister_package, alias_instance_export, instantiate}.
Pre-state: an ARBITRARY graph of <= NN node slots, <= EE edge slots, maps with <= M entries, constrained only by the representation
invariant RI. Obligation per operation: no panic with live identifiers, RI holds afterwards. By induction this covers histories of
any length made of the encoded operations. Counterexamples are rebuilt through the public API (state realiser) and replayed natively
against the add-only invariant hook CompositionGraph::verif_invariants().
"""
import sys, os, re, json, itertools
sys.path.insert(0, os.path.dirname(os.path.dirname(os.path.abspath(__file__))))
import z3
from z3 import And, Or, Not, If, BoolVal, BitVecVal, ULT, ULE, UGT, UGE, Implies, Int, Bool, BitVec
from m2s import harness, engine, models, containers, graphmodel
from m2s.engine import Lazy, Agg, Enum, StrV, Ref, Opaque, bv64, UNIT, fresh_id
from m2s.containers import VecV, MapV, lazy_atom, Atom
from m2s.graphmodel import GraphV, GMapV, BitSetV, bv32, node_index
from m2s.harness import ev_int, ev_bool, Inconclusive

DEF, IMP, INST, ALIAS = 0, 1, 2, 3
E_ALIAS, E_ARG, E_DEP = 0, 1, 2
IK_INSTANCE = 2     # ItemKind::Instance discriminant (checked against the declarations at run time)

class Model:
    """symbolic bounded CompositionGraph state"""
    def __init__(s, tag, NN, EE, M, ARGS, P):
        s.NN, s.EE, s.M, s.ARGS, s.P = NN, EE, M, ARGS, P
        s.live = [Bool(f'{tag}live{i}') for i in range(NN)]
        s.kind = [BitVec(f'{tag}kind{i}', 64) for i in range(NN)]
        s.impname = [Lazy(f'{tag}impname{i}', 'std::string::String') for i in range(NN)]
        s.sat = [[Bool(f'{tag}sat{i}_{k}') for k in range(ARGS)] for i in range(NN)]
        s.haspkg = [Bool(f'{tag}haspkg{i}') for i in range(NN)]
        s.pidx = [BitVec(f'{tag}pidx{i}', 64) for i in range(NN)]; s.pgen = [BitVec(f'{tag}pgen{i}', 64) for i in range(NN)]
        s.ik = [Lazy(f'{tag}ik{i}', 'wac_types::ItemKind') for i in range(NN)]
        s.hasexp = [Bool(f'{tag}hasexp{i}') for i in range(NN)]
        s.expname = [Lazy(f'{tag}expname{i}', 'std::string::String') for i in range(NN)]
        s.elive = [Bool(f'{tag}elive{j}') for j in range(EE)]
        s.src = [BitVec(f'{tag}src{j}', 32) for j in range(EE)]; s.dst = [BitVec(f'{tag}dst{j}', 32) for j in range(EE)]
        s.ek = [BitVec(f'{tag}ek{j}', 64) for j in range(EE)]; s.ei = [BitVec(f'{tag}ei{j}', 64) for j in range(EE)]
        mk = lambda nm, ty: [(Bool(f'{tag}{nm}live{e}'), Lazy(f'{tag}{nm}key{e}', ty), BitVec(f'{tag}{nm}val{e}', 32)) for e in range(M)]
        s.imports = mk('imp', 'std::string::String'); s.exports = mk('exp', 'std::string::String'); s.defined = mk('def', 'wac_types::Type')
        s.pk_some = [Bool(f'{tag}pkgsome{p}') for p in range(P)]; s.pk_gen = [BitVec(f'{tag}pkggen{p}', 64) for p in range(P)]
        s.pkg = [Lazy(f'{tag}pkg{p}', 'wac_types::Package') for p in range(P)]
    def node_value(s, i):
        kind = Enum('NodeKind', s.kind[i], {'Definition': (), 'Import': (s.impname[i],), 'Instantiation': (BitSetV(s.sat[i]),), 'Alias': ()})
        pkg = Enum('Option', If(s.haspkg[i], bv64(1), bv64(0)), {'None': (), 'Some': (Agg((s.pidx[i], s.pgen[i]), 'PackageId'),)})
        exp = Enum('Option', If(s.hasexp[i], bv64(1), bv64(0)), {'None': (), 'Some': (s.expname[i],)})
        return Agg((kind, pkg, s.ik[i], Enum('Option', bv64(0), {'None': ()}), exp), 'Node')
    def graph_value(s):
        nodes = [(s.live[i], s.node_value(i)) for i in range(s.NN)]
        edges = [(s.elive[j], s.src[j], s.dst[j], Enum('Edge', s.ek[j], {'Alias': (s.ei[j],), 'Argument': (s.ei[j],), 'Dependency': ()})) for j in range(s.EE)]
        return GraphV(nodes, edges)
    def value(s, decls):
        order = [n for n, t in decls.structs['CompositionGraph'][1]]
        f = [None] * len(order)
        f[order.index('graph')] = s.graph_value()
        gm = lambda ents, hashed: GMapV(tuple((l, k, node_index(v)) for l, k, v in ents), hashed)
        f[order.index('imports')] = gm(s.imports, True); f[order.index('exports')] = gm(s.exports, False); f[order.index('defined')] = gm(s.defined, True)
        f[order.index('package_map')] = Opaque('package_map')
        f[order.index('packages')] = VecV(tuple(Agg((Enum('Option', If(s.pk_some[p], bv64(1), bv64(0)), {'None': (), 'Some': (s.pkg[p],)}), s.pk_gen[p]), 'RegisteredPackage') for p in range(s.P)))
        s.gtypes = Lazy('gtypes', 'wac_types::Types')
        f[order.index('free_packages')] = VecV(()); f[order.index('types')] = s.gtypes; f[order.index('type_check_cache')] = Opaque('cache')
        return Agg(f, 'CompositionGraph')

# ---------------------------------------------------------------------------- reading a (pre or post) state value back into terms

def atom(x):
    if isinstance(x, Atom): return x.t
    if isinstance(x, Lazy): return lazy_atom(x).t
    raise engine.EngineError(f'atom of {x!r}')

class View:
    """uniform accessors over a CompositionGraph value (Agg) so that RI can be stated for pre- and post-states alike"""
    def __init__(s, eng, st, val, decls, ARGS, P):
        order = [n for n, t in decls.structs['CompositionGraph'][1]]
        s.g = val.f[order.index('graph')]; s.imports = val.f[order.index('imports')]; s.exports = val.f[order.index('exports')]
        s.defined = val.f[order.index('defined')]; s.packages = val.f[order.index('packages')]; s.eng = eng; s.st = st; s.ARGS = ARGS; s.P = P
        s.nn = len(s.g.nodes); s.ne = len(s.g.edges)
    def live(s, i): return s.g.nodes[i][0]
    def kind(s, i): return s.g.nodes[i][1].f[0].disc
    def impname(s, i):
        k = s.g.nodes[i][1].f[0]; return atom(k.vars['Import'][0]) if 'Import' in k.vars else None
    def satbits(s, i):
        k = s.g.nodes[i][1].f[0]; return k.vars['Instantiation'][0].bits if 'Instantiation' in k.vars else None
    def haspkg(s, i): return s.g.nodes[i][1].f[1].disc == bv64(1)
    def pkgid(s, i):
        p = s.g.nodes[i][1].f[1]; return p.vars['Some'][0].f if 'Some' in p.vars else None
    def ik(s, i): return s.g.nodes[i][1].f[2]
    def hasexp(s, i): return s.g.nodes[i][1].f[4].disc == bv64(1)
    def expname(s, i):
        e = s.g.nodes[i][1].f[4]; return atom(e.vars['Some'][0]) if 'Some' in e.vars else None
    def edge(s, j):
        l, a, b, w = s.g.edges[j]
        idx = None
        for v in ('Alias', 'Argument'):
            if v in w.vars and w.vars[v]: idx = w.vars[v][0]
        return l, a, b, w.disc, idx
    def sel(s, n, f, default):
        """f(i) for the slot denoted by index term n"""
        r = default
        for i in reversed(range(s.nn)): r = If(n == bv32(i), f(i), r)
        return r
    def map_entries(s, m):
        out = []
        for e in m.entries:
            if isinstance(m, GMapV): l, k, v = e
            else: (k, v), l = e, BoolVal(True)
            out.append((l, k, graphmodel.idx_term(s.eng, s.st, v)))
        return out

def ik_disc(x):
    return x.disc if isinstance(x, (Lazy, Enum)) else None
def ik_same(a, b):
    """identity of item kinds (only used for the `defined` map keys: ty(item_kind))"""
    return lazy_atom(a.kid('!ty', 'wac_types::Type')).t if isinstance(a, Lazy) else None

_TYIDS = {}
REFS = z3.Function('type_refs', z3.IntSort(), z3.IntSort(), z3.BoolSort())      # refs(t, d): type t references (transitively) the defined type d

def type_ident(x):
    """identity (Int) of a Type / ItemKind-type value: lazily instantiated ones by their atom, `Type::Value(ValueType::Defined(id))`
    aggregates built by the MIR by the atom of the id token"""
    if isinstance(x, Lazy):
        if x.ty and 'ItemKind' in x.ty: x = x.kid('!ty', 'wac_types::Type')
        return lazy_atom(x).t
    if isinstance(x, Enum):
        for fs in x.vars.values():
            if fs: return type_ident(fs[0])
    k = '_tyid%d' % id(x)
    if k not in _TYIDS: _TYIDS[k] = (x, Int(k))
    return _TYIDS[k][1]

def RI(v, name_eq_ty=None):
    """representation invariant as a dict clause-name -> formula"""
    nn, ne = v.nn, v.ne; A = v.ARGS
    cs = {}
    inr = lambda n: ULT(n, bv32(nn))
    livesel = lambda n: v.sel(n, v.live, BoolVal(False))
    kindsel = lambda n: v.sel(n, v.kind, bv64(99))
    E = [v.edge(j) for j in range(ne)]
    dom = []
    for i in range(nn): dom.append(Implies(v.live(i), ULT(v.kind(i), bv64(4))))
    for (l, a, b, k, idx) in E:
        dom.append(Implies(l, And(inr(a), inr(b), a != b, ULT(k, bv64(3)), livesel(a), livesel(b))))
        if idx is not None: dom.append(Implies(And(l, k != bv64(E_DEP)), ULT(idx, bv64(A))))
    cs['domain'] = And(dom)
    ek = []
    for (l, a, b, k, idx) in E:
        src_is_instance = v.sel(a, lambda i: (v.ik(i).disc == bv64(IK_INSTANCE)) if isinstance(v.ik(i), (Lazy, Enum)) else BoolVal(True), BoolVal(False))
        same_pkg = And(v.sel(a, v.haspkg, BoolVal(False)) == v.sel(b, v.haspkg, BoolVal(False)),
                       Implies(v.sel(a, v.haspkg, BoolVal(False)),
                               And(v.sel(a, lambda i: v.pkgid(i)[0] if v.pkgid(i) else bv64(0), bv64(0)) == v.sel(b, lambda i: v.pkgid(i)[0] if v.pkgid(i) else bv64(0), bv64(0)),
                                   v.sel(a, lambda i: v.pkgid(i)[1] if v.pkgid(i) else bv64(0), bv64(0)) == v.sel(b, lambda i: v.pkgid(i)[1] if v.pkgid(i) else bv64(0), bv64(0)))))
        ek.append(Implies(l, And(Implies(k == bv64(E_ALIAS), And(kindsel(b) == bv64(ALIAS), src_is_instance, same_pkg)),
                                 Implies(k == bv64(E_ARG), kindsel(b) == bv64(INST)),
                                 Implies(k == bv64(E_DEP), And(kindsel(a) == bv64(DEF), kindsel(b) == bv64(DEF))))))
    cs['edge_kinds'] = And(ek)
    # restrictions that make a pre-state buildable by the state realiser (assumed for pre-states only, never required of post-states)
    rz = []
    for (l, a, b, k, idx) in E:
        rz.append(Implies(And(l, k == bv64(E_ALIAS)), ULT(a, b)))                       # an alias node is created after its source (no index reuse)
        rz.append(Implies(And(l, k == bv64(E_ARG)), Or(kindsel(a) == bv64(IMP), kindsel(a) == bv64(ALIAS))))   # function-typed argument sources
        if idx is not None: rz.append(Implies(And(l, k == bv64(E_ALIAS)), ULT(idx, bv64(2))))
    for (x, y) in itertools.combinations(E, 2):
        rz.append(Not(And(x[0], y[0], x[3] == bv64(E_ALIAS), y[3] == bv64(E_ARG), x[1] == y[1])))   # an instance-typed import is not also a function argument
    cs['!realisable'] = And(rz) if rz else BoolVal(True)
    # satisfied set = incoming argument edges, at most one per index
    sat = []
    for i in range(nn):
        bits = v.satbits(i)
        if bits is None: continue
        for k in range(A):
            inc = [And(l, b == bv32(i), kd == bv64(E_ARG), idx == bv64(k)) for (l, a, b, kd, idx) in E if idx is not None]
            sat.append(Implies(And(v.live(i), v.kind(i) == bv64(INST)), bits[k] == (Or(inc) if inc else BoolVal(False))))
            for x, y in itertools.combinations(inc, 2): sat.append(Implies(And(v.live(i), v.kind(i) == bv64(INST)), Not(And(x, y))))
    cs['satisfied'] = And(sat) if sat else BoolVal(True)
    # alias nodes: exactly one incoming edge and it is an alias edge; one alias node per (instance, export index)
    al = []
    for i in range(nn):
        inc = [And(l, b == bv32(i)) for (l, a, b, kd, idx) in E]
        inc_alias = [And(l, b == bv32(i), kd == bv64(E_ALIAS)) for (l, a, b, kd, idx) in E]
        exactly_one = And(Or(inc_alias) if inc_alias else BoolVal(False), *[Not(And(x, y)) for x, y in itertools.combinations(inc, 2)]) if inc else BoolVal(False)
        al.append(Implies(And(v.live(i), v.kind(i) == bv64(ALIAS)), And(exactly_one, *[Implies(x, y) for x, y in zip(inc, inc_alias)])))
        # non-alias, non-instantiation, non-definition nodes have no incoming edges at all
        al.append(Implies(And(v.live(i), v.kind(i) == bv64(IMP)), Not(Or(inc)) if inc else BoolVal(True)))
    for (x, y) in itertools.combinations([e for e in E if e[4] is not None], 2):
        al.append(Not(And(x[0], y[0], x[3] == bv64(E_ALIAS), y[3] == bv64(E_ALIAS), x[1] == y[1], x[4] == y[4])))
    for (x, y) in itertools.combinations(E, 2):
        al.append(Not(And(x[0], y[0], x[3] == bv64(E_DEP), y[3] == bv64(E_DEP), x[1] == y[1], x[2] == y[2])))
    cs['alias_nodes'] = And(al)
    # dependency edges are acyclic and transitively closed (they mirror the transitive "references" relation of the defined types)
    dep = lambda a, b: Or([And(l, kd == bv64(E_DEP), s_ == a, d == b) for (l, s_, d, kd, idx) in E]) if E else BoolVal(False)
    tr = []
    for a_ in range(nn):
        for b_ in range(nn):
            if a_ == b_: continue
            tr.append(Not(And(dep(bv32(a_), bv32(b_)), dep(bv32(b_), bv32(a_)))))
            for c_ in range(nn):
                if c_ in (a_, b_): continue
                tr.append(Implies(And(dep(bv32(a_), bv32(b_)), dep(bv32(b_), bv32(c_))), dep(bv32(a_), bv32(c_))))
    # dependency edges mirror the (transitive, acyclic) reference relation between the defined types: edge a -> b  <=>  type(b) references type(a)
    for a_ in range(nn):
        for b_ in range(nn):
            if a_ == b_: continue
            both = And(v.live(a_), v.live(b_), v.kind(a_) == bv64(DEF), v.kind(b_) == bv64(DEF))
            tr.append(Implies(both, dep(bv32(a_), bv32(b_)) == REFS(type_ident(v.ik(b_)), type_ident(v.ik(a_)))))
    cs['dependencies'] = And(tr) if tr else BoolVal(True)
    # maps
    imps = v.map_entries(v.imports); exps = v.map_entries(v.exports); defs = v.map_entries(v.defined)
    def distinct(ents, keyf):
        return [Not(And(x[0], y[0], keyf(x[1]) == keyf(y[1]))) for x, y in itertools.combinations(ents, 2)]
    im = distinct(imps, atom)
    for (l, k, n) in imps:
        im.append(Implies(l, And(inr(n), livesel(n), kindsel(n) == bv64(IMP), v.sel(n, lambda i: (v.impname(i) == atom(k)) if v.impname(i) is not None else BoolVal(False), BoolVal(False)))))
    for i in range(nn):
        if v.impname(i) is None: continue
        im.append(Implies(And(v.live(i), v.kind(i) == bv64(IMP)), Or([And(l, atom(k) == v.impname(i), n == bv32(i)) for (l, k, n) in imps]) if imps else BoolVal(False)))
    cs['imports_map'] = And(im) if im else BoolVal(True)
    ex = distinct(exps, atom)
    for (l, k, n) in exps: ex.append(Implies(l, And(inr(n), livesel(n), v.sel(n, v.hasexp, BoolVal(False)))))      # an exported node remembers (one of) its export names
    for i in range(nn):
        if v.expname(i) is None: continue
        ex.append(Implies(And(v.live(i), v.hasexp(i)), Or([And(l, atom(k) == v.expname(i), n == bv32(i)) for (l, k, n) in exps]) if exps else BoolVal(False)))
    cs['exports_map'] = And(ex) if ex else BoolVal(True)
    tyid = type_ident
    de = distinct(defs, lambda k: tyid(k))
    for (l, k, n) in defs:
        de.append(Implies(l, And(inr(n), livesel(n), kindsel(n) == bv64(DEF), v.sel(n, lambda i: tyid(v.ik(i)) == tyid(k), BoolVal(False)))))
    for i in range(nn):
        de.append(Implies(And(v.live(i), v.kind(i) == bv64(DEF)), And(v.hasexp(i), Or([And(l, tyid(k) == tyid(v.ik(i)), n == bv32(i)) for (l, k, n) in defs]) if defs else BoolVal(False))))
    cs['defined_map'] = And(de) if de else BoolVal(True)
    # packages
    pk = []
    for i in range(nn):
        pid = v.pkgid(i)
        if pid is None:
            pk.append(Implies(And(v.live(i), v.kind(i) == bv64(INST)), BoolVal(False))); continue
        okp = []
        for p in range(len(v.packages.items)):
            rp = v.packages.items[p]
            okp.append(And(pid[0] == bv64(p), rp.f[1] == pid[1], rp.f[0].disc == bv64(1)))
        pk.append(Implies(And(v.live(i), v.haspkg(i)), Or(okp) if okp else BoolVal(False)))
        pk.append(Implies(And(v.live(i), v.kind(i) == bv64(INST)), v.haspkg(i)))
        pk.append(Implies(And(v.live(i), Or(v.kind(i) == bv64(IMP), v.kind(i) == bv64(DEF))), Not(v.haspkg(i))))
    cs['packages'] = And(pk) if pk else BoolVal(True)
    return cs

# ---------------------------------------------------------------------------- engine

def make_engine(chk, fns, decls, ARGS, rec):
    sub_ok = z3.Function('sub_ok', z3.IntSort(), z3.IntSort(), z3.BoolSort())
    def m_ty(ctx):
        k = ctx.deref(ctx.args[0]); return ctx.ret(k.kid('!ty', 'wac_types::Type') if isinstance(k, Lazy) else Opaque('ty'))
    def m_pkg_ty(ctx):
        p = ctx.deref(ctx.args[0]); return ctx.ret(p.kid('!world', 'wac_types::WorldId'))
    def m_pkg_name(ctx): return ctx.ret(Opaque('pkgname'))
    def m_pkg_key(ctx):
        p = ctx.deref(ctx.args[0]); return ctx.ret(p.kid('!key', 'BorrowedPackageKey'))
    def m_pkg_instance_type(ctx):
        p = ctx.deref(ctx.args[0]); return ctx.ret(p.kid('!instance', 'wac_types::InterfaceId'))
    def m_types_index(ctx):
        base = ctx.deref(ctx.args[0]) if isinstance(ctx.args[0], Ref) else ctx.args[0]
        idv = ctx.deref(ctx.args[1])
        m = re.match(r'^<wac_types::Types as Index<(?:wac_types::)?(\w+)>>::index', ctx.callee)
        ty = {'WorldId': 'wac_types::World', 'InterfaceId': 'wac_types::Interface'}.get(m.group(1), m.group(1))
        l = base.kid(f'[{idv.name}]', ty)
        # world import lists / interface export lists are bounded by the argument universe
        return ctx.ret(Ref(l, ()))
    def m_is_subtype(ctx):
        return ctx.ret(models.result(Bool(f'subtype_ok{fresh_id()}'), UNIT, Opaque('type-mismatch')))
    def m_checker_new(ctx): return ctx.ret(Opaque('checker'))
    def m_take(ctx): return ctx.ret(ctx.deref(ctx.args[0]))
    def m_desc(ctx): return ctx.ret(Opaque('desc'))
    def m_pkgmap_remove(ctx): return ctx.ret(models.some(Opaque('pkgid')))
    def m_cname_new(ctx): return ctx.ret(models.result(Bool(f'valid_name{fresh_id()}'), Opaque('ComponentName'), Opaque('BinaryReaderError')))
    def m_cname_kind(ctx): return ctx.ret(Lazy(f'namekind{fresh_id()}', 'ComponentNameKind'))
    def m_types_contains(ctx): return ctx.ret(BoolVal(True))
    def m_type_eq(ctx):
        e = type_ident(ctx.deref(ctx.args[0])) == type_ident(ctx.deref(ctx.args[1]))
        return ctx.ret(Not(e) if ctx.callee.endswith('::ne') else e)
    def m_visit(ctx):
        """Type::visit_defined_types(ty, types, closure): the closure is called for every defined type (transitively) referenced by ty;
        the candidates are the keys of the `defined` map, the type being defined and one undefined type"""
        ty = ctx.deref(ctx.args[0]); clo = ctx.args[2]; eng_ = ctx.eng; dst, tgt = ctx.dst, ctx.tgt
        universe = list(eng_.type_universe)
        t_id = type_ident(ty)
        def loop(st, fr, i):
            if i == len(universe): return containers._finish(eng_, st, fr, dst, tgt, models.ok(UNIT))
            tok = universe[i]
            def call(s2, f2):
                def after(e3, s3, f3, kd, rv):
                    is_ok, okv, errv = models.res_parts(engine.Ctx(e3, s3, f3, None, '', (), (), None), rv)
                    return ('forks', [(is_ok, lambda s4, f4: loop(s4, f4, i + 1)), (Not(is_ok), lambda s4, f4: containers._finish(e3, s4, f4, dst, tgt, models.err(errv)))])
                return containers.call_closure(eng_, s2, f2, clo, (ctx.args[1], tok), after)
            refs = And(REFS(t_id, type_ident(tok)), type_ident(tok) != t_id)
            return ('forks', [(refs, call), (Not(refs), lambda s2, f2: loop(s2, f2, i + 1))])
        return loop(ctx.st, ctx.fr, 0)
    def m_value_defined(ctx): return NotImplemented
    ov = [(r'^(?:wac_types::)?ItemKind::ty$', m_ty), (r'^(?:wac_types::)?Package::ty$', m_pkg_ty), (r'^(?:wac_types::)?Package::name$', m_pkg_name),
          (r'^(?:wac_types::)?Package::key$', m_pkg_key), (r'^(?:wac_types::)?Package::instance_type$', m_pkg_instance_type),
          (r'^<wac_types::Types as Index<.*>>::index$', m_types_index),
          (r'^(?:wac_types::)?SubtypeChecker::<.*>::is_subtype$', m_is_subtype), (r'^(?:wac_types::)?SubtypeChecker::<.*>::new$', m_checker_new),
          (r'^std::mem::take::<.*>$|^core::mem::take::<.*>$', m_take), (r'^(?:wac_types::)?ItemKind::desc$', m_desc),
          (r'^HashMap::<PackageKey, graph::PackageId>::remove::<.*>$', m_pkgmap_remove),
          (r'^wasmparser::names::ComponentName::new$', m_cname_new), (r'^wasmparser::names::ComponentName::kind$', m_cname_kind),
          (r'^wac_types::Types::contains$', m_types_contains),
          (r'^<wac_types::Type as PartialEq>::(?:eq|ne)$', m_type_eq),
          (r'^wac_types::Type::visit_defined_types::<.*>$', m_visit)]
    eng = chk.engine(fns, decls, overrides=ov, vec_cap=ARGS, loop_bound=12, rec_bound=rec)
    eng.atom_strings = True; eng.bitset_universe = ARGS
    def eq_hook(a, b):
        t = (a.ty or b.ty or '')
        if 'Type' in t or 'ItemKind' in t or 'Key' in t: return lazy_atom(a).t == lazy_atom(b).t
        return None
    eng.eq_hook = eq_hook
    def eq_hook2(a, b):
        def is_ty(x): return (isinstance(x, Lazy) and x.ty and x.ty.endswith('Type')) or (isinstance(x, Enum) and x.ty.split('@')[0] in ('Type', 'ValueType'))
        if is_ty(a) and is_ty(b) and (isinstance(a, Enum) or isinstance(b, Enum)): return type_ident(a) == type_ident(b)
        return None
    eng.eq_hook2 = eq_hook2; eng.type_universe = []
    return eng

def live_node_arg(M_, nm):
    n = BitVec(nm, 32)
    return Agg((node_index(n),), 'NodeId'), n, Or([And(n == bv32(i), M_.live[i]) for i in range(M_.NN)])

OPS = {}
def op(name):
    def deco(f): OPS[name] = f; return f
    return deco

@op('remove_node')
def op_remove_node(M_, eng):
    nid, n, live = live_node_arg(M_, 'arg_node')
    return [nid], [live], {'node': n}
@op('unexport')
def op_unexport(M_, eng):
    nid, n, live = live_node_arg(M_, 'arg_node'); return [nid], [live], {'node': n}
@op('export')
def op_export(M_, eng):
    nid, n, live = live_node_arg(M_, 'arg_node'); name = Lazy('arg_name', 'std::string::String'); return [nid, name], [live], {'node': n, 'name': name}
@op('import')
def op_import(M_, eng):
    name = Lazy('arg_name', 'std::string::String'); kind = Lazy('arg_kind', 'wac_types::ItemKind'); return [name, kind], [], {'name': name}
@op('set_instantiation_argument')
def op_set_arg(M_, eng):
    a, n1, l1 = live_node_arg(M_, 'arg_inst'); b, n2, l2 = live_node_arg(M_, 'arg_src'); name = Lazy('arg_name', '&str')
    return [a, name, b], [l1, l2, n1 != n2], {'inst': n1, 'src': n2, 'name': name}
@op('unset_instantiation_argument')
def op_unset_arg(M_, eng):
    a, n1, l1 = live_node_arg(M_, 'arg_inst'); b, n2, l2 = live_node_arg(M_, 'arg_src'); name = Lazy('arg_name', '&str')
    return [a, name, b], [l1, l2, n1 != n2], {'inst': n1, 'src': n2, 'name': name}
@op('alias_instance_export')
def op_alias(M_, eng):
    a, n1, l1 = live_node_arg(M_, 'arg_inst'); name = Lazy('arg_name', '&str'); return [a, name], [l1], {'inst': n1, 'name': name}
@op('unregister_package')
def op_unregister(M_, eng):
    p = BitVec('arg_pidx', 64); g = BitVec('arg_pgen', 64)
    valid = Or([And(p == bv64(q), M_.pk_some[q], M_.pk_gen[q] == g) for q in range(M_.P)])
    return [Agg((p, g), 'PackageId')], [valid], {'pidx': p, 'pgen': g}
@op('define_type')
def op_define(M_, eng):
    name = Lazy('arg_name', 'std::string::String'); ty = Lazy('arg_ty', 'wac_types::Type'); other = Lazy('undefined_ty', 'wac_types::DefinedTypeId')
    eng.type_universe = [k for (l, k, v) in M_.defined] + [ty, other]
    ids = [type_ident(x) for x in eng.type_universe] + [type_ident(M_.ik[i]) for i in range(M_.NN)]
    # the reference relation is a strict partial order (transitive, irreflexive) on the types involved
    pre = []
    for a in ids: pre.append(Not(REFS(a, a)))
    for a, b, c in itertools.permutations(ids, 3): pre.append(Implies(And(REFS(a, b), REFS(b, c)), REFS(a, c)))
    for a, b in itertools.combinations(ids, 2): pre.append(Not(And(REFS(a, b), REFS(b, a))))
    # the undefined type is not a key of the defined map and not the new type
    for (l, k, v) in M_.defined: pre.append(type_ident(other) != type_ident(k))
    pre.append(type_ident(other) != type_ident(ty))
    return [name, ty], pre, {'name': name, 'ty': ty}
@op('instantiate')
def op_instantiate(M_, eng):
    p = BitVec('arg_pidx', 64); g = BitVec('arg_pgen', 64)
    valid = Or([And(p == bv64(q), M_.pk_some[q], M_.pk_gen[q] == g) for q in range(M_.P)])
    return [Agg((p, g), 'PackageId')], [valid], {'pidx': p, 'pgen': g}

@op('set_node_name')
def op_set_node_name(M_, eng):
    nid, n, live = live_node_arg(M_, 'arg_node'); name = Lazy('arg_name', 'std::string::String'); return [nid, name], [live], {'node': n, 'name': name}

def op_fn(eng, opname):
    c = eng.index.get(('CompositionGraph', None, opname), [])
    if len(c) != 1: raise engine.EngineError(f'cannot find CompositionGraph::{opname}: {c}')
    return c[0]

def partitions(opname, NN, P):
    """mutually exclusive, exhaustive case split of the pre-state/argument space; each case is explored by its own worker process"""
    if opname in ('remove_node', 'unexport', 'export'): return [('node', i, k) for i in range(NN) for k in range(4)]
    if opname in ('set_instantiation_argument', 'unset_instantiation_argument'): return [('inst', i, None) for i in range(NN)]
    if opname == 'alias_instance_export': return [('inst', i, None) for i in range(NN)]
    if opname == 'unregister_package': return [('pkg', p, k) for p in range(P) for k in range(4)]
    if opname == 'define_type': return [('defs', a, b) for a in (0, 1) for b in (0, 1)]
    return [None]

def run_op(chk, fns, decls, opname, NN, EE, MM, ARGS, P, rec, part=None, hash_order=False):
    eng = make_engine(chk, fns, decls, ARGS, rec); eng.hash_order_symbolic = hash_order
    M_ = Model('s_', NN, EE, MM, ARGS, P)
    st = engine.State()
    gcell = st.alloc(M_.value(decls))
    args, pre_extra, argterms = OPS[opname](M_, eng)
    fname = op_fn(eng, opname)
    fn = eng.fns[fname]; fr = engine.Frame(fn)
    vals = [Ref(gcell)] + args
    assert len(vals) == fn.nargs, (opname, len(vals), fn.nargs)
    for (loc, ty), a in zip(fn.params, vals): fr.env[loc] = st.alloc(a)
    st.frames = [fr]
    pre_view = View(eng, st, st.heap[gcell], decls, ARGS, P)
    pre = RI(pre_view)
    for c in pre.values(): eng.assume(c)
    for c in pre_extra: eng.assume(c)
    if part is not None:
        what, i, k = part
        if what == 'node': eng.assume(argterms['node'] == bv32(i)); eng.assume(M_.kind[i] == bv64(k))
        elif what == 'inst': eng.assume(argterms['inst'] == bv32(i))
        elif what == 'pkg': eng.assume(argterms['pidx'] == bv64(i)); eng.assume(If(M_.live[0], M_.kind[0], bv64(0)) == bv64(k))
        elif what == 'defsN':
            for e_, b_ in enumerate(i): eng.assume(M_.defined[e_][0] == BoolVal(bool(b_)))
        elif what == 'defs': eng.assume(M_.defined[0][0] == BoolVal(bool(i))); eng.assume(M_.defined[1][0] == BoolVal(bool(k)) if len(M_.defined) > 1 else BoolVal(True))
    for p in range(P): eng.assume(Implies(M_.pk_some[p], M_.pk_gen[p] == bv64(0)))      # stated bound: live packages have generation 0
    # world import lists of packages / interface export lists are bounded by ARGS
    eng.run(st)
    return eng, M_, gcell, pre_view, argterms

def body(chk):
    fns = chk.load('wac-graph'); decls = chk.decls('wac-graph')
    global IK_INSTANCE
    IK_INSTANCE = decls.enum_index('ItemKind', 'Instance')
    NN, EE, MM, ARGS, P = chk.pick((3, 2, 2, 2, 2), (3, 3, 2, 2, 2))
    rec = chk.pick(2, 3)
    chk.bounds['state'] = {'node_slots': NN, 'edge_slots': EE, 'map_entries': MM, 'argument_indexes': ARGS, 'package_slots': P, 'remove_node_recursion': rec}
    only = os.environ.get('C06_ONLY')
    chk.assumptions += ['pre-states satisfy the representation invariant RI (clauses listed in specs/c06.py) plus the stated realisability restrictions: alias nodes have a higher index than their source, argument sources are function-typed imports or aliases, live packages have generation 0',
                        'types arena, package contents and subtype verdicts are uninterpreted; ComponentName validity is an arbitrary boolean',
                        'register_package is not encoded (outside the claim); node names are not part of the state view (set_node_name: no panic, RI and liveness preserved)']
    parts = []
    for opname in OPS:
        if only and opname != only: continue
        for pt in partitions(opname, NN, P): parts.append((opname if pt is None else f'{opname}{pt}', check_op, (fns, decls, opname, NN, EE, MM, ARGS, P, rec, pt)))
    chk.parallel(parts)

def check_op(chk, fns, decls, opname, NN, EE, MM, ARGS, P, rec, part=None):
    eng, M_, gcell, pre_view, argterms = run_op(chk, fns, decls, opname, NN, EE, MM, ARGS, P, rec, part)
    tagp = '' if part is None else f' [case {part[0]}={part[1]}' + (f', kind={part[2]}' if part[2] is not None else '') + ']'
    outs = eng.out; chk.account(eng, [op_fn(eng, opname)])
    base = list(eng.assumptions)
    if part is not None:
        rb, _ = chk.solve(f'{opname}{tagp}: case is non-empty', base)
        if rb != 'sat':
            chk.notes.append(f'{opname}{tagp}: empty case (no RI state matches)'); return
    kinds = {}
    for o in outs: kinds[o.kind] = kinds.get(o.kind, 0) + 1
    chk.notes.append(f'{opname}: {len(outs)} paths {kinds}')
    # (1) panics / exhausted bounds
    bad = [(o, o.cond()) for o in outs if o.kind in ('panic', 'unreachable')]
    bound = [(o, o.cond()) for o in outs if o.kind == 'bound']
    if bound:
        r, m = chk.obligation(f'{opname}{tagp}: bounds sufficient (recursion / argument universe)', base + [Or([c for _, c in bound])], base=base)
        if r == 'sat': chk.notes.append(f'{opname}: some executions exceed the stated bounds (e.g. alias/dependency chains longer than {rec}); they are outside the claim')
    r, m = chk.obligation(f'{opname}{tagp}: no panic from any RI state with live identifiers', base + [Or([c for _, c in bad]) if bad else BoolVal(False)], base=base)
    if r == 'sat':
        hit = [o for o, c in bad if ev_bool(m, c)][0]
        report(chk, eng, decls, M_, opname, argterms, m, f'panic: {hit.site[1] if hit.site else hit.value}', 'panic', ARGS, P)
    # (2) RI preserved
    posts = []
    for o in outs:
        if o.kind != 'ret': continue
        post = RI(View(eng, o.st, o.st.heap[gcell], decls, ARGS, P))
        for cname, f in post.items():
            if cname.startswith('!'): continue
            posts.append((cname, o, And(o.cond(), Not(f))))
    for o in outs:
        if o.kind != 'ret': continue
        ef = effect(opname, M_, decls, o, View(eng, o.st, o.st.heap[gcell], decls, ARGS, P), argterms)
        if ef is not None: posts.append(('effect', o, And(o.cond(), Not(ef))))
    by_clause = {}
    for cname, o, c in posts: by_clause.setdefault(cname, []).append((o, c))
    for cname, lst in by_clause.items():
        title = f'{opname}{tagp}: RI[{cname}] preserved' if cname != 'effect' else f'{opname}{tagp}: documented effect / error condition'
        r, m = chk.obligation(title, base + [Or([c for _, c in lst])], base=base)
        if r == 'sat':
            hit = [o for o, c in lst if ev_bool(m, c)][0]
            if cname == 'effect':
                report_effect(chk, eng, decls, M_, opname, argterms, m, hit, ARGS, P)
            else:
                report(chk, eng, decls, M_, opname, argterms, m, f'invariant `{cname}` broken after {opname}', cname, ARGS, P)
    if not [o for o in outs if o.kind == 'ret'] and part is None: raise Inconclusive(f'{opname}: no execution returns (vacuous)')

def report(chk, eng, decls, M_, opname, argterms, m, what, clause, ARGS, P):
    from specs.c06_realise import realise, describe
    desc = describe(M_, m, argterms)
    extra = resolve_names(M_, m, opname, argterms, decls)
    script, final = realise(M_, m, opname, argterms, extra)
    if script is None:
        raise Inconclusive(f'{opname}: counterexample ({what}) has no realisation through the public API: {final}; pre-state {desc}')
    nat = chk.native({'op': 'graph', 'steps': script})
    pre_inv = [x for x in (nat.get('invariants') or [])[:final] if x]
    if pre_inv and any(pre_inv):
        raise Inconclusive(f'{opname}: the realised pre-state already violates the native invariants {pre_inv[-1]} (realiser or RI mismatch); pre-state {desc}')
    broken = None
    inv = nat.get('invariants') or []
    if nat.get('panic_at') == final: broken = f'panic: {nat["panic"]}'
    elif len(inv) > final and inv[final]: broken = '; '.join(inv[final])
    elif nat.get('panic_at') is not None and nat['panic_at'] > final: broken = f'a later {script[nat["panic_at"]][0]} panics: {nat["panic"]}'
    else:
        tail = [x for x in inv[final:] if x]
        if tail: broken = '; '.join(tail[0])
    if broken is None:
        raise Inconclusive(f'{opname}: model counterexample ({what}) does not reproduce natively; script {json.dumps(script)} -> {json.dumps(nat)[:600]}; pre-state {desc}')
    role = classify(opname, clause, broken)
    chk.finding(role, f'{opname} from a consistent graph: {broken}  [script: {json.dumps(script)}]', {'op': 'graph', 'steps': script})

def resolve_names(M_, m, opname, argterms, decls):
    """concrete argument / export names for the operation: position of the symbolic name in the package's import list (a<k>) or in
    the instance's export list (e<k>) under the model, else a name that does not exist"""
    out = {}
    ev = lambda t: m.eval(t, model_completion=True)
    try:
        if opname in ('set_instantiation_argument', 'unset_instantiation_argument'):
            inst = ev(argterms['inst']).as_long(); p = ev(M_.pidx[inst]).as_long()
            wi = [n for n, t in decls.structs['World'][1]].index('imports')
            world = M_.gtypes.kid(f'[{M_.pkg[p].kid("!world").name}]').kid(str(wi))
            ln = ev(world.len()).as_long(); want = ev(lazy_atom(argterms['name']).t).as_long()
            for k in range(min(ln, M_.ARGS)):
                if ev(lazy_atom(world.kid(f'[{k}].k')).t).as_long() == want: out['argname'] = f'a{k}'
        if opname == 'alias_instance_export':
            inst = ev(argterms['inst']).as_long()
            ei = [n for n, t in decls.structs['Interface'][1]].index('exports')
            iface = M_.gtypes.kid(f'[{M_.ik[inst].kid("Instance.0").name}]').kid(str(ei))
            ln = ev(iface.len()).as_long(); want = ev(lazy_atom(argterms['name']).t).as_long()
            for k in range(min(ln, 2)):
                if ev(lazy_atom(iface.kid(f'[{k}].k')).t).as_long() == want: out['export'] = f'e{k}'
        if opname == 'define_type':
            ty = type_ident(argterms['ty'])
            out['deps'] = [i for i in range(M_.NN) if z3.is_true(ev(And(M_.live[i], M_.kind[i] == bv64(DEF), REFS(ty, type_ident(M_.ik[i])))))]
            out['rdeps'] = [i for i in range(M_.NN) if z3.is_true(ev(And(M_.live[i], M_.kind[i] == bv64(DEF), REFS(type_ident(M_.ik[i]), ty))))]
            out['same_as'] = [i for i in range(M_.NN) if z3.is_true(ev(And(M_.live[i], M_.kind[i] == bv64(DEF), type_ident(M_.ik[i]) == ty)))]
    except Exception as e:
        out['error'] = str(e)
    return out

# ---------------------------------------------------------------------------- intended effects (beyond RI)

def err_name(v):
    """variant name of the error in an Err(..) result built by the MIR, or None"""
    if isinstance(v, Enum) and 'Err' in v.vars:
        e = v.vars['Err'][0]
        if isinstance(e, Enum) and e.vars: return list(e.vars)[0]
        return '?'
    return None

def arg_index_terms(M_, decls, inst, name):
    """[(guard, k)] : the argument name is the k-th import of the world of the package instantiated by node `inst`"""
    wi = [n for n, t in decls.structs['World'][1]].index('imports')
    out = []
    for i in range(M_.NN):
        for p in range(M_.P):
            world = M_.gtypes.kid(f'[{M_.pkg[p].kid("!world").name}]').kid(str(wi))
            for k in range(M_.ARGS):
                key = world.kid(f'[{k}].k')
                out.append((And(inst == bv32(i), M_.pidx[i] == bv64(p), ULT(bv64(k), world.len()), lazy_atom(key).t == lazy_atom(name).t), k))
    return out

def effect(opname, M_, decls, o, post, argterms):
    """formula that must hold on outcome o (a `ret` outcome) given the post-state view; None when no effect is specified"""
    v = o.value; E = [post.edge(j) for j in range(post.ne)]
    is_ok = isinstance(v, Enum) and 'Ok' in v.vars
    if opname == 'set_instantiation_argument':
        inst, src, name = argterms['inst'], argterms['src'], argterms['name']
        if is_ok:
            # Ok => the argument edge (src -> inst, index of `name`) exists and is recorded as satisfied
            alts = []
            for g, k in arg_index_terms(M_, decls, inst, name):
                has = Or([And(l, a == src, b == inst, kd == bv64(E_ARG), idx == bv64(k)) for (l, a, b, kd, idx) in E if idx is not None])
                alts.append(And(g, has))
            return Or(alts)
        en = err_name(v)
        if en == 'NodeIsNotAnInstantiation': return post.sel(inst, post.kind, bv64(99)) != bv64(INST)
        if en == 'InvalidArgumentName': return Not(Or([g for g, k in arg_index_terms(M_, decls, inst, name)]))
        if en == 'ArgumentAlreadyPassed':
            alts = []
            for g, k in arg_index_terms(M_, decls, inst, name):
                other = Or([And(l, a != src, b == inst, kd == bv64(E_ARG), idx == bv64(k)) for (l, a, b, kd, idx) in E if idx is not None])
                alts.append(And(g, other))
            return Or(alts)
        return None
    if opname == 'unset_instantiation_argument':
        inst, src, name = argterms['inst'], argterms['src'], argterms['name']
        if is_ok:
            alts = []
            for g, k in arg_index_terms(M_, decls, inst, name):
                gone = Not(Or([And(l, a == src, b == inst, kd == bv64(E_ARG), idx == bv64(k)) for (l, a, b, kd, idx) in E if idx is not None]))
                alts.append(And(g, gone))
            return Or(alts)
        return None
    if opname == 'export':
        node, name = argterms['node'], argterms['name']
        exps = post.map_entries(post.exports)
        if is_ok:
            return And(Or([And(l, atom(k) == lazy_atom(name).t, n == node) for (l, k, n) in exps]),
                       post.sel(node, lambda i: And(post.hasexp(i), post.expname(i) == lazy_atom(name).t) if post.expname(i) is not None else BoolVal(False), BoolVal(False)))
        if err_name(v) == 'ExportAlreadyExists':
            return Or([And(l, lazy_atom(k).t == lazy_atom(name).t) for (l, k, n) in M_.exports])
        return None
    if opname == 'unexport':
        node = argterms['node']
        exps = post.map_entries(post.exports)
        if is_ok: return And(Not(Or([And(l, n == node) for (l, k, n) in exps])), Not(post.sel(node, post.hasexp, BoolVal(False))))
        return post.sel(node, post.kind, bv64(99)) == bv64(DEF)
    if opname == 'remove_node':
        node = argterms['node']
        # the node is gone, and so is every alias / dependant of it (one level is enough: the invariant closes dependencies transitively and
        # the recursion handles aliases); nothing that was not reachable that way disappears
        gone = Not(post.sel(node, post.live, BoolVal(False)))
        pre_edges = [(M_.elive[j], M_.src[j], M_.dst[j], M_.ek[j]) for j in range(M_.EE)]
        cs = [gone]
        for i in range(M_.NN):
            child = Or([And(l, a == node, b == bv32(i), kd != bv64(E_ARG)) for (l, a, b, kd) in pre_edges]) if pre_edges else BoolVal(False)
            cs.append(Implies(And(M_.live[i], child), Not(post.live(i))))
            reach = Or([node == bv32(i), child] + [And(l, b == bv32(i), kd != bv64(E_ARG), Or([And(l2, a2 == node, b2 == a, kd2 != bv64(E_ARG)) for (l2, a2, b2, kd2) in pre_edges]))
                                                     for (l, a, b, kd) in pre_edges])
            cs.append(Implies(And(M_.live[i], Not(reach)), post.live(i)))
        return And(cs)
    if opname == 'define_type':
        name, ty = argterms['name'], argterms['ty']
        defs = post.map_entries(post.defined); exps = post.map_entries(post.exports)
        if is_ok:
            return And(Or([And(l, type_ident(k) == type_ident(ty)) for (l, k, n) in defs]), Or([And(l, atom(k) == lazy_atom(name).t) for (l, k, n) in exps]))
        en = err_name(v)
        if en == 'TypeAlreadyDefined': return Or([And(l, type_ident(k) == type_ident(ty)) for (l, k, n) in M_.defined])
        if en == 'ExportConflict': return Or([And(l, lazy_atom(k).t == lazy_atom(name).t) for (l, k, n) in M_.exports])
        return None
    if opname == 'set_node_name':
        # naming touches nothing the queries see: the node stays, every node keeps its liveness and its export
        node = argterms['node']
        return And([post.sel(node, post.live, BoolVal(False))] + [post.live(i) == M_.live[i] for i in range(M_.NN)])
    if opname == 'import':
        name = argterms['name']
        imps = post.map_entries(post.imports)
        if is_ok: return Or([And(l, atom(k) == lazy_atom(name).t) for (l, k, n) in imps])
        if err_name(v) == 'ImportAlreadyExists': return Or([And(l, lazy_atom(k).t == lazy_atom(name).t) for (l, k, n) in M_.imports])
        return None
    return None

def report_effect(chk, eng, decls, M_, opname, argterms, m, hit, ARGS, P):
    """the operation returned normally but did not have its documented effect (or returned an error whose condition does not hold)"""
    from specs.c06_realise import realise, describe
    desc = describe(M_, m, argterms)
    extra = resolve_names(M_, m, opname, argterms, decls)
    script, final = realise(M_, m, opname, argterms, extra)
    outcome = 'Ok' if (isinstance(hit.value, Enum) and 'Ok' in hit.value.vars) or not isinstance(hit.value, Enum) else f'Err({err_name(hit.value)})'
    if script is None:
        raise Inconclusive(f'{opname}: effect counterexample ({outcome}) has no realisation: {final}; pre-state {desc}')
    # observe the effect natively: arguments / exports / imports after the operation
    probe = list(script[:final + 1])
    if opname in ('set_instantiation_argument', 'unset_instantiation_argument'): probe.append(['args', script[final][1]])
    if opname in ('export', 'unexport'): probe.append(['get_export', script[final][2] if opname == 'export' else 'n0'])
    probe.append(['imports'])
    nat = chk.native({'op': 'graph', 'steps': probe})
    res = nat.get('results', [])
    opres = res[final] if len(res) > final else None
    ok_native = None
    if opname == 'set_instantiation_argument' and opres and opres.get('ok'):
        args = res[final + 1].get('args', []) if len(res) > final + 1 else []
        want = script[final][2]
        ok_native = any(a[0] == want for a in args)
        if not ok_native:
            chk.finding('set_instantiation_argument-no-effect', f'set_instantiation_argument returned Ok but the argument `{want}` is not recorded: arguments = {args}  [script: {json.dumps(probe)}]', {'op': 'graph', 'steps': probe})
            return
    if opname == 'unset_instantiation_argument' and opres and opres.get('ok'):
        args = res[final + 1].get('args', []) if len(res) > final + 1 else []
        want = script[final][2]
        if any(a[0] == want for a in args):
            chk.finding('unset_instantiation_argument-no-effect', f'unset_instantiation_argument returned Ok but `{want}` is still passed: {args}  [script: {json.dumps(probe)}]', {'op': 'graph', 'steps': probe}); return
    inv = nat.get('invariants') or []
    if len(inv) > final and inv[final]:
        chk.finding(classify(opname, 'effect', '; '.join(inv[final])), f'{opname}: {inv[final]}  [script: {json.dumps(probe)}]', {'op': 'graph', 'steps': probe}); return
    raise Inconclusive(f'{opname}: effect counterexample ({outcome}) does not reproduce natively: {json.dumps(nat)[:500]}; script {json.dumps(probe)}; pre-state {desc}')

def classify(opname, clause, broken):
    b = broken
    if 'satisfied set' in b: return f'{opname}-stale-satisfied'
    if 'refers to a removed node' in b: return f'{opname}-stale-export'
    if 'invalid node id' in b: return f'{opname}-double-removal'
    if b.startswith('panic'): return f'{opname}-panic'
    return f'{opname}-{clause}'

if __name__ == '__main__':
    harness.run_check('C06', body)
