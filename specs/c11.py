"""C11 — a `targets` verdict means the output really conforms to the world.

Encoded (real MIR): wac_types::validate_target with World::all_imports and the real NameMap::{insert,get} (wac-types dump), and
AstResolver::validate_target (wac-parser dump). `<:` is an uninterpreted relation (its rules are C07's subject); names are abstract
identities with semver tracks (alternate_lookup_key replaced by its C15 contract); World::implicit_imported_interfaces is an
arbitrary map input. Each function's verdict and failure class is compared with the conformance predicate.
"""
import sys, os, re, json, itertools
sys.path.insert(0, os.path.dirname(os.path.dirname(os.path.abspath(__file__))))
import z3
from z3 import And, Or, Not, If, BoolVal, BitVecVal, ULT, ULE, UGT, UGE, Implies, Int, Function, IntSort, BoolSort
from m2s import harness, engine, models, containers
from m2s.engine import Lazy, Agg, Enum, StrV, Ref, Opaque, bv64, UNIT, fresh_id
from m2s.containers import VecV, MapV, lazy_atom, Atom, It
from m2s.harness import ev_int, ev_bool, Inconclusive
from specs import absnames as AN

SUB = Function('sub', IntSort(), IntSort(), BoolSort())
PROM = Function('promoted', IntSort(), IntSort())        # identity of ItemKind::promote(k) as a function of the identity of k
class SymKind:
    """an item kind known only by its identity term (result of a contract-level NameMap lookup, or of promote)"""
    __slots__ = ('t',)
    def __init__(s, t): s.t = t
class NameMapV:
    """contract-level NameMap (contract verified in C15): entries in insertion order (present, name identity, value identity)"""
    __slots__ = ('entries',)
    def __init__(s, entries=()): s.entries = tuple(entries)
def ident(x):
    x = x.base if isinstance(x, Ref) and isinstance(x.base, Lazy) else x
    if isinstance(x, SymKind): return x.t
    if isinstance(x, Lazy):
        t = x.extra.get('ident')
        if t is None: t = Int('id:' + x.name); x.extra['ident'] = t
        return t
    raise engine.EngineError(f'ident of {x!r}')
def nm(x): return lazy_atom(x.base if isinstance(x, Ref) else x).t

def entries(l, K):
    return [(l.kid(f'[{i}].k'), l.kid(f'[{i}].v')) for i in range(K)]

def lookup_semver(q, cands):
    """NameMap::get contract over candidates [(present, name, value)] inserted in order with shadowing:
    -> (found, predicate(value) -> the returned value satisfies it)"""
    exact = [And(p, n == q) for p, n, v in cands]
    def last_exact(pred):
        # the last inserted entry with exactly that name (shadowing replaces the value)
        out = []
        for i, (p, n, v) in enumerate(cands):
            later = [And(p2, n2 == q) for (p2, n2, v2) in cands[i + 1:]]
            out.append(And(p, n == q, Not(Or(later)) if later else BoolVal(True), pred(v)))
        return Or(out) if out else BoolVal(False)
    track = [And(p, AN.same_track(n, q)) for p, n, v in cands]
    def best_track(pred):
        out = []
        for i, (p, n, v) in enumerate(cands):
            higher = [And(p2, AN.same_track(n2, q), AN.triple_lt(n, n2)) for (p2, n2, v2) in cands]
            # value of name n is the one of its last insertion
            later_same = [And(p2, n2 == n) for (p2, n2, v2) in cands[i + 1:]]
            out.append(And(p, AN.same_track(n, q), Not(Or(higher)), Not(Or(later_same)) if later_same else BoolVal(True), pred(v)))
        return Or(out) if out else BoolVal(False)
    found = Or(exact + track) if cands else BoolVal(False)
    return found, (lambda pred: If(Or(exact) if exact else BoolVal(False), last_exact(pred), best_track(pred)))

def lookup_semver_value(q, cands):
    """(found, identity term of the value NameMap::get returns) for candidates [(present, name, value identity)]"""
    val = z3.IntVal(-1); found = BoolVal(False)
    # best on track first (lowest priority), then exact (last exact wins)
    for i, (p, n, v) in enumerate(cands):
        higher = [And(p2, AN.same_track(n2, q), AN.triple_lt(n, n2)) for (p2, n2, v2) in cands]
        later_same = [And(p2, n2 == n) for (p2, n2, v2) in cands[i + 1:]]
        best = And(p, AN.same_track(n, q), Not(Or(higher)), Not(Or(later_same)) if later_same else BoolVal(True))
        val = If(best, v, val); found = Or(found, best)
    for i, (p, n, v) in enumerate(cands):
        hit = And(p, n == q)
        val = If(hit, v, val); found = Or(found, hit)
    return found, val

def lookup_exact(q, cands):
    exact = [And(p, n == q) for p, n, v in cands]
    found = Or(exact) if exact else BoolVal(False)
    def sat(pred):
        out = []
        for i, (p, n, v) in enumerate(cands):
            earlier = [And(p2, n2 == q) for (p2, n2, v2) in cands[:i]]
            out.append(And(p, n == q, Not(Or(earlier)) if earlier else BoolVal(True), pred(v)))     # first match in lookup order
        return Or(out) if out else BoolVal(False)
    return found, sat

def part_types_validate(chk):
    fns = chk.load('wac-types'); decls = chk.decls('wac-types')
    K = chk.pick(2, 2)
    chk.bounds['wac_types::validate_target'] = {'component_imports_max': K, 'component_exports_max': K, 'world_imports_max': K, 'world_exports_max': K, 'implicit_interfaces_max': 1}
    implicit = Lazy('implicit', "indexmap::IndexMap<&str, component::ItemKind>"); implicit.extra['cap'] = 1
    def m_implicit(ctx): return ctx.ret(implicit)
    def m_promote(ctx):
        k = ctx.deref(ctx.args[0]); return ctx.ret(SymKind(PROM(ident(k))))
    def m_is_subtype(ctx):
        a = ctx.deref(ctx.args[1]); b = ctx.deref(ctx.args[3]); ctx.event('sub', str(ident(a)), str(ident(b)))
        return ctx.ret(models.result(SUB(ident(a), ident(b)), UNIT, Opaque('mismatch')))
    def m_unit(ctx): return ctx.ret(UNIT)
    def m_checker_new(ctx): return ctx.ret(Opaque('checker'))
    def m_index(ctx):
        at = ctx.deref(ctx.args[0]) if isinstance(ctx.args[0], Ref) else ctx.args[0]; idv = ctx.deref(ctx.args[1])
        return ctx.ret(Ref(at.kid(f'[{idv.name}]', 'component::World'), ()))
    def m_nm_default(ctx): return ctx.ret(NameMapV(()))
    def m_nm_insert(ctx):
        r = ctx.args[0]; mp = ctx.deref(r); name = ctx.deref(ctx.args[1]); item = ctx.deref(ctx.args[4])
        ctx.eng.write_ref(ctx.st, r, NameMapV(mp.entries + ((BoolVal(True), nm(name), ident(item)),)))
        return ctx.ret(models.ok(name))       # shadowing is allowed at every call site of this function (checked: the flag argument is `true`)
    def m_nm_get(ctx):
        mp = ctx.deref(ctx.args[0]); q = nm(ctx.deref(ctx.args[1]))
        found, val = lookup_semver_value(q, list(mp.entries))
        return ctx.ret(models.opt(found, Ref(ctx.st.alloc(SymKind(val)), ())))
    def m_intern(ctx): return ctx.ret(ctx.deref(ctx.args[1]))
    def m_lookup(ctx): return ctx.ret(models.some(ctx.deref(ctx.args[1])))
    ov = AN.OVERRIDES + [(r'^component::<impl .*>::implicit_imported_interfaces$|^component::World::implicit_imported_interfaces$', m_implicit),
                         (r'^component::ItemKind::promote$', m_promote), (r'^checker::SubtypeChecker::<.*>::is_subtype$', m_is_subtype),
                         (r'^checker::SubtypeChecker::<.*>::(?:invert|revert)$', m_unit), (r'^checker::SubtypeChecker::<.*>::new$', m_checker_new),
                         (r'^<component::Types as Index<component::WorldId>>::index$', m_index),
                         (r'^<names::NameMap<.*> as Default>::default$', m_nm_default), (r'^names::NameMap::<.*>::insert::<.*>$', m_nm_insert),
                         (r'^names::NameMap::<.*>::get::<.*>$', m_nm_get),
                         (r'^<I as NameMapIntern>::intern$|^<names::NameMapNoIntern as names::NameMapIntern>::intern$', m_intern),
                         (r'^<I as NameMapIntern>::lookup$|^<names::NameMapNoIntern as names::NameMapIntern>::lookup$', m_lookup),
                         (r'^<K as Clone>::clone$', AN.m_clone)]
    eng = chk.engine(fns, decls, overrides=ov, vec_cap=K, loop_bound=2 * K + 4)
    eng.atom_strings = True
    types = engine.norm_lazy(Lazy('types', '&component::Types')); wit = Lazy('wit', 'component::WorldId'); comp = Lazy('comp', 'component::WorldId')
    outs = harness.run_fn(eng, 'validate_target', [types, wit, comp]); chk.account(eng, ['validate_target'])
    T = types.base
    W = T.kid('[wit]'); C = T.kid('[comp]')
    wo = [n for n, t in decls.structs['World'][1]]
    Wimp = W.kid(str(wo.index('imports'))); Wexp = W.kid(str(wo.index('exports'))); Cimp = C.kid(str(wo.index('imports'))); Cexp = C.kid(str(wo.index('exports')))
    def present(m, i): return ULT(bv64(i), m.len())
    names = []
    for m_, cap in ((Wimp, K), (Wexp, K), (Cimp, K), (Cexp, K), (implicit, 1)):
        for i in range(cap): names.append(nm(m_.kid(f'[{i}].k')))
    base = list(eng.assumptions) + AN.linking(names)
    for a_, b_ in itertools.combinations(names, 2):
        base.append(Implies(And(AN.same_track(a_, b_), Not(AN.triple_lt(a_, b_)), Not(AN.triple_lt(b_, a_))), a_ == b_))
    for m_, cap in ((Wimp, K), (Wexp, K), (Cimp, K), (Cexp, K)):
        for i, j in itertools.combinations(range(cap), 2): base.append(Or(Not(present(m_, j)), nm(m_.kid(f'[{i}].k')) != nm(m_.kid(f'[{j}].k'))))
    base += [ULE(m_.len(), bv64(K)) for m_ in (Wimp, Wexp, Cimp, Cexp)] + [ULE(implicit.len(), bv64(1))]
    # conformance predicate
    world_imports = [(present(implicit, 0), nm(implicit.kid('[0].k')), implicit.kid('[0].v'))] + [(present(Wimp, i), nm(Wimp.kid(f'[{i}].k')), Wimp.kid(f'[{i}].v')) for i in range(K)]
    comp_exports = [(present(Cexp, i), nm(Cexp.kid(f'[{i}].k')), Cexp.kid(f'[{i}].v')) for i in range(K)]
    imp_ok = []; imp_known = []
    for i in range(K):
        q = nm(Cimp.kid(f'[{i}].k')); kind = Cimp.kid(f'[{i}].v')
        found, sat_ = lookup_semver(q, world_imports)
        imp_known.append(Implies(present(Cimp, i), found))
        imp_ok.append(Implies(And(present(Cimp, i), found), sat_(lambda v: SUB(PROM(ident(v)), ident(kind)))))
    exp_ok = []; exp_known = []
    for i in range(K):
        q = nm(Wexp.kid(f'[{i}].k')); expected = Wexp.kid(f'[{i}].v')
        found, sat_ = lookup_semver(q, comp_exports)
        exp_known.append(Implies(present(Wexp, i), found))
        exp_ok.append(Implies(And(present(Wexp, i), found), sat_(lambda v: SUB(ident(v), PROM(ident(expected))))))
    conforms = And(imp_known + imp_ok + exp_known + exp_ok)
    bads = []
    for o in outs:
        if o.kind != 'ret': bads.append((o, o.cond())); continue
        is_ok = o.value.disc == bv64(0) if isinstance(o.value, Enum) else BoolVal(False)
        bads.append((o, And(o.cond(), is_ok != conforms)))
    r, m = chk.obligation('wac_types::validate_target: Ok <=> every component import is offered by the world (semver-aware) at a satisfying type and every world export is provided at a conforming type',
                          base + [Or([c for _, c in bads])], base=base)
    if r == 'sat':
        hit = [o for o, c in bads if ev_bool(m, c)][0]
        case = realise_types(m, dict(Wimp=Wimp, Wexp=Wexp, Cimp=Cimp, Cexp=Cexp, implicit=implicit), K)
        nat = chk.native(case); want = ev_bool(m, conforms)
        got = (ev_int(m, hit.value.disc) == 0) if hit.kind == 'ret' else None
        if case is not None and nat.get('ok') == got and got != want:
            chk.finding('validate-target-binary', f'wac_types::validate_target returns {"Ok" if got else "Err"} but the world/component pair is {"" if want else "not "}conforming: {json.dumps(case)[:900]} -> {nat}', case)
        else:
            chk.finding('validate-target-binary', f'wac_types::validate_target verdict {got} differs from the conformance predicate {want} (rule-level model; native replay of the realisation gave {nat}); calls {hit.st.trace[:6]}', case or {'model': 'unrealised'})
    # translator validation: for each verdict, some execution path must have a realisable witness on which the real function agrees.
    # (the realiser can only express wide <: narrow; a model whose uninterpreted sub-verdicts it cannot express is skipped, not counted)
    for want in (True, False):
        tried = 0; agreed = False; last = None
        for o in [o for o in outs if o.kind == 'ret']:
            if tried >= 8 or agreed: break
            r, m = chk.solve(f'validate_target: witness {want}', base + [o.cond(), (o.value.disc == bv64(0)) == BoolVal(want), implicit.len() == bv64(0)])
            if r != 'sat': continue
            case = realise_types(m, dict(Wimp=Wimp, Wexp=Wexp, Cimp=Cimp, Cexp=Cexp, implicit=implicit), K)
            if case is None: continue
            tried += 1; nat = chk.native(case); last = (case, nat)
            if nat.get('ok') == want:
                agreed = True; chk.sample({'case': case, 'native': nat})
        if tried and not agreed: raise Inconclusive(f'validate_target: none of {tried} realised witnesses for verdict {want} is confirmed natively; last {json.dumps(last[0])[:500]} -> {last[1]}')
        if not tried and want: raise Inconclusive('validate_target: no conforming witness (vacuous)')

WIDE = {'instance': [['p', {'value': {'prim': 'u32'}}], ['q', {'value': {'prim': 'u32'}}]]}; NARROW = {'instance': [['p', {'value': {'prim': 'u32'}}]]}
def realise_types(m, maps, K):
    """world / component JSON for the native `validate_target` op; item kinds are instances chosen so that the model's sub-verdicts
    between the looked-up pairs hold (wide <: narrow only). Only realised when no implicit interface is present."""
    ev = lambda t: m.eval(t, model_completion=True)
    if ev(maps['implicit'].len()).as_long() != 0: return None
    seen = {}
    def ents(mp):
        out = []
        for i in range(min(ev(mp.len()).as_long(), K)):
            out.append((AN.render(m, nm(mp.kid(f'[{i}].k')), seen), mp.kid(f'[{i}].v')))
        return out
    Wimp, Wexp, Cimp, Cexp = ents(maps['Wimp']), ents(maps['Wexp']), ents(maps['Cimp']), ents(maps['Cexp'])
    kinds = {}
    def kind_for(v, role):
        return kinds.setdefault(v.name, {'value': {'prim': 'u32'}})
    # decide kinds pairwise: for every (world import w, component import c): sub(promoted(w), c); for (component export e, world export x): sub(e, promoted(x))
    def assign(sub_v, sup_v, holds):
        a = kinds.get(sub_v.name); b = kinds.get(sup_v.name)
        if holds:
            if a is None and b is None: kinds[sub_v.name] = WIDE; kinds[sup_v.name] = NARROW
            elif a is None: kinds[sub_v.name] = WIDE if b in (NARROW, WIDE) else b
            elif b is None: kinds[sup_v.name] = NARROW if a in (WIDE, NARROW) else a
        else:
            if a is None and b is None: kinds[sub_v.name] = NARROW; kinds[sup_v.name] = WIDE
            elif a is None: kinds[sub_v.name] = NARROW if b == WIDE else {'value': {'prim': 'string'}}
            elif b is None: kinds[sup_v.name] = WIDE if a == NARROW else {'value': {'prim': 'string'}}
    for wn, wv in Wimp:
        for cn, cv in Cimp: assign(wv, cv, z3.is_true(ev(SUB(PROM(ident(wv)), ident(cv)))))
    for en, evv in Cexp:
        for xn, xv in Wexp: assign(evv, xv, z3.is_true(ev(SUB(ident(evv), PROM(ident(xv))))))
    k = lambda v: kinds.get(v.name, {'value': {'prim': 'u32'}})
    return {'op': 'validate_target', 'world': {'imports': [[n, k(v)] for n, v in Wimp], 'exports': [[n, k(v)] for n, v in Wexp]},
            'component': {'imports': [[n, k(v)] for n, v in Cimp], 'exports': [[n, k(v)] for n, v in Cexp]}}

def part_resolver_validate(chk):
    fns = chk.load('wac-parser'); decls = chk.decls('wac-parser')
    K = chk.pick(2, 2)
    chk.bounds['AstResolver::validate_target'] = {'graph_imports_max': K, 'world_imports_max': K, 'world_exports_max': K, 'implicit_interfaces_max': 1, 'exports_of_the_graph_max': K}
    implicit = Lazy('implicit', "indexmap::IndexMap<&str, ItemKind>"); implicit.extra['cap'] = 1
    gimports = Lazy('graph_imports', 'Vec<(&str, ItemKind, std::option::Option<NodeId>)>')
    gexports = Lazy('graph_exports', 'indexmap::IndexMap<std::string::String, NodeId>')
    types = Lazy('gtypes', 'wac_graph::wac_types::Types')
    def m_implicit(ctx): return ctx.ret(implicit)
    def m_promote(ctx):
        k = ctx.deref(ctx.args[0]); return ctx.ret(k.kid('!promoted', 'ItemKind'))
    def m_is_subtype(ctx):
        a = ctx.deref(ctx.args[1]); b = ctx.deref(ctx.args[3]); ctx.event('sub', a.name, b.name)
        return ctx.ret(models.result(SUB(ident(a), ident(b)), UNIT, Opaque('mismatch')))
    def m_unit(ctx): return ctx.ret(UNIT)
    def m_checker_new(ctx): return ctx.ret(Opaque('checker'))
    def m_types(ctx): return ctx.ret(Ref(types, ()))
    def m_index_world(ctx):
        idv = ctx.deref(ctx.args[1]); return ctx.ret(Ref(types.kid(f'[{idv.name}]', 'World'), ()))
    def m_graph_imports(ctx): return ctx.ret(containers.mk_iter(ctx.eng, ctx.st, gimports, 'val'))
    def m_get_export(ctx):
        key = ctx.args[1]
        c2 = engine.CtxK(ctx.eng, ctx.st, ctx.fr, None, 'IndexMap::get', ('?', '?'), (Ref(gexports, ()), key), None)
        def after(eng_, st, fr, kd, rv):
            s_, p = models.opt_parts(engine.Ctx(eng_, st, fr, None, '', (), (), None), rv)
            v = models.opt(s_, eng_.deref(st, p) if p is not None else None) if p is not None else models.none()
            return containers._finish(eng_, st, fr, ctx.dst, ctx.tgt, v)
        c2.after = after; c2.kdata = None
        return containers._map_get(c2, 'get')
    def m_graph_index(ctx):
        n = ctx.deref(ctx.args[1]); return ctx.ret(Ref(n.kid('!node', 'Node'), ()))
    def m_item_kind(ctx):
        n = ctx.deref(ctx.args[0]); return ctx.ret(n.kid('!item_kind', 'ItemKind'))
    def m_desc(ctx): return ctx.ret(Opaque('desc'))
    ov = [(r'^wac_graph::wac_types::World::implicit_imported_interfaces$', m_implicit), (r'^ItemKind::promote$', m_promote),
          (r'^SubtypeChecker::<.*>::is_subtype$', m_is_subtype), (r'^SubtypeChecker::<.*>::(?:invert|revert)$', m_unit), (r'^SubtypeChecker::<.*>::new$', m_checker_new),
          (r'^CompositionGraph::types$', m_types), (r'^<wac_graph::wac_types::Types as Index<WorldId>>::index$', m_index_world),
          (r'^CompositionGraph::imports$', m_graph_imports), (r'^CompositionGraph::get_export$', m_get_export),
          (r'^<CompositionGraph as Index<NodeId>>::index$', m_graph_index), (r'^Node::item_kind$', m_item_kind), (r'^ItemKind::desc$', m_desc)]
    eng = chk.engine(fns, decls, overrides=ov, vec_cap=K, loop_bound=2 * K + 4)
    eng.atom_strings = True
    eng.eq_hook = lambda a, b: (lazy_atom(a).t == lazy_atom(b).t) if 'NodeId' in (a.ty or b.ty or '') else None
    cands = eng.index.get(('AstResolver', None, 'validate_target'), [])
    if len(cands) != 1: raise engine.EngineError(f'AstResolver::validate_target not found: {cands}')
    fname = cands[0]
    world = Lazy('world', 'WorldId')
    outs = harness.run_fn(eng, fname, [Opaque('self'), Ref(Lazy('state', 'State'), ()), Ref(Lazy('path', 'PackagePath'), ()), world]); chk.account(eng, [fname])
    W = types.kid('[world]'); wo = [n for n, t in chk.decls('wac-types').structs['World'][1]]
    Wimp = W.kid(str(wo.index('imports'))); Wexp = W.kid(str(wo.index('exports')))
    def present(m_, i): return ULT(bv64(i), m_.len())
    base = list(eng.assumptions) + [ULE(m_.len(), bv64(K)) for m_ in (Wimp, Wexp, gimports, gexports)] + [ULE(implicit.len(), bv64(1))]
    for m_ in (Wimp, Wexp, gexports):
        for i, j in itertools.combinations(range(K), 2): base.append(Or(Not(present(m_, j)), nm(m_.kid(f'[{i}].k')) != nm(m_.kid(f'[{j}].k'))))
    lookup_order = [(present(implicit, 0), nm(implicit.kid('[0].k')), implicit.kid('[0].v'))] + [(present(Wimp, i), nm(Wimp.kid(f'[{i}].k')), Wimp.kid(f'[{i}].v')) for i in range(K)]
    gexp = [(present(gexports, i), nm(gexports.kid(f'[{i}].k')), gexports.kid(f'[{i}].v')) for i in range(K)]
    # first failure in program order decides the error class; the verdict is Ok iff there is none
    fails = []      # (condition of being the first failure, class)
    prev_ok = BoolVal(True)
    for i in range(K):
        item = gimports.kid(f'[{i}]'); q = nm(item.kid('0')); kind = item.kid('1')
        found, sat_ = lookup_exact(q, lookup_order)
        okc = sat_(lambda v: SUB(ident(v.kid('!promoted')), ident(kind)))
        here = present(gimports, i)
        fails.append((And(prev_ok, here, Not(found)), 'ImportNotInTarget'))
        fails.append((And(prev_ok, here, found, Not(okc)), 'TargetMismatch'))
        prev_ok = And(prev_ok, Implies(here, And(found, okc)))
    for i in range(K):
        q = nm(Wexp.kid(f'[{i}].k')); expected = Wexp.kid(f'[{i}].v')
        found, sat_ = lookup_exact(q, gexp)
        okc = sat_(lambda v: SUB(ident(v.kid('!node').kid('!item_kind')), ident(expected.kid('!promoted'))))
        here = present(Wexp, i)
        fails.append((And(prev_ok, here, Not(found)), 'MissingTargetExport'))
        fails.append((And(prev_ok, here, found, Not(okc)), 'TargetMismatch'))
        prev_ok = And(prev_ok, Implies(here, And(found, okc)))
    bads = []
    for o in outs:
        if o.kind != 'ret': bads.append((o, o.cond())); continue
        v = o.value
        if 'Ok' in v.vars: bads.append((o, And(o.cond(), Not(prev_ok)))); continue
        e = v.vars['Err'][0]; cls = list(e.vars)[0] if isinstance(e, Enum) and e.vars else '?'
        bads.append((o, And(o.cond(), Not(Or([c for c, k in fails if k == cls])))))
    r, m = chk.obligation('AstResolver::validate_target: Ok <=> conforming (exact names); otherwise the diagnostic class of the first failure', base + [Or([c for _, c in bads])], base=base)
    if r == 'sat':
        hit = [o for o, c in bads if ev_bool(m, c)][0]
        got = 'Ok' if (hit.kind == 'ret' and 'Ok' in hit.value.vars) else (list(hit.value.vars['Err'][0].vars)[0] if hit.kind == 'ret' else hit.kind)
        chk.finding('validate-target-resolver', f'AstResolver::validate_target returns {got} but the conformance predicate says {"conforming" if ev_bool(m, prev_ok) else "not conforming"} (rule-level model, not replayed natively); subtype queries made: {[t for t in hit.st.trace if t[0] == "sub"][:6]}', {'rule': 'AstResolver::validate_target'})
    for want in (True, False):
        c = [And(o.cond(), BoolVal(('Ok' in o.value.vars) == want)) for o in outs if o.kind == 'ret']
        r, m = chk.solve(f'AstResolver::validate_target: witness {want}', base + [Or(c)])
        if r != 'sat' and want: raise Inconclusive('AstResolver::validate_target: no conforming witness (vacuous)')

def body(chk):
    chk.assumptions += ['`<:` is an uninterpreted relation over item identities (rules verified in C07)', 'names are abstract identities; alternate_lookup_key replaced by its contract (C15)',
                        'World::implicit_imported_interfaces is an arbitrary map input (at most one entry)',
                        'the two implementations are each compared with their own name-matching rule (exact at resolution time, semver-aware on binaries); their agreement on versioned names and agreement with the reference validator are outside the claim']
    chk.parallel([('wac_types::validate_target', lambda c: part_types_validate(c), ()), ('AstResolver::validate_target', lambda c: part_resolver_validate(c), ())])

if __name__ == '__main__':
    harness.run_check('C11', body)
