"""C14 — no input crashes the front end; diagnostics point inside the source (span / slicing kernels).

Encoded (real MIR, wac-parser dump): Lexer::span + to_source_span under the logos contract, detect_invalid_input,
helpers::block_comment_length, helpers::string, Lexer::source.
Whole-pipeline robustness (parser productions, resolver, decoder, encoder) is outside the claim.
"""
import sys, os
sys.path.insert(0, os.path.dirname(os.path.dirname(os.path.abspath(__file__))))
import z3
from z3 import And, Or, Not, If, BoolVal, BitVecVal, ULT, ULE, UGT, UGE, Implies
from m2s import harness, engine, models, containers
from m2s.engine import Lazy, Agg, Enum, StrV, Ref, bv64, UNIT
from m2s.models import byte_at, is_boundary, lazy_str, substr
from m2s.containers import utf8_valid, VecV, It
from m2s.harness import ev_bytes, ev_int, ev_bool, run_fn, Inconclusive

def src_domain(sv):
    """sources the native replay can feed to the public API: valid UTF-8; ASCII restricted to printable (so screening accepts it);
    multi-byte chars restricted to a few letters (2-, 3- and 4-byte) so that screening accepts them as well."""
    cs = [utf8_valid(sv)]
    for k, b in enumerate(sv.buf):
        act = ULT(bv64(k), sv.len)
        ascii_ok = And(UGE(b, BitVecVal(0x20, 8)), ULE(b, BitVecVal(0x7e, 8)))
        cs.append(Or(Not(act), ascii_ok, UGE(b, BitVecVal(0x80, 8))))
    return And(cs)

def part_span(chk, fns, decls):
    N = chk.pick(6, 8)
    chk.bounds['Lexer::span'] = {'source_bytes_max': N, 'logos_contract': '0 <= start <= end <= len, start and end on char boundaries'}
    src = Lazy('src', '&str')
    START = z3.BitVec('logos_start', 64); END = z3.BitVec('logos_end', 64)
    def m_logos_span(ctx): return ctx.ret(Agg((START, END), 'Range'))
    def m_logos_source(ctx): return ctx.ret(src)
    eng = chk.engine(fns, decls, str_cap=N, overrides=[(r'^logos::Lexer::<.*>::span$', m_logos_span), (r'^logos::Lexer::<.*>::source$', m_logos_source)])
    sv = lazy_str(eng, src)
    fname = eng.find_fn(r'^lexer::<impl at [^>]*>::span$')
    outs = run_fn(eng, fname, [Lazy('self', '&lexer::Lexer<\'_>')])
    chk.account(eng, [fname])
    contract = [ULE(START, END), ULE(END, sv.len), is_boundary(sv, START), is_boundary(sv, END)]
    base = list(eng.assumptions) + [src_domain(sv)] + contract
    bads = []
    for o in outs:
        if o.kind != 'ret': bads.append((o, o.cond(), 'panic')); continue
        off, ln = o.value.f
        inside = And(ULE(off, sv.len), ULE(ln, sv.len), ULE(off + ln, sv.len))
        onb = And(is_boundary(sv, off), is_boundary(sv, off + ln))
        bads.append((o, And(o.cond(), Not(And(inside, onb))), 'span'))
    # classes of the logos state, enumerated by exclusion
    classes = {
        'empty-source': sv.len == bv64(0),
        'end-of-input': And(sv.len != bv64(0), START == sv.len),
        'last-token-at-start': And(sv.len != bv64(0), START == bv64(0), END == sv.len),
        'last-token': And(sv.len != bv64(0), START != bv64(0), START != sv.len, END == sv.len),
        'inner-token': END != sv.len,
    }
    excluded = []
    for cname, ccond in classes.items():
        r, m = chk.obligation(f'span/{cname}: span inside the source and on char boundaries, no panic',
                              base + [ccond, Or([b for _, b, _ in bads])])
        if r != 'sat': continue
        s_ = ev_bytes(m, sv); st_, en_ = ev_int(m, START), ev_int(m, END)
        nat = chk.native({'op': 'lexer_spans', 'source': list(s_)})
        role, what = classify_native_span(nat, s_)
        if role is None:
            # the contract over-approximates logos: this (start, end) may not be reachable on this source. Try the canonical sources of the class.
            for cand in canonical_sources(cname, s_):
                nat = chk.native({'op': 'lexer_spans', 'source': list(cand)})
                role, what = classify_native_span(nat, cand)
                if role: s_ = cand; break
        if role is None:
            raise Inconclusive(f'span counterexample of class {cname} (source {s_!r}, logos span {st_}..{en_}) does not reproduce through wac_parser::lexer::Lexer')
        chk.finding(role, what, {'op': 'lexer_spans', 'source': list(s_)})
    # reachability witnesses for every path
    for o in outs:
        r, m = chk.solve('span/witness', base + [o.cond()])
        if r == 'sat': chk.sample({'fn': 'Lexer::span', 'source': ev_bytes(m, sv).decode(), 'logos_span': [ev_int(m, START), ev_int(m, END)], 'outcome': o.kind})
    return

def classify_native_span(nat, src):
    """looks at what the real Lexer reported; returns (role, description) of the first bad span or (None, None).
    spans[0] is before any token, spans[i] after the i-th next(), the last one after next() returned None."""
    if 'spans' not in nat: return None, None
    bset = set(nat['boundaries']); L = nat['len']; ntok = len(nat['tokens'])
    for i, (off, ln) in enumerate(nat['spans']):
        if off + ln > L or off not in bset or (off + ln) not in bset:
            if L == 0: role = 'span-empty-source'
            elif i == ntok + 1: role = 'span-eof-inside-multibyte-char'
            else: role = 'span-last-token-inside-multibyte-char'
            return role, f'Lexer::span() = ({off},{ln}) after {i} next() call(s) on source {src.decode()!r} (len {L}): not inside the source / not on char boundaries'
    return None, None

def canonical_sources(cname, s_):
    if cname == 'empty-source': return [b'']
    if cname == 'end-of-input': return ['// é'.encode(), 'a // €'.encode(), '//\U0001F600'.encode()]
    if cname in ('last-token', 'last-token-at-start'): return ['éé'.encode(), 'é'.encode(), '€é'.encode()]
    return []

def part_screen(chk, fns, decls):
    """detect_invalid_input over up to K arbitrary scalar values"""
    N = chk.pick(5, 8)
    chk.bounds['detect_invalid_input'] = {'source_bytes_max': N, 'chars': 'any valid UTF-8'}
    eng = chk.engine(fns, decls, str_cap=N, loop_bound=N + 1)
    src = Lazy('src', '&str'); sv = lazy_str(eng, src)
    eng.assume(utf8_valid(sv))
    outs = run_fn(eng, 'detect_invalid_input', [src])
    chk.account(eng, ['detect_invalid_input'])
    base = list(eng.assumptions)
    # reference: first forbidden char and its exact span
    from m2s.containers import utf8_width_at, utf8_decode_at
    B = lambda x: BitVecVal(x, 32)
    def forbidden(c):
        bidi = Or(And(UGE(c, B(0x202a)), ULE(c, B(0x202e))), And(UGE(c, B(0x2066)), ULE(c, B(0x2069))))
        disc = Or([c == B(x) for x in (0x149, 0x673, 0xf77, 0xf79, 0x17a3, 0x17a4, 0x17b4, 0x17b5)])
        ctrl = And(Or(ULE(c, B(0x1f)), And(UGE(c, B(0x7f)), ULE(c, B(0x9f)))), c != B(9), c != B(10), c != B(13))
        return bidi, disc, ctrl
    pos = bv64(0); found = BoolVal(False); f_off = bv64(0); f_len = bv64(0); f_kind = BitVecVal(0, 8)
    for _ in range(N):
        act = And(Not(found), ULT(pos, sv.len))
        c = utf8_decode_at(sv, pos); w = utf8_width_at(sv, pos)
        bidi, disc, ctrl = forbidden(c)
        hit = And(act, Or(bidi, disc, ctrl))
        f_off = If(hit, pos, f_off); f_len = If(hit, w, f_len)
        f_kind = If(hit, If(bidi, BitVecVal(1, 8), If(disc, BitVecVal(2, 8), BitVecVal(3, 8))), f_kind)
        found = Or(found, hit); pos = If(act, pos + w, pos)
    idx = {v[0]: i for i, v in enumerate(decls.enums['Error'])} if False else None
    lex_err = None
    bads = []
    for o in outs:
        if o.kind != 'ret':
            bads.append(o.cond()); continue
        v = o.value
        is_err = v.disc == bv64(1)
        cs = [is_err != found]
        if 'Err' in v.vars:
            e, sp = v.vars['Err'][0].f
            # lexer::Error variants: index by declaration order
            kinds = {'DisallowedBidirectionalOverride': 1, 'DiscouragedUnicodeCodepoint': 2, 'DisallowedControlCode': 3}
            ek = [k for k in e.vars][0]
            cs.append(And(is_err, Or(sp.f[0] != f_off, sp.f[1] != f_len, BitVecVal(kinds.get(ek, 0), 8) != f_kind)))
        bads.append(And(o.cond(), Or(cs)))
    r, m = chk.obligation('screen/rejects exactly the first forbidden code point, with its exact span; no panic', base + [Or(bads)])
    if r == 'sat':
        s_ = ev_bytes(m, sv); nat = chk.native({'op': 'lexer_spans', 'source': list(s_)})
        exp = {'found': ev_bool(m, found), 'span': [ev_int(m, f_off), ev_int(m, f_len)]}
        got_err = 'screened' in nat
        if got_err != exp['found'] or (got_err and nat['span'] != exp['span']):
            chk.finding('screen-wrong', f'Lexer::new({s_!r}) screening result {nat.get("screened")} {nat.get("span")} but reference says {exp}', {'op': 'lexer_spans', 'source': list(s_), 'expect': exp})
        else: raise Inconclusive(f'screening counterexample {s_!r} does not reproduce: native {nat}')
    for o in outs[:: max(1, len(outs) // 8)]:
        r, m = chk.solve('screen/witness', base + [o.cond()])
        if r != 'sat': continue
        s_ = ev_bytes(m, sv); nat = chk.native({'op': 'lexer_spans', 'source': list(s_)})
        pred_err = (o.kind == 'ret' and ev_int(m, o.value.disc) == 1)
        chk.sample({'fn': 'detect_invalid_input', 'source': list(s_), 'native_screened': nat.get('screened')})
        if ('screened' in nat) != pred_err: raise Inconclusive(f'screening witness mismatch on {s_!r}: predicted err={pred_err}, native {nat}')

def part_comment(chk, fns, decls):
    """helpers::block_comment_length over all byte strings up to N bytes vs a reference nesting counter"""
    N = chk.pick(7, 10)
    chk.bounds['block_comment_length'] = {'bytes_max': N, 'alphabet': 'all byte values', 'loop_unrolling': N + 2}
    eng = chk.engine(fns, decls, str_cap=N, loop_bound=N + 2)
    b = Lazy('bytes', '&[u8]'); sv = lazy_str(eng, b)
    outs = run_fn(eng, 'block_comment_length', [b])
    chk.account(eng, ['block_comment_length'])
    base = list(eng.assumptions)
    # reference
    i = bv64(0); depth = BitVecVal(1, 8); done = BoolVal(False); r_some = BoolVal(False); r_len = bv64(0)
    S, A = BitVecVal(47, 8), BitVecVal(42, 8)
    for _ in range(N + 1):
        act = Not(done)
        at_end = UGE(i, sv.len)
        c = byte_at(sv, i); nx = byte_at(sv, i + 1); has_nx = ULT(i + 1, sv.len)
        opens = And(c == S, has_nx, nx == A); closes = And(c == A, has_nx, nx == S)
        ni = If(Or(opens, closes), i + 2, i + 1)
        nd = If(opens, depth + 1, If(closes, depth - 1, depth))
        fin = And(act, Not(at_end), nd == BitVecVal(0, 8))
        r_some = Or(r_some, fin); r_len = If(fin, ni + 2, r_len)
        done = Or(done, And(act, at_end), fin)
        i = If(And(act, Not(at_end)), ni, i); depth = If(And(act, Not(at_end)), nd, depth)
    bads = []
    for o in outs:
        if o.kind != 'ret': bads.append(o.cond()); continue
        v = o.value; is_some = v.disc == bv64(1)
        c_ = [is_some != r_some]
        if 'Some' in v.vars: c_.append(And(is_some, v.vars['Some'][0] != r_len))
        bads.append(And(o.cond(), Or(c_)))
    r, m = chk.obligation('comment/block_comment_length = reference nesting counter; no panic, no overflow, loop bound sufficient', base + [Or(bads)])
    if r == 'sat':
        bs = ev_bytes(m, sv); nat = chk.native({'op': 'block_comment_length', 'bytes': list(bs)})
        exp = ev_int(m, r_len) if ev_bool(m, r_some) else None
        if 'panic' in nat or nat.get('len') != exp:
            chk.finding('comment-length-wrong', f'block_comment_length({bs!r}) = {nat} but nested-comment reference says {exp}', {'op': 'block_comment_length', 'bytes': list(bs), 'expect': exp})
        else: raise Inconclusive(f'block_comment_length counterexample {bs!r} does not reproduce: native {nat}')
    k = 0
    for o in outs[:: max(1, len(outs) // 10)]:
        r, m = chk.solve('comment/witness', base + [o.cond()])
        if r != 'sat': continue
        bs = ev_bytes(m, sv); nat = chk.native({'op': 'block_comment_length', 'bytes': list(bs)})
        pred = (ev_int(m, o.value.vars['Some'][0]) if ev_int(m, o.value.disc) == 1 else None) if o.kind == 'ret' else 'panic'
        chk.sample({'fn': 'block_comment_length', 'bytes': list(bs), 'native': nat})
        if nat.get('len', 'panic') != pred: raise Inconclusive(f'block_comment_length witness mismatch on {bs!r}: predicted {pred}, native {nat}')

def part_find_definitions(chk):
    """Package::find_definitions (runs on every decoded package): no panic for any well-formed component type"""
    fns = chk.load('wac-types'); decls = chk.decls('wac-types')
    K = chk.pick(2, 3)
    chk.bounds['Package::find_definitions'] = {'exports_max': K, 'nested_component_type_exports_max': K}
    def m_index(ctx):
        at = ctx.args[0]; idv = ctx.deref(ctx.args[1]); at = ctx.deref(at) if isinstance(at, Ref) else at
        return ctx.ret(Ref(at.kid(f'[{idv.name}]', 'component::World'), ()))
    def m_cname_new(ctx):
        # export names of a validated component are valid component names (stated assumption)
        return ctx.ret(models.ok(engine.Opaque('ComponentName')))
    def m_cname_kind(ctx): return ctx.ret(Lazy(f'namekind{engine.fresh_id()}', 'ComponentNameKind'))
    eng = chk.engine(fns, decls, vec_cap=K, loop_bound=K + 2, overrides=[
        (r'^<component::Types as Index<component::WorldId>>::index', m_index),
        (r'^wasmparser::names::ComponentName::new$', m_cname_new), (r'^wasmparser::names::ComponentName::kind$', m_cname_kind)])
    eng.atom_strings = True
    fname = eng.find_fn(r'^package::<impl at [^>]*>::find_definitions$')
    types = engine.norm_lazy(Lazy('types', '&component::Types')); world = Lazy('world', 'component::WorldId')
    outs = run_fn(eng, fname, [types, world]); chk.account(eng, [fname])
    bad = [o for o in outs if o.kind != 'ret']
    nik = len(decls.enums['ItemKind']); nty = len(decls.enums['Type'])
    r, m = chk.obligation('find_definitions: no panic on any component type (exports <= K)', list(eng.assumptions) + [Or([o.cond() for o in bad]) if bad else BoolVal(False)],
                          base=list(eng.assumptions))
    if r == 'sat':
        hit = [o for o in bad if ev_bool(m, o.cond())][0]
        # realise: the nested component type's export count decides; use canonical WAT per count
        nested = [l for l in harness_all_lazies(types.base) if l._len is not None and 'Type.0.World.0' in l.name and l.name.count('[') >= 2]
        n = ev_int(m, nested[0].len()) if nested else 0
        exports = ' '.join(f'(export "e{i}" (func))' for i in range(n))
        wat = f'(component (type (component {exports})) (export "t" (type 0)))'
        nat = chk.native({'op': 'package_from_wat', 'wat': wat})
        if 'panic' in nat:
            chk.finding('find-definitions-panic', f'Package::from_bytes panics ({nat["panic"]}) on the valid component `{wat}` (site: {hit.site})', {'op': 'package_from_wat', 'wat': wat})
        else:
            raise Inconclusive(f'find_definitions: predicted panic {hit.site} does not reproduce on `{wat}`: {nat}')
    else:
        for wat in ['(component (type (component)) (export "t" (type 0)))',
                    '(component (type (component (export "a:b/c" (instance)))) (export "t" (type 0)))',
                    '(component (type (component (export "a" (func)) (export "b" (func)))) (export "t" (type 0)))']:
            nat = chk.native({'op': 'package_from_wat', 'wat': wat})
            if 'panic' in nat or 'error' in nat: raise Inconclusive(f'native decode of `{wat}` gives {nat} although no panic path is feasible in the encoding')
            chk.sample({'fn': 'Package::from_bytes', 'wat': wat, 'native': nat})

def harness_all_lazies(root):
    out = []
    def walk(l):
        out.append(l)
        for k in list(l.kids.values()): walk(k)
    walk(root); return out

def body(chk):
    fns = chk.load('wac-parser'); decls = chk.decls()
    chk.assumptions += ['logos contract for Lexer::span: 0 <= start <= end <= len, both on char boundaries (logos itself is not encoded)',
                        'sources are valid UTF-8 of bounded length',
                        'export names of a validated component are valid component names (ComponentName::new succeeds)',
                        'whole-pipeline robustness (parser productions, resolver, the rest of the package decoder, encoder) is outside the claim']
    chk.part('Lexer::span', part_span, chk, fns, decls)
    chk.part('detect_invalid_input', part_screen, chk, fns, decls)
    chk.part('block_comment_length', part_comment, chk, fns, decls)
    chk.part('Package::find_definitions', part_find_definitions, chk)

if __name__ == '__main__':
    harness.run_check('C14', body)
