//! C18 native replay: builds a real directory tree and runs the real FileSystemPackageResolver on it.
use indexmap::IndexMap;
use serde_json::{json, Value};
use std::collections::HashMap;
use std::io::{BufRead, Write};
use std::path::PathBuf;
use wac_resolver::{Error, FileSystemPackageResolver};
use wac_types::BorrowedPackageKey;

fn dir_id(rel: &str) -> String {
    let mut s: String = rel.chars().map(|c| if c.is_ascii_alphanumeric() { c.to_ascii_lowercase() } else { '-' }).collect();
    s = s.replace("--", "-");
    format!("d-{}-x", s.trim_matches('-'))
}

fn marker(rel: &str) -> Vec<u8> {
    format!("CONTENT-OF:{rel}").into_bytes()
}

fn run(v: &Value, n: usize) -> Value {
    let root = std::env::temp_dir().join(format!("wac-verif-fs-{}-{}", std::process::id(), n));
    let _ = std::fs::remove_dir_all(&root);
    let deps = root.join("deps");
    std::fs::create_dir_all(&deps).unwrap();
    // directories first, then files
    let layout = v["layout"].as_object().unwrap();
    let mut items: Vec<(&String, &str)> = layout.iter().map(|(k, v)| (k, v.as_str().unwrap())).collect();
    items.sort_by_key(|(k, kind)| (if *kind == "dir" { 0 } else { 1 }, k.len()));
    for (rel, kind) in &items {
        let p = deps.join(rel);
        match *kind {
            "dir" => {
                std::fs::create_dir_all(&p).unwrap();
                // a minimal WIT package so that the `wit` feature can parse the directory
                std::fs::write(p.join("pkg.wit"), format!("package verif:{};\ninterface i {{ f: func(); }}\n", dir_id(rel))).unwrap();
            }
            "file" => {
                if let Some(parent) = p.parent() {
                    std::fs::create_dir_all(parent).unwrap();
                }
                if rel.ends_with(".wat") {
                    let id = rel.replace(['/', '.', ':'], "_");
                    std::fs::write(&p, format!("(component ${id})")).unwrap();
                } else {
                    std::fs::write(&p, marker(rel)).unwrap();
                }
            }
            _ => {}
        }
    }
    let mut overrides: HashMap<String, PathBuf> = HashMap::new();
    let name = v["key"]["name"].as_str().unwrap().to_string();
    if let Some(o) = v["override"].as_object() {
        let ext = o["ext"].as_str().unwrap();
        let p = root.join(format!("OVERRIDE.{ext}"));
        match o["kind"].as_str().unwrap() {
            "file" => {
                if ext == "wat" {
                    std::fs::write(&p, "(component $OVERRIDE_wat)").unwrap()
                } else if ext == "wit" {
                    std::fs::write(&p, "package verif:ovr;\ninterface i { f: func(); }\n").unwrap()
                } else {
                    std::fs::write(&p, marker(&format!("OVERRIDE.{ext}"))).unwrap()
                }
            }
            "dir" => {
                std::fs::create_dir_all(&p).unwrap();
                std::fs::write(p.join("pkg.wit"), "package verif:ovrdir;\ninterface i { f: func(); }\n").unwrap();
            }
            _ => {}
        }
        overrides.insert(name.clone(), p);
    }
    let version = v["key"]["version"].as_str().map(|s| semver::Version::parse(s).unwrap());
    let mut keys = IndexMap::new();
    keys.insert(BorrowedPackageKey::from_name_and_version(&name, version.as_ref()), miette::SourceSpan::new(0.into(), 0));
    let resolver = FileSystemPackageResolver::new(&deps, overrides, v["error_on_unknown"].as_bool().unwrap());
    let out = match resolver.resolve(&keys) {
        Err(e) => {
            let n = match e {
                Error::UnknownPackage { .. } => "UnknownPackage",
                Error::PackageResolutionFailure { .. } => "PackageResolutionFailure",
                _ => "other",
            };
            json!({"err": n})
        }
        Ok(m) => match m.values().next() {
            None => json!({"skipped": true}),
            Some(bytes) => {
                if bytes.starts_with(b"CONTENT-OF:") {
                    json!({"content_of": String::from_utf8_lossy(&bytes[11..]).to_string()})
                } else {
                    // converted text or an encoded WIT package: recover the identifier from the name section / package name
                    let s = String::from_utf8_lossy(bytes).to_string();
                    let mut found = None;
                    for (rel, kind) in &items {
                        if *kind == "file" && rel.ends_with(".wat") && s.contains(&rel.replace(['/', '.', ':'], "_")) {
                            found = Some(json!({"content_of": rel, "converted": "wat"}));
                        }
                    }
                    if found.is_none() && s.contains("OVERRIDE_wat") {
                        found = Some(json!({"content_of": "OVERRIDE.wat", "converted": "wat"}));
                    }
                    if found.is_none() {
                        for (rel, kind) in &items {
                            if *kind == "dir" && s.contains(&dir_id(rel)) {
                                found = Some(json!({"wit": rel}));
                            }
                        }
                        if s.contains("verif:ovr") || s.contains("ovrdir") || s.contains("ovr") && found.is_none() {
                            found = Some(json!({"wit": "OVERRIDE"}));
                        }
                    }
                    found.unwrap_or(json!({"unknown_bytes": bytes.len()}))
                }
            }
        },
    };
    let _ = std::fs::remove_dir_all(&root);
    out
}

fn main() {
    let stdin = std::io::stdin();
    let stdout = std::io::stdout();
    let mut n = 0;
    for line in stdin.lock().lines() {
        let line = line.unwrap();
        if line.trim().is_empty() {
            continue;
        }
        let v: Value = serde_json::from_str(&line).unwrap();
        n += 1;
        let r = std::panic::catch_unwind(|| run(&v, n));
        let out = match r {
            Ok(x) => json!({"result": x}),
            Err(_) => json!({"panic": true}),
        };
        let mut o = stdout.lock();
        writeln!(o, "{}", out).unwrap();
        o.flush().unwrap();
    }
}
