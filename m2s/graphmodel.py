"""Models of petgraph::stable_graph::StableGraph, of maps with symbolically present entries (GMapV) and of small index sets (BitSetV),
used for one-inductive-step checks from an arbitrary bounded graph state.

GraphV: node slot i <-> NodeIndex i with a symbolic `live` flag and a weight value; edge slot j with symbolic live/src/dst and a weight.
A symbolic NodeIndex is concretised by forking over the slots. Edge iteration visits edge slots from the highest to the lowest
(petgraph visits the most recently added edge first); callers must not depend on that order unless the invariant makes matches unique.
"""
import re
import z3
from z3 import BitVecVal, BoolVal, And, Or, Not, If, ULT, ULE, UGT, UGE, simplify, is_true, is_false
from .engine import Agg, Enum, Ref, Lazy, Opaque, Panic, UNIT, bv64, conc, EngineError, Unmodelled, fresh_id
from .mir import parse_place
from .models import model, none, some, opt, ok, err, result
from .containers import It, pull as _pull_prev, val_eq, call_closure, _finish, MapV
from . import containers

def bv32(n): return BitVecVal(n, 32)
def node_index(i): return Agg((i if z3.is_expr(i) else bv32(i),), 'NodeIndex')
def edge_index(j): return Agg((j if z3.is_expr(j) else bv32(j),), 'EdgeIndex')
def idx_term(eng, st, v):
    """BV32 term of a NodeIndex / EdgeIndex value (possibly behind references or a newtype)"""
    v = eng.deref(st, v)
    while isinstance(v, Agg) and len(v.f) == 1: v = v.f[0]
    if isinstance(v, Lazy): return v.scalar('u32')
    if z3.is_expr(v): return v
    raise EngineError(f'not an index: {v!r}')

class GraphV:
    __slots__ = ('nodes', 'edges')
    def __init__(s, nodes=(), edges=()): s.nodes = tuple(nodes); s.edges = tuple(edges)
    def __repr__(s): return f'GraphV({len(s.nodes)} node slots, {len(s.edges)} edge slots)'
    def index_get(s, eng, idx):
        k, i = idx
        return s.nodes[i][1] if k == 'n' else s.edges[i][3]
    def index_set(s, eng, idx, rest, new):
        k, i = idx
        if k == 'n':
            ns = list(s.nodes); ns[i] = (ns[i][0], eng.set_path(ns[i][1], rest, new)); return GraphV(ns, s.edges)
        es = list(s.edges); es[i] = es[i][:3] + (eng.set_path(es[i][3], rest, new),); return GraphV(s.nodes, es)

class EdgeRefV:
    __slots__ = ('j', 'src', 'dst', 'w')
    def __init__(s, j, src, dst, w): s.j = j; s.src = src; s.dst = dst; s.w = w

class GMapV:
    """map whose entries are symbolically present: entries = tuple of (live Bool, key, value). Keys of live entries are distinct (invariant of the caller)."""
    __slots__ = ('entries', 'hashed')
    def __init__(s, entries=(), hashed=False): s.entries = tuple(entries); s.hashed = hashed
    def __repr__(s): return f'GMapV({len(s.entries)} slots)'
    def index_get(s, eng, idx):
        l, k, v = s.entries[idx]; return Agg((k, v))
    def index_set(s, eng, idx, rest, new):
        es = list(s.entries); l, k, v = es[idx]
        a = eng.set_path(Agg((k, v)), rest, new); es[idx] = (l, a.f[0], a.f[1]); return GMapV(es, s.hashed)

class BitSetV:
    """HashSet<usize> over a small universe: bits[i] = membership of i"""
    __slots__ = ('bits',)
    def __init__(s, bits): s.bits = tuple(bits)

# ---------------------------------------------------------------------------- graph models

G = r'^(?:petgraph::stable_graph::)?StableGraph::<.*>::'

def _slot_forks(eng, g, n, on_live, on_dead):
    """fork over the slot denoted by the (possibly symbolic) index term n"""
    alts = []
    for i, (live, w) in enumerate(g.nodes):
        alts.append((And(n == bv32(i), live), (lambda st, fr, i=i: on_live(st, fr, i))))
    dead = And([Or(n != bv32(i), Not(live)) for i, (live, w) in enumerate(g.nodes)]) if g.nodes else BoolVal(True)
    alts.append((dead, on_dead))
    return ('forks', alts)

@model(G + r'node_weight(?:_mut)?$')
def m_node_weight(ctx):
    r = ctx.args[0]; g = ctx.deref(r); n = idx_term(ctx.eng, ctx.st, ctx.args[1]); eng = ctx.eng; dst, tgt = ctx.dst, ctx.tgt
    return _slot_forks(eng, g, n, lambda st, fr, i: _finish(eng, st, fr, dst, tgt, some(Ref(r.base, r.path + (('i', ('n', i)),)))),
                       lambda st, fr: _finish(eng, st, fr, dst, tgt, none()))
@model(r'^<(?:petgraph::stable_graph::)?StableGraph<.*> as Index(?:Mut)?<NodeIndex>>::index(?:_mut)?$|^<Frozen<.*StableGraph<.*>> as Index(?:Mut)?<NodeIndex>>::index(?:_mut)?$')
def m_graph_index(ctx):
    r = ctx.args[0]; g = ctx.deref(r)
    if isinstance(g, Agg) and len(g.f) == 1:      # Frozen(&mut G)
        r = g.f[0]; g = ctx.deref(r)
    n = idx_term(ctx.eng, ctx.st, ctx.args[1]); eng = ctx.eng; dst, tgt = ctx.dst, ctx.tgt
    return _slot_forks(eng, g, n, lambda st, fr, i: _finish(eng, st, fr, dst, tgt, Ref(r.base, r.path + (('i', ('n', i)),))),
                       lambda st, fr: ('done', 'panic', 'StableGraph index: node index out of bounds / vacant'))
@model(G + r'contains_node$')
def m_contains_node(ctx):
    g = ctx.deref(ctx.args[0]); n = idx_term(ctx.eng, ctx.st, ctx.args[1])
    return ctx.ret(Or([And(n == bv32(i), live) for i, (live, w) in enumerate(g.nodes)]) if g.nodes else BoolVal(False))
@model(G + r'add_node$')
def m_add_node(ctx):
    r = ctx.args[0]; g = ctx.deref(r); w = ctx.args[1]; eng = ctx.eng; dst, tgt = ctx.dst, ctx.tgt
    alts = []
    for i, (live, _) in enumerate(g.nodes):
        def reuse(st, fr, i=i):
            ns = list(g.nodes); ns[i] = (BoolVal(True), w); eng.write_ref(st, r, GraphV(ns, g.edges))
            st.trace.append(('add_node', i)); return _finish(eng, st, fr, dst, tgt, node_index(i))
        alts.append((Not(live), reuse))
    def fresh(st, fr):
        i = len(g.nodes); eng.write_ref(st, r, GraphV(g.nodes + ((BoolVal(True), w),), g.edges))
        st.trace.append(('add_node', i)); return _finish(eng, st, fr, dst, tgt, node_index(i))
    alts.append((BoolVal(True), fresh))
    return ('forks', alts)
@model(G + r'add_edge$')
def m_add_edge(ctx):
    r = ctx.args[0]; g = ctx.deref(r); a = idx_term(ctx.eng, ctx.st, ctx.args[1]); b = idx_term(ctx.eng, ctx.st, ctx.args[2]); w = ctx.args[3]
    live = lambda n: Or([And(n == bv32(i), l) for i, (l, _) in enumerate(g.nodes)]) if g.nodes else BoolVal(False)
    eng = ctx.eng; dst, tgt = ctx.dst, ctx.tgt
    def okf(st, fr):
        j = len(g.edges); eng.write_ref(st, r, GraphV(g.nodes, g.edges + ((BoolVal(True), a, b, w),)))
        return _finish(eng, st, fr, dst, tgt, edge_index(j))
    return ('forks', [(And(live(a), live(b)), okf), (Not(And(live(a), live(b))), ('panic', 'StableGraph::add_edge: node indices out of bounds'))])
@model(G + r'remove_node$')
def m_remove_node(ctx):
    r = ctx.args[0]; g = ctx.deref(r); n = idx_term(ctx.eng, ctx.st, ctx.args[1]); eng = ctx.eng; dst, tgt = ctx.dst, ctx.tgt
    def on_live(st, fr, i):
        ns = list(g.nodes); w = ns[i][1]; ns[i] = (BoolVal(False), w)
        es = [(simplify(And(l, s_ != bv32(i), d != bv32(i))), s_, d, ww) for (l, s_, d, ww) in g.edges]
        eng.write_ref(st, r, GraphV(ns, es)); st.trace.append(('remove_node', i))
        return _finish(eng, st, fr, dst, tgt, some(w))
    return _slot_forks(eng, g, n, on_live, lambda st, fr: _finish(eng, st, fr, dst, tgt, none()))
@model(G + r'remove_edge$')
def m_remove_edge(ctx):
    r = ctx.args[0]; g = ctx.deref(r); e = idx_term(ctx.eng, ctx.st, ctx.args[1]); eng = ctx.eng; dst, tgt = ctx.dst, ctx.tgt
    alts = []
    for j, (l, s_, d, w) in enumerate(g.edges):
        def rm(st, fr, j=j, w=w):
            es = list(g.edges); es[j] = (BoolVal(False),) + es[j][1:]; eng.write_ref(st, r, GraphV(g.nodes, es))
            return _finish(eng, st, fr, dst, tgt, some(w))
        alts.append((And(e == bv32(j), l), rm))
    alts.append((And([Or(e != bv32(j), Not(l)) for j, (l, _, _, _) in enumerate(g.edges)]) if g.edges else BoolVal(True), lambda st, fr: _finish(eng, st, fr, dst, tgt, none())))
    return ('forks', alts)

def _dir_is_outgoing(ctx, d):
    d = ctx.deref(d)
    if isinstance(d, Enum): c = conc(d.disc); return c == 0
    if isinstance(d, engine_FnItem()): return d.name.endswith('Outgoing')
    if isinstance(d, Agg) and d.ty in ('Outgoing', 'Incoming'): return d.ty == 'Outgoing'
    raise EngineError(f'direction {d!r}')
def engine_FnItem():
    from .engine import FnItem
    return FnItem

@model(G + r'edges_directed$')
def m_edges_directed(ctx):
    g = ctx.deref(ctx.args[0]); n = idx_term(ctx.eng, ctx.st, ctx.args[1]); out = _dir_is_outgoing(ctx, ctx.args[2])
    return ctx.ret(It('gedges', g, (n if out else None, None if out else n), len(g.edges) - 1))
@model(G + r'edges_connecting$')
def m_edges_connecting(ctx):
    g = ctx.deref(ctx.args[0]); a = idx_term(ctx.eng, ctx.st, ctx.args[1]); b = idx_term(ctx.eng, ctx.st, ctx.args[2])
    return ctx.ret(It('gedges', g, (a, b), len(g.edges) - 1))
@model(G + r'node_indices$')
def m_node_indices(ctx):
    g = ctx.deref(ctx.args[0]); return ctx.ret(It('gnodes', g, None, 0))

def _gedges_pull(eng, st, fr, it, cont):
    g = it.a; (src, dst_) = it.b; j = it.c
    if j < 0: return cont(st, fr, None, it)
    l, s_, d, w = g.edges[j]
    hit = [l]
    if src is not None: hit.append(s_ == src)
    if dst_ is not None: hit.append(d == dst_)
    hit = And(hit)
    nxt = It('gedges', g, it.b, j - 1)
    def yes(s2, f2):
        return cont(s2, f2, EdgeRefV(j, s_ if src is None else src, d if dst_ is None else dst_, w), nxt)
    return ('forks', [(hit, yes), (Not(hit), lambda s2, f2: _gedges_pull(eng, s2, f2, nxt, cont))])
def _gnodes_pull(eng, st, fr, it, cont):
    g = it.a; i = it.c
    if i >= len(g.nodes): return cont(st, fr, None, it)
    live = g.nodes[i][0]; nxt = It('gnodes', g, None, i + 1)
    return ('forks', [(live, lambda s2, f2: cont(s2, f2, node_index(i), nxt)), (Not(live), lambda s2, f2: _gnodes_pull(eng, s2, f2, nxt, cont))])

def pull(eng, st, fr, it, cont):
    if it.kind == 'gedges': return _gedges_pull(eng, st, fr, it, cont)
    if it.kind == 'gnodes': return _gnodes_pull(eng, st, fr, it, cont)
    if it.kind == 'gmap': return _gmap_pull(eng, st, fr, it, cont)
    return _pull_prev(eng, st, fr, it, cont)
containers.pull = pull

@model(r'^<(?:petgraph::stable_graph::)?EdgeReference<.*> as EdgeRef>::(source|target|id)$|^(?:petgraph::stable_graph::)?EdgeReference::<.*>::(weight)$|^<(?:petgraph::stable_graph::)?EdgeReference<.*> as EdgeRef>::(weight)$')
def m_edge_ref(ctx):
    e = ctx.deref(ctx.args[0]); what = re.search(r'::(source|target|id|weight)$', ctx.callee).group(1)
    if what == 'source': return ctx.ret(node_index(e.src))
    if what == 'target': return ctx.ret(node_index(e.dst))
    if what == 'id': return ctx.ret(edge_index(e.j))
    return ctx.ret(Ref(ctx.st.alloc(e.w), ()))
@model(r'^(?:petgraph::graph::)?NodeIndex::index$|^(?:petgraph::graph::)?NodeIndex::<.*>::index$|^(?:petgraph::graph::)?EdgeIndex::index$')
def m_nodeindex_index(ctx):
    t = idx_term(ctx.eng, ctx.st, ctx.args[0]); return ctx.ret(z3.ZeroExt(32, t))
@model(r'^<(?:petgraph::graph::)?NodeIndex as PartialEq>::eq$|^<(?:petgraph::graph::)?EdgeIndex as PartialEq>::eq$')
def m_nodeindex_eq(ctx):
    return ctx.ret(idx_term(ctx.eng, ctx.st, ctx.args[0]) == idx_term(ctx.eng, ctx.st, ctx.args[1]))
@model(r'^<(?:petgraph::graph::)?NodeIndex as Clone>::clone$')
def m_nodeindex_clone(ctx): return ctx.ret(ctx.deref(ctx.args[0]))

@model(G + r'retain_nodes::<.*>$')
def m_retain_nodes(ctx):
    r = ctx.args[0]; clo = ctx.args[1]; eng = ctx.eng; dst, tgt = ctx.dst, ctx.tgt
    g0 = ctx.deref(r)
    def loop(st, fr, i):
        g = eng.deref(st, r)
        if i >= len(g.nodes): return _finish(eng, st, fr, dst, tgt, UNIT)
        live = g.nodes[i][0]
        def visit(s2, f2):
            frozen = Agg((r,), 'Frozen')
            def after(eng_, s3, f3, kd, rv):
                keep = eng_.term(rv, 'bool')
                def drop(s4, f4):
                    g4 = eng_.deref(s4, r); ns = list(g4.nodes); ns[i] = (BoolVal(False), ns[i][1])
                    es = [(simplify(And(l, s_ != bv32(i), d != bv32(i))), s_, d, ww) for (l, s_, d, ww) in g4.edges]
                    eng_.write_ref(s4, r, GraphV(ns, es)); s4.trace.append(('remove_node', i)); return loop(s4, f4, i + 1)
                return ('forks', [(keep, lambda s4, f4: loop(s4, f4, i + 1)), (Not(keep), drop)])
            return call_closure(eng, s2, f2, clo, (frozen, node_index(i)), after)
        return ('forks', [(live, visit), (Not(live), lambda s2, f2: loop(s2, f2, i + 1))])
    return loop(ctx.st, ctx.fr, 0)

# ---------------------------------------------------------------------------- GMapV models (registered before the MapV ones by re-ordering at import)

def _gmap_alts(eng, st, m, key):
    """[(cond, slot index or None)]"""
    alts = []; miss = []
    for i, (l, k, v) in enumerate(m.entries):
        e = simplify(And(l, val_eq(eng, st, k, key)))
        alts.append((And([e] + miss), i)); miss.append(Not(e))
    alts.append((And(miss) if miss else BoolVal(True), None))
    return alts

MAPS = r'(?:(?:indexmap::(?:map::)?)?IndexMap|(?:std::collections::(?:hash_map::)?)?HashMap)'
def _is_gmap(ctx): return isinstance(ctx.deref(ctx.args[0]), GMapV)

def gm_get(ctx):
    if not _is_gmap(ctx): return NotImplemented
    r = ctx.args[0]; m = ctx.deref(r); what = re.search(r'::(get|get_mut|contains_key|get_full|get_index_of)(?:::<.*>)?$', ctx.callee).group(1)
    alts = []
    for cond, i in _gmap_alts(ctx.eng, ctx.st, m, ctx.args[1]):
        if i is None: alts.append((cond, BoolVal(False) if what == 'contains_key' else none()))
        else:
            vr = Ref(r.base, r.path + (('i', i), 1)); kr = Ref(r.base, r.path + (('i', i), 0))
            alts.append((cond, {'get': some(vr), 'get_mut': some(vr), 'contains_key': BoolVal(True), 'get_full': some(Agg((bv64(i), kr, vr))), 'get_index_of': some(bv64(i))}[what]))
    return ctx.forks(alts)
def gm_insert(ctx):
    if not _is_gmap(ctx): return NotImplemented
    r = ctx.args[0]; m = ctx.deref(r); key = ctx.args[1]; val = ctx.args[2]; eng = ctx.eng; dst, tgt = ctx.dst, ctx.tgt
    alts = []
    for cond, i in _gmap_alts(eng, ctx.st, m, key):
        if i is None:
            def add(st, fr):
                eng.write_ref(st, r, GMapV(m.entries + ((BoolVal(True), key, val),), m.hashed)); return _finish(eng, st, fr, dst, tgt, none())
            alts.append((cond, add))
        else:
            def rep(st, fr, i=i):
                es = list(m.entries); old = es[i][2]; es[i] = (es[i][0], es[i][1], val)
                eng.write_ref(st, r, GMapV(es, m.hashed)); return _finish(eng, st, fr, dst, tgt, some(old))
            alts.append((cond, rep))
    return ('forks', alts)
def gm_remove(ctx):
    if not _is_gmap(ctx): return NotImplemented
    r = ctx.args[0]; m = ctx.deref(r); eng = ctx.eng; dst, tgt = ctx.dst, ctx.tgt
    alts = []
    for cond, i in _gmap_alts(eng, ctx.st, m, ctx.args[1]):
        if i is None: alts.append((cond, none()))
        else:
            def rm(st, fr, i=i):
                es = list(m.entries); old = es[i][2]; es[i] = (BoolVal(False), es[i][1], es[i][2])
                eng.write_ref(st, r, GMapV(es, m.hashed)); return _finish(eng, st, fr, dst, tgt, some(old))
            alts.append((cond, rm))
    return ctx.forks(alts)
def gm_retain(ctx):
    if not _is_gmap(ctx): return NotImplemented
    r = ctx.args[0]; m = ctx.deref(r); eng = ctx.eng; dst, tgt = ctx.dst, ctx.tgt; clo = ctx.args[1]
    def loop(st, fr, i, ents):
        if i == len(ents):
            eng.write_ref(st, r, GMapV(ents, m.hashed)); return _finish(eng, st, fr, dst, tgt, UNIT)
        l, k, v = ents[i]
        def visit(s2, f2):
            kc = s2.alloc(k); vc = s2.alloc(v)
            def after(eng_, s3, f3, kd, rv):
                b = eng_.term(rv, 'bool')
                def drop(s4, f4):
                    e2 = list(ents); e2[i] = (BoolVal(False), k, v); return loop(s4, f4, i + 1, tuple(e2))
                return ('forks', [(b, lambda s4, f4: loop(s4, f4, i + 1, ents)), (Not(b), drop)])
            return call_closure(eng, s2, f2, clo, (Ref(kc, ()), Ref(vc, ())), after)
        return ('forks', [(l, visit), (Not(l), lambda s2, f2: loop(s2, f2, i + 1, ents))])
    return loop(ctx.st, ctx.fr, 0, m.entries)
def gm_iter(ctx):
    r = ctx.args[0]; m = ctx.deref(r)
    if not isinstance(m, GMapV): return NotImplemented
    mm = re.search(r'::(iter|iter_mut|keys|values|values_mut)$', ctx.callee)
    mode = {'iter': 'kv', 'iter_mut': 'kv', 'keys': 'keys', 'values': 'values', 'values_mut': 'values', None: 'kv'}[mm.group(1) if mm else None]
    return ctx.ret(It('gmap', m, (r, mode), 0))
def _gmap_pull(eng, st, fr, it, cont):
    m = it.a; (r, mode) = it.b; i = it.c
    def item_of(i):
        kr = Ref(r.base, r.path + (('i', i), 0)); vr = Ref(r.base, r.path + (('i', i), 1))
        return kr if mode == 'keys' else vr if mode == 'values' else Agg((kr, vr))
    if m.hashed and getattr(eng, 'hash_order_symbolic', False):
        # std HashMap: the iteration order is unspecified - every order of the present entries is explored (it.c = indices already yielded)
        done = i if isinstance(i, tuple) else ()
        rest = [j for j in range(len(m.entries)) if j not in done]
        alts = [(And([Not(m.entries[j][0]) for j in rest]) if rest else BoolVal(True), lambda s2, f2: cont(s2, f2, None, it))]
        for j in rest:
            def go(s2, f2, j=j):
                s2.trace.append(('hash-order', j)); return cont(s2, f2, item_of(j), It('gmap', m, it.b, done + (j,)))
            alts.append((m.entries[j][0], go))
        return ('forks', alts)
    if i >= len(m.entries): return cont(st, fr, None, it)
    l, k, v = m.entries[i]; nxt = It('gmap', m, it.b, i + 1)
    return ('forks', [(l, lambda s2, f2: cont(s2, f2, item_of(i), nxt)), (Not(l), lambda s2, f2: _gmap_pull(eng, s2, f2, nxt, cont))])

def _front(pattern, fn):
    from .models import MODELS
    MODELS.insert(0, (re.compile(pattern, re.S), fn))
_front(r'^' + MAPS + r'::<.*>::(get|get_mut|contains_key|get_full|get_index_of)(?:::<.*>)?$', gm_get)
_front(r'^' + MAPS + r'::<.*>::insert$', gm_insert)
_front(r'^' + MAPS + r'::<.*>::(?:swap_remove|shift_remove|remove)(?:::<.*>)?$', gm_remove)
_front(r'^' + MAPS + r'::<.*>::retain::<.*>$', gm_retain)
_front(r'^' + MAPS + r'::<.*>::(iter|iter_mut|keys|values|values_mut)$|^<&(?:mut )?' + MAPS + r'<.*> as IntoIterator>::into_iter$', gm_iter)

# ---------------------------------------------------------------------------- BitSetV (HashSet<usize>)

def _bit_forks(ctx, s_, k, f):
    alts = []
    for i in range(len(s_.bits)): alts.append((k == bv64(i), (lambda st, fr, i=i: f(st, fr, i))))
    alts.append((UGE(k, bv64(len(s_.bits))), ('bound', 'argument index beyond the modelled universe')))
    return ('forks', alts)
def bs_insert(ctx):
    r = ctx.args[0]; s_ = ctx.deref(r)
    if not isinstance(s_, BitSetV): return NotImplemented
    k = ctx.term(ctx.args[1], 'usize'); eng = ctx.eng; dst, tgt = ctx.dst, ctx.tgt
    def f(st, fr, i):
        b = list(s_.bits); old = b[i]; b[i] = BoolVal(True); eng.write_ref(st, r, BitSetV(b)); return _finish(eng, st, fr, dst, tgt, Not(old))
    return _bit_forks(ctx, s_, k, f)
def bs_remove(ctx):
    r = ctx.args[0]; s_ = ctx.deref(r)
    if not isinstance(s_, BitSetV): return NotImplemented
    k = ctx.term(ctx.deref(ctx.args[1]), 'usize'); eng = ctx.eng; dst, tgt = ctx.dst, ctx.tgt
    def f(st, fr, i):
        b = list(s_.bits); old = b[i]; b[i] = BoolVal(False); eng.write_ref(st, r, BitSetV(b)); return _finish(eng, st, fr, dst, tgt, old)
    return _bit_forks(ctx, s_, k, f)
def bs_contains(ctx):
    s_ = ctx.deref(ctx.args[0])
    if not isinstance(s_, BitSetV): return NotImplemented
    k = ctx.term(ctx.deref(ctx.args[1]), 'usize')
    return ctx.ret(Or([And(k == bv64(i), b) for i, b in enumerate(s_.bits)]))
_front(r'^(?:std::collections::)?HashSet::<usize>::insert$', bs_insert)
_front(r'^(?:std::collections::)?HashSet::<usize>::remove(?:::<.*>)?$', bs_remove)
_front(r'^(?:std::collections::)?HashSet::<usize>::contains(?:::<.*>)?$', bs_contains)
@model(r'^<(?:std::collections::)?HashSet<usize> as Default>::default$')
def m_bitset_default(ctx): return ctx.ret(BitSetV([BoolVal(False)] * getattr(ctx.eng, 'bitset_universe', 2)))
_front(r'^<(?:std::collections::)?HashSet<usize> as Default>::default$', m_bitset_default)
