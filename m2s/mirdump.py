"""Regenerate the MIR text of a wac crate from /repo's *current working tree*.

The dump is content-addressed: key = sha256 over every file under the crate directory (src/, Cargo.toml),
the workspace Cargo.toml/Cargo.lock, the sources of the wac crates it depends on, and the feature set. An edit
anywhere under those paths yields a new key, hence a fresh `cargo +nightly rustc -Zunpretty=mir` run. The cache
is only a shortcut for an identical tree.
"""
import hashlib, os, subprocess, sys, time, shutil, fcntl

REPO = os.environ.get('WAC_REPO', '/repo')
CACHE = os.environ.get('VERIF_CACHE', '/verif/.cache')
DEPS = {
    'wac-types': [],
    'wac-graph': ['wac-types'],
    'wac-parser': ['wac-graph', 'wac-types'],
    'wac-resolver': ['wac-parser', 'wac-graph', 'wac-types'],
}

def _files(crate):
    out = []
    base = os.path.join(REPO, 'crates', crate)
    for root, dirs, files in os.walk(os.path.join(base, 'src')):
        dirs.sort()
        for f in sorted(files):
            out.append(os.path.join(root, f))
    out.append(os.path.join(base, 'Cargo.toml'))
    return out

def tree_hash(crate, features=''):
    h = hashlib.sha256()
    paths = []
    for c in [crate] + DEPS[crate]:
        paths += _files(c)
    paths += [os.path.join(REPO, 'Cargo.toml'), os.path.join(REPO, 'Cargo.lock')]
    for p in paths:
        h.update(p.encode()); h.update(b'\0')
        with open(p, 'rb') as f: h.update(f.read())
        h.update(b'\0')
    h.update(('features=' + features).encode())
    return h.hexdigest()[:24]

def dump(crate, features='', quiet=False):
    """returns (path, meta) of the MIR text for `crate` built from the current tree."""
    key = tree_hash(crate, features)
    d = os.path.join(CACHE, 'mir'); os.makedirs(d, exist_ok=True)
    tag = crate + ('+' + features.replace(',', '+') if features else '')
    path = os.path.join(d, f'{tag}.{key}.mir')
    if os.path.exists(path) and os.path.getsize(path) > 1000:
        return path, {'crate': crate, 'features': features, 'key': key, 'cached': True, 'dump_s': 0.0}
    lock = open(os.path.join(d, f'{tag}.lock'), 'w'); fcntl.flock(lock, fcntl.LOCK_EX)
    try:
        if os.path.exists(path) and os.path.getsize(path) > 1000:
            return path, {'crate': crate, 'features': features, 'key': key, 'cached': True, 'dump_s': 0.0}
        t = time.time()
        env = dict(os.environ)
        env['CARGO_TARGET_DIR'] = os.path.join(CACHE, 'mir-target')
        env['CARGO_NET_OFFLINE'] = 'true'
        env.pop('RUSTFLAGS', None)
        cmd = ['cargo', '+nightly', 'rustc', '--offline', '--lib', '-p', crate]
        if crate in ('wac-resolver',):
            cmd += ['--no-default-features']
        if features:
            cmd += ['--features', features]
        cmd += ['--', '-Zunpretty=mir', '-C', 'debug-assertions=off', '-C', 'overflow-checks=on']
        # force rustc to run even when cargo believes the crate is fresh
        lib = os.path.join(REPO, 'crates', crate, 'src', 'lib.rs')
        st = os.stat(lib)
        os.utime(lib, None)
        try:
            r = subprocess.run(cmd, cwd=REPO, env=env, stdout=subprocess.PIPE, stderr=subprocess.PIPE)
        finally:
            os.utime(lib, (st.st_atime, st.st_mtime))
        if r.returncode != 0 or len(r.stdout) < 1000:
            sys.stderr.write(r.stderr.decode(errors='replace')[-4000:])
            raise RuntimeError(f'MIR dump of {crate} failed (rc={r.returncode})')
        tmp = path + '.tmp'
        with open(tmp, 'wb') as f: f.write(r.stdout)
        os.replace(tmp, path)
        # keep at most 6 dumps per tag
        olds = sorted([os.path.join(d, x) for x in os.listdir(d) if x.startswith(tag + '.') and x.endswith('.mir')], key=os.path.getmtime)
        for o in olds[:-6]:
            try: os.remove(o)
            except OSError: pass
        dt = round(time.time() - t, 1)
        if not quiet: sys.stderr.write(f'[mirdump] {tag}: {len(r.stdout)//1024} KiB in {dt}s\n')
        return path, {'crate': crate, 'features': features, 'key': key, 'cached': False, 'dump_s': dt}
    finally:
        fcntl.flock(lock, fcntl.LOCK_UN); lock.close()

if __name__ == '__main__':
    for c in sys.argv[1:] or list(DEPS):
        feats = ''
        if '+' in c: c, feats = c.split('+', 1)
        print(dump(c, feats.replace('+', ',')))
