"""M2S: symbolic executor for rustc MIR text.

State = persistent heap (cell id -> immutable value) + frame stack + path condition + event trace.
Values are immutable Python objects holding z3 terms, so forking a state is a shallow copy of the heap dict and
closures may capture values freely (never frames).
"""
import re, itertools, time, sys
import z3
from z3 import BitVec, BitVecVal, Bool, BoolVal, And, Or, Not, If, simplify, is_true, is_false, is_bool, is_bv, \
    ULT, ULE, UGT, UGE, ZeroExt, SignExt, Extract, Concat, LShR, unsat, sat, unknown
from . import mir
from .mir import parse_place, parse_stmt, parse_rvalue, split_top, place_type

sys.setrecursionlimit(20000)

WIDTH = {'u8': 8, 'i8': 8, 'u16': 16, 'i16': 16, 'u32': 32, 'i32': 32, 'u64': 64, 'i64': 64, 'usize': 64, 'isize': 64,
         'u128': 128, 'i128': 128, 'char': 32}
SIGNED = {'i8', 'i16', 'i32', 'i64', 'isize', 'i128'}

class Unmodelled(Exception): pass
class EngineError(Exception): pass

_ids = itertools.count(1)
def fresh_id(): return next(_ids)

# ---------------------------------------------------------------------------- values

class Agg:
    __slots__ = ('f', 'ty')
    def __init__(s, f, ty=None): s.f = tuple(f); s.ty = ty
    def __repr__(s): return f'Agg{"<"+s.ty+">" if s.ty else ""}{s.f!r}'
UNIT = Agg(())

class Enum:
    """enum value. disc: z3 BV64; vars: {variant name: tuple of field values}. ty: enum name (last path segment)"""
    __slots__ = ('ty', 'disc', 'vars')
    def __init__(s, ty, disc, vars_): s.ty = ty; s.disc = disc; s.vars = vars_
    def __repr__(s): return f'Enum<{s.ty}>({s.disc}, {s.vars!r})'

class EnumVar:
    __slots__ = ('e', 'v')
    def __init__(s, e, v): s.e = e; s.v = v

class Ref:
    __slots__ = ('base', 'path')
    def __init__(s, base, path=()): s.base = base; s.path = tuple(path)
    def __repr__(s): return f'Ref({s.base!r},{s.path!r})'

class FnItem:
    __slots__ = ('name',)
    def __init__(s, name): s.name = name
    def __repr__(s): return f'FnItem({s.name})'

class Closure:
    __slots__ = ('ty', 'f')
    def __init__(s, ty, f): s.ty = ty; s.f = tuple(f)
    def __repr__(s): return f'Closure({s.ty})'

class Lazy:
    """read-only symbolic input, materialised by access path. Shared by all forks (creation is idempotent)."""
    __slots__ = ('name', 'ty', 'kids', '_scalar', '_disc', '_len', 'extra', 'id')
    def __init__(s, name, ty=None):
        s.name = name; s.ty = ty; s.kids = {}; s._scalar = None; s._disc = None; s._len = None; s.extra = {}; s.id = fresh_id()
    def kid(s, key, ty=None):
        k = s.kids.get(key)
        if k is None:
            k = Lazy(f'{s.name}.{key}', ty); s.kids[key] = k
        elif k.ty is None and ty is not None:
            k.ty = ty
        return k
    @property
    def disc(s):
        if s._disc is None: s._disc = BitVec(s.name + '!d', 64)
        return s._disc
    def scalar(s, ty=None):
        if s._scalar is None:
            t = (ty or s.ty)
            if t is None: raise EngineError(f'scalar of untyped lazy {s.name}')
            t = t.strip()
            if t == 'bool': s._scalar = Bool(s.name)
            elif t in WIDTH: s._scalar = BitVec(s.name, WIDTH[t])
            else: raise EngineError(f'scalar of lazy {s.name} with non-scalar type {t}')
            if s.ty is None: s.ty = t
        return s._scalar
    def len(s):
        if s._len is None: s._len = BitVec(s.name + '!len', 64)
        return s._len
    def __repr__(s): return f'Lazy({s.name}: {s.ty})'

class LazyVar:
    __slots__ = ('l', 'v')
    def __init__(s, l, v): s.l = l; s.v = v

class LazyOv:
    """a Lazy with some sub-places overwritten (functional overlay)"""
    __slots__ = ('base', 'ov')
    def __init__(s, base, ov): s.base = base; s.ov = ov

class StrV:
    """string / byte-slice view: buf = tuple of BV8 terms (capacity), off/len BV64"""
    __slots__ = ('buf', 'off', 'len', 'tag')
    def __init__(s, buf, off, ln, tag=None): s.buf = tuple(buf); s.off = off; s.len = ln; s.tag = tag
    def __repr__(s): return f'StrV(cap={len(s.buf)}, off={s.off}, len={s.len})'

class Opaque:
    """result of an opaque call: nothing is known about it; navigation yields further opaque values"""
    __slots__ = ('name', 'ty')
    def __init__(s, name, ty=None): s.name = name; s.ty = ty
    def __repr__(s): return f'Opaque({s.name})'

class Panic:
    __slots__ = ('msg',)
    def __init__(s, msg): s.msg = msg

_STRLIKE = re.compile(r"^(?:str|String|std::string::String|\[u8\]|KebabStr|KebabString)$")
def norm_lazy(v):
    """Lazy objects denote values, never references: a lazily instantiated place of type `&T` becomes Ref(lazy value of type T).
    (string-like referents are exempt: `&str` and `str` are the same fat value in this model)"""
    if isinstance(v, Lazy) and v.ty:
        t = v.ty.strip()
        if t.startswith('&'):
            inner = re.sub(r"^&(?:'\w+ )?(?:mut )?", '', t)
            if not _STRLIKE.match(inner.strip()):
                return Ref(v.kid('*', inner), ())
    return v

def bv64(n): return BitVecVal(n, 64)
def conc(t):
    """python int of a concrete BV term or None"""
    t = simplify(t) if z3.is_expr(t) else t
    if z3.is_bv_value(t): return t.as_long()
    return None

def const_str(b, tag=None):
    if isinstance(b, str): b = b.encode()
    return StrV(tuple(BitVecVal(x, 8) for x in b), bv64(0), bv64(len(b)), tag)

# ---------------------------------------------------------------------------- state

class Frame:
    __slots__ = ('fn', 'bb', 'i', 'env', 'dst', 'ret', 'visits', 'kfn', 'kdata')
    def __init__(s, fn):
        s.fn = fn; s.bb = 'bb0'; s.i = 0; s.env = {}; s.dst = None; s.ret = None; s.visits = {}; s.kfn = None; s.kdata = None
    def copy(s):
        n = Frame(s.fn); n.bb = s.bb; n.i = s.i; n.env = dict(s.env); n.dst = s.dst; n.ret = s.ret; n.visits = dict(s.visits)
        n.kfn = s.kfn; n.kdata = s.kdata
        return n

class State:
    __slots__ = ('heap', 'frames', 'pc', 'trace', 'ghost')
    def __init__(s):
        s.heap = {}; s.frames = []; s.pc = []; s.trace = []; s.ghost = {}
    def fork(s):
        n = State(); n.heap = dict(s.heap); n.frames = [f.copy() for f in s.frames]; n.pc = list(s.pc); n.trace = list(s.trace)
        n.ghost = dict(s.ghost)
        return n
    def alloc(s, v=None):
        c = fresh_id(); s.heap[c] = v; return c

class Outcome:
    __slots__ = ('kind', 'pc', 'value', 'st', 'site')
    def __init__(s, kind, pc, value, st, site=None): s.kind = kind; s.pc = pc; s.value = value; s.st = st; s.site = site
    def cond(s): return And(s.pc) if s.pc else BoolVal(True)
    def __repr__(s): return f'Outcome({s.kind}, site={s.site})'

# ---------------------------------------------------------------------------- call context handed to models

class Ctx:
    __slots__ = ('eng', 'st', 'fr', 'dst', 'callee', 'argstrs', 'args', 'tgt')
    def __init__(s, eng, st, fr, dst, callee, argstrs, args, tgt):
        s.eng = eng; s.st = st; s.fr = fr; s.dst = dst; s.callee = callee; s.argstrs = argstrs; s.args = args; s.tgt = tgt
    def ret(s, v):
        if s.tgt is None: raise EngineError('return from diverging call ' + s.callee)
        s.eng.store(s.st, s.fr, parse_place(s.dst), v); s.eng.goto(s.fr, s.tgt); return None
    def panic(s, msg): return ('done', 'panic', msg)
    def forks(s, alts):
        """alts: [(cond, action)], action = value | Panic | callable(st, fr)"""
        out = []
        dst = s.dst; tgt = s.tgt; eng = s.eng
        for cond, act in alts:
            if isinstance(act, Panic):
                out.append((cond, ('panic', act.msg)))
            elif callable(act):
                out.append((cond, act))
            else:
                def ap(st2, fr2, act=act):
                    eng.store(st2, fr2, parse_place(dst), act); eng.goto(fr2, tgt)
                out.append((cond, ap))
        return ('forks', out)
    def deref(s, v): return s.eng.deref(s.st, v)
    def term(s, v, ty=None): return s.eng.term(v, ty)
    def argty(s, i):
        return s.eng.operand_type(s.fr, s.argstrs[i])
    def assume(s, c): s.st.pc.append(c)
    def event(s, *ev): s.st.trace.append(ev)
    def call_fn(s, name, args, kfn=None, kdata=None):
        """push a frame for MIR function `name`; when it returns, kfn(eng, st, caller_frame, kdata, retval) runs (it must
        store/goto itself or return a ('forks'|'done') action); without kfn the result goes to dst/tgt"""
        return s.eng.push_call(s.st, s.fr, name, args, s.dst, s.tgt, kfn, kdata)

class CtxK(Ctx):
    """call context whose result is handed to a Python continuation instead of a MIR destination"""
    __slots__ = ('after', 'kdata')
    def ret(s, v): return s.after(s.eng, s.st, s.fr, s.kdata, v)
    def forks(s, alts):
        out = []
        for cond, act in alts:
            if isinstance(act, Panic): out.append((cond, ('panic', act.msg)))
            elif callable(act): out.append((cond, act))
            else: out.append((cond, (lambda st2, fr2, act=act: s.after(s.eng, st2, fr2, s.kdata, act))))
        return ('forks', out)

# ---------------------------------------------------------------------------- engine

class Engine:
    def __init__(s, fns, decls=None, models=(), overrides=(), loop_bound=8, rec_bound=3, str_cap=12, vec_cap=3, seed=0, max_paths=200000):
        s.fns = fns; s.decls = decls
        s.models = list(models)          # [(compiled regex, handler)]
        s.overrides = [(re.compile(p), h) for p, h in overrides]
        s.loop_bound = loop_bound; s.rec_bound = rec_bound; s.str_cap = str_cap; s.vec_cap = vec_cap
        s.solver = z3.Solver(); s.solver.set('random_seed', seed); s.seed = seed; s.incremental = False
        s.assumptions = []               # global (domain) assumptions, also part of every final query
        s.out = []; s.steps = 0; s.paths = 0; s.checks = 0; s.max_paths = max_paths
        s._feas = {}
        s.index = None; s.closures = None
        s.inlined = set(); s.modelled = set(); s.opaque_calls = set()
        s.t_solver = 0.0
        s._promoted = {}; s.const_heap = {}
        s.atom_strings = False; s.hash_order_symbolic = False; s.eq_hook = None; s.fnitem_hook = None
        s._build_index()

    # ---- function index: resolve call-site text to a dump function
    @staticmethod
    def _targs(t):
        m = re.search(r'<(.*)>', t, re.S)
        if not m: return ()
        return tuple(x.strip().split('::')[-1] for x in split_top(m.group(1)))
    def _build_index(s):
        s.index = {}; s.closures = {}; s.trait_of = {}
        for name, fn in s.fns.items():
            if '{closure#' in name or '{closure@' in name:
                if fn.params:
                    t = fn.params[0][1]
                    m = re.search(r'\{closure@[^}]*\}', t)
                    if m: s.closures.setdefault(m.group(0), name)
                continue
            if fn.is_const: continue
            key = s._key_of_header(name)
            if key: s.index.setdefault(key, []).append(name)
    def _key_of_header(s, name):
        m = re.search(r'<impl at ([^:>]+):(\d+):(\d+): \d+:\d+>', name)
        meth = mir.strip_generics(name).split('::')[-1]
        if m:
            ty = tr = None
            if s.decls:
                e = s.decls.impls.get((m.group(1), int(m.group(2)), int(m.group(3)))) or s.decls.impls.get((m.group(1), int(m.group(2))))
                if e: ty, tr = e
            if ty is None: return ('?', None, meth)
            if tr: s.trait_of[name] = tr
            return (s._tyseg(ty), s._tyseg(tr) if tr else None, meth)
        segs = mir.strip_generics(name).split('::')
        return (None, None, meth) if len(segs) >= 1 else None
    @staticmethod
    def _tyseg(t):
        t = mir.erase_angle(t).strip()
        t = re.sub(r"^&(?:'\w+ )?(?:mut )?", '', t)
        return t.split('::')[-1].strip()
    def resolve(s, callee):
        """call-site text -> dump function name or None"""
        c = callee.strip()
        m = re.match(r'^<(.*) as (.*?)>::(\w+)(::<.*>)?$', c, re.S)
        if m:
            ty = s._tyseg(m.group(1)); tr = s._tyseg(m.group(2)); meth = m.group(3)
            cands = s.index.get((ty, tr, meth), [])
            if len(cands) == 1: return cands[0]
            if len(cands) > 1:
                # several impls of one generic trait (e.g. Index<NodeId> / Index<PackageId>): compare the trait's type arguments
                want = s._targs(m.group(2))
                c2 = [n for n in cands if s._targs(s.trait_of.get(n, '')) == want]
                if len(c2) == 1: return c2[0]
                raise EngineError(f'ambiguous call {callee}: {cands}')
            return None
        c2 = mir.strip_generics(c)
        segs = c2.split('::')
        meth = segs[-1]
        if len(segs) >= 2:
            ty = s._tyseg(segs[-2])
            cands = s.index.get((ty, None, meth), [])
            if len(cands) == 1: return cands[0]
            if len(cands) > 1: raise EngineError(f'ambiguous call {callee}: {cands}')
        if len(segs) >= 3:
            # function nested in a method: Type::method::inner
            tail = '::'.join(segs[-2:])
            c3 = [n for n in s.fns if not s.fns[n].is_const and '{closure' not in n and mir.strip_generics(n).endswith('::' + tail)]
            if len(c3) == 1: return c3[0]
        cands = [n for n in s.index.get((None, None, meth), []) if mir.strip_generics(n).split('::')[-1] == meth and
                 (len(segs) == 1 or mir.strip_generics(n).endswith(c2) or mir.strip_generics(n).split('::')[-len(segs):] == segs)]
        if len(cands) == 1: return cands[0]
        if len(cands) > 1:
            ex = [n for n in cands if mir.strip_generics(n) == c2]
            if len(ex) == 1: return ex[0]
            raise EngineError(f'ambiguous call {callee}: {cands}')
        # `module::<impl Type>::method` (inherent impl named by its module): unique method name over all impls
        mi = re.search(r'<impl ([^>]*)>::(\w+)$', c)
        if mi:
            ty = s._tyseg(mi.group(1)); c4 = s.index.get((ty, None, mi.group(2)), [])
            if len(c4) == 1: return c4[0]
        return None
    def find_fn(s, pattern):
        c = [n for n in s.fns if re.search(pattern, n)]
        if len(c) != 1: raise EngineError(f'find_fn({pattern}) -> {c[:6]}')
        return c[0]

    # ---- solver
    def assume(s, c):
        s.assumptions.append(c); s.solver.add(c)
    def feasible(s, st, cond=None):
        parts = list(st.pc)
        if cond is not None: parts.append(cond)
        c = simplify(And(parts)) if parts else BoolVal(True)
        if is_false(c): return False
        if is_true(c): return True
        k = c.get_id()
        e = s._feas.get(k)
        if e is not None and e[0].eq(c): return e[1]
        t = time.time()
        if s.incremental:
            s.solver.push(); s.solver.add(c); r = s.solver.check(); s.solver.pop()
        else:
            sol = z3.Solver(); sol.set('random_seed', s.seed)
            sol.add(s.assumptions); sol.add(c); r = sol.check()
        s.t_solver += time.time() - t; s.checks += 1
        if r == unknown: raise EngineError('solver returned unknown in feasibility check')
        s._feas[k] = (c, r != unsat)
        return r != unsat

    # ---- scalars
    def term(s, v, ty=None):
        if isinstance(v, Lazy): return v.scalar(ty)
        if isinstance(v, LazyOv): raise EngineError('term of overlay')
        if z3.is_expr(v): return v
        if isinstance(v, bool): return BoolVal(v)
        raise EngineError(f'not a scalar: {v!r}')
    def deref(s, st, v):
        while isinstance(v, Ref):
            v = s.read_ref(st, v)
        return v
    def read_ref(s, st, r):
        v = s.cell(st, r.base) if isinstance(r.base, int) else r.base
        for step in r.path: v = s.nav(v, step)
        return s.finish(v)
    def cell(s, st, c):
        try: return st.heap[c]
        except KeyError: return s.const_heap[c]
    def finish(s, v):
        if isinstance(v, (EnumVar, LazyVar)): raise EngineError('dangling downcast')
        return v

    # ---- navigation
    def nav(s, v, step, ty=None):
        if isinstance(step, int):
            if isinstance(v, Agg):
                return v.f[step]
            if isinstance(v, EnumVar): return v.e.vars[v.v][step]
            if isinstance(v, Lazy):
                if v.ty is not None and step == 0:
                    t = v.ty.strip()
                    if t.startswith('Box<') or t.startswith('std::boxed::Box<'): pass
                return v.kid(str(step), ty)
            if isinstance(v, LazyVar): return v.l.kid(f'{v.v}.{step}', ty)
            if isinstance(v, LazyOv):
                if step in v.ov: return v.ov[step]
                return s.nav(v.base, step, ty)
            if isinstance(v, Closure): return v.f[step]
            if isinstance(v, Opaque): return Opaque(f'{v.name}.{step}', ty)
            if isinstance(v, StrV) and step == 0: return v     # String { vec } newtypes
            raise EngineError(f'nav field {step} of {v!r}')
        k = step[0]
        if k == 'v':
            if isinstance(v, Enum):
                if step[1] not in v.vars:
                    return EnumVar(Enum(v.ty, v.disc, {step[1]: _Missing(v, step[1])}), step[1])
                return EnumVar(v, step[1])
            if isinstance(v, Lazy): return LazyVar(v, step[1])
            if isinstance(v, LazyOv):
                key = ('v', step[1])
                if key in v.ov: return v.ov[key]
                return LazyVar(v.base, step[1])
            if isinstance(v, Opaque): return Opaque(f'{v.name}.{step[1]}')
            raise EngineError(f'downcast {step[1]} of {v!r}')
        if k == 'i':
            idx = step[1]
            if isinstance(v, Agg):
                ci = idx if isinstance(idx, int) else conc(idx)
                if ci is None: raise EngineError('symbolic index into aggregate')
                return v.f[ci]
            if hasattr(v, 'index_get'): return v.index_get(s, idx)
            if isinstance(v, Lazy):
                ci = idx if isinstance(idx, int) else conc(idx)
                if ci is None: raise EngineError('symbolic index into lazy')
                return v.kid(f'[{ci}]', ty)
            raise EngineError(f'index of {v!r}')
        raise EngineError(f'nav step {step!r}')

    def set_path(s, v, path, new):
        if not path: return new
        step = path[0]; rest = path[1:]
        if isinstance(step, int):
            if isinstance(v, Agg):
                f = list(v.f); f[step] = s.set_path(f[step], rest, new); return Agg(f, v.ty)
            if isinstance(v, Closure):
                f = list(v.f); f[step] = s.set_path(f[step], rest, new); return Closure(v.ty, f)
            if isinstance(v, Lazy):
                return LazyOv(v, {step: s.set_path(s.nav(v, step), rest, new)})
            if isinstance(v, LazyOv):
                ov = dict(v.ov); ov[step] = s.set_path(s.nav(v, step), rest, new); return LazyOv(v.base, ov)
            if v is None and not rest:
                raise EngineError('field store into uninitialised aggregate')
            raise EngineError(f'set field {step} of {v!r}')
        if step[0] == 'v':
            if isinstance(v, Enum):
                fields = list(v.vars[step[1]]); i = rest[0]
                fields[i] = s.set_path(fields[i], rest[1:], new)
                vs = dict(v.vars); vs[step[1]] = tuple(fields); return Enum(v.ty, v.disc, vs)
            if isinstance(v, Lazy) and rest and isinstance(rest[0], int):
                # a store into one field of a variant of a lazily instantiated enum: materialise that variant (its other fields stay lazy)
                var = step[1]; n = rest[0] + 1
                en = mir.strip_generics(v.ty or "").split("::")[-1] if v.ty else None
                if s.decls is not None and en in getattr(s.decls, 'enums', {}):
                    for (vn, kind, fs) in s.decls.enums[en]:
                        if vn == var: n = max(n, len(fs))
                e = Enum(v.ty or 'enum', v.disc, {var: tuple(v.kid(f'{var}.{j}') for j in range(n))})
                return s.set_path(e, path, new)
            raise EngineError(f'set downcast of {v!r}')
        if step[0] == 'i':
            if hasattr(v, 'index_set'): return v.index_set(s, step[1], rest, new)
            if isinstance(v, Agg):
                ci = step[1] if isinstance(step[1], int) else conc(step[1])
                f = list(v.f); f[ci] = s.set_path(f[ci], rest, new); return Agg(f, v.ty)
        raise EngineError(f'set_path {step!r} of {v!r}')

    # ---- places
    def locate(s, st, fr, pl):
        k = pl[0]
        if k == 'local':
            c = fr.env.get(pl[1])
            if c is None:
                c = st.alloc(None); fr.env[pl[1]] = c
            return c, ()
        if k == 'deref':
            v = s.load(st, fr, pl[1])
            if isinstance(v, Ref): return v.base, v.path
            if isinstance(v, Lazy):
                t = place_type(fr.fn, pl)
                return v.kid('*', t), ()
            if isinstance(v, Opaque): return Opaque(v.name + '.*'), ()
            if isinstance(v, StrV): return st.alloc(v), ()         # `&str` / `&[u8]` are fat values: the referent is the same view
            if hasattr(v, 'deref_target'): return v.deref_target(s, st)
            raise EngineError(f'deref of {v!r} in {fr.fn.name} {pl}')
        if k == 'field':
            b, p = s.locate(st, fr, pl[1]); return b, p + (pl[2],)
        if k == 'downcast':
            b, p = s.locate(st, fr, pl[1]); return b, p + (('v', pl[2]),)
        if k == 'index':
            b, p = s.locate(st, fr, pl[1]); idx = s.term(s.load(st, fr, ('local', pl[2])), 'usize')
            return b, p + (('i', idx),)
        if k == 'cindex':
            b, p = s.locate(st, fr, pl[1])
            if pl[4]: raise EngineError('from-end constant index')
            return b, p + (('i', pl[2]),)
        raise EngineError(f'locate {pl}')
    def load(s, st, fr, pl):
        b, p = s.locate(st, fr, pl)
        v = s.cell(st, b) if isinstance(b, int) else b
        if v is None and isinstance(b, int) and not p:
            raise EngineError(f'read of uninitialised local {pl} in {fr.fn.name}')
        for i, step in enumerate(p): v = s.nav(v, step)
        if isinstance(v, Lazy) and v.ty is None:
            t = place_type(fr.fn, pl)
            if t is not None: v.ty = t
        return s.finish(norm_lazy(v))
    def store(s, st, fr, pl, val):
        b, p = s.locate(st, fr, pl)
        if not isinstance(b, int):
            raise EngineError(f'store through read-only input {b!r} at {pl} in {fr.fn.name}')
        if not p: st.heap[b] = val
        else: st.heap[b] = s.set_path(s.cell(st, b), p, val)
    def write_ref(s, st, r, val):
        if not isinstance(r.base, int): raise EngineError(f'write through read-only input {r.base!r}')
        st.heap[r.base] = s.set_path(s.cell(st, r.base), r.path, val) if r.path else val

    # ---- operands
    def operand_type(s, fr, o):
        o = o.strip()
        m = re.match(r'^(?:no_retag )?(?:copy|move) (.*)$', o, re.S)
        if m: return place_type(fr.fn, parse_place(m.group(1)))
        if o.startswith('const '):
            c = o[6:]
            m = re.match(r'^-?\d+_(\w+)$', c)
            if m: return m.group(1)
            if c in ('true', 'false'): return 'bool'
            if c.startswith("'"): return 'char'
        return None
    def operand(s, st, fr, o):
        o = o.strip()
        m = re.match(r'^(?:no_retag )?(?:copy|move) (.*)$', o, re.S)
        if m: return s.load(st, fr, parse_place(m.group(1)))
        if o.startswith('const '): return s.const(st, fr, o[6:])
        if re.match(r'^[A-Za-z_<]', o) and '::' in o: return FnItem(o)      # bare function item
        if re.match(r'^[A-Z]\w*$', o) and s.decls is not None and o in getattr(s.decls, 'structs', {}): return FnItem('ctor ' + o)      # tuple-struct constructor
        raise EngineError('operand? ' + o)
    def const(s, st, fr, c):
        c = c.strip()
        if c == 'true': return BoolVal(True)
        if c == 'false': return BoolVal(False)
        if c == '()': return UNIT
        m = re.match(r'^(-?\d+)_(\w+)$', c)
        if m: return BitVecVal(int(m.group(1)), WIDTH[m.group(2)])
        m = re.match(r"^'(.*)'$", c, re.S)
        if m:
            ch = m.group(1)
            if ch.startswith('\\u{'): cp = int(ch[3:-1], 16)
            elif ch.startswith('\\'):
                cp = {'n': 10, 't': 9, 'r': 13, '0': 0, '\\': 92, "'": 39, '"': 34}[ch[1]]
            else: cp = ord(ch)
            return BitVecVal(cp, 32)
        if c.startswith('"') and c.endswith('"'):
            return const_str(_unescape(c[1:-1]))
        if c.startswith('b"') and c.endswith('"'):
            return const_str(_unescape(c[2:-1]))
        m = re.match(r'^(u8|u16|u32|u64|usize|i8|i16|i32|i64|isize)::(MAX|MIN)$', c)
        if m:
            w = WIDTH[m.group(1)]; sg = m.group(1) in SIGNED
            if m.group(2) == 'MAX': return BitVecVal((1 << (w - 1)) - 1 if sg else (1 << w) - 1, w)
            return BitVecVal(-(1 << (w - 1)) if sg else 0, w)
        if c.startswith('ZeroSized: '):
            z = c[len('ZeroSized: '):].strip()
            if z.startswith('{closure@'): return Closure(z, ())
            return FnItem(z)
        if c.endswith(']') and 'promoted[' in c: return s.promoted(st, c)
        # unit variant / unit struct / fn item
        r = s.adt(c, (), 'unit', st, fr, as_const=True)
        return r
    def promoted(s, st, name):
        key = mir.strip_generics(name)
        if key in s._promoted: return s._promoted[key]
        cands = [n for n in s.fns if s.fns[n].is_const and 'promoted[' in n]
        idx = key[key.rindex('promoted['):]
        base = key[:key.rindex('::promoted[')]
        meth = base.split('::')[-1]
        hit = []
        for n in cands:
            n2 = mir.strip_generics(n)
            if not n2.endswith(idx): continue
            b2 = n2[:n2.rindex('::promoted[')]
            if b2.split('::')[-1] != meth: continue
            if meth.startswith('{closure') and b2.split('::')[-2:] != base.split('::')[-2:]: continue
            hit.append(n)
        if len(hit) > 1:
            # disambiguate by resolving the owning function
            owner = None
            try: owner = s.resolve(base)
            except EngineError: owner = None
            if owner:
                hit2 = [n for n in hit if n.startswith(owner + '::promoted[')]
                if hit2: hit = hit2
        if len(hit) != 1: raise EngineError(f'promoted {name} -> {hit}')
        # evaluate the constant body in a scratch state that shares this heap (constants are pure)
        fn = s.fns[hit[0]]
        sub = State(); fr = Frame(fn); sub.frames = [fr]
        outs = s._run_sub(sub)
        if len(outs) != 1 or outs[0].kind != 'ret': raise EngineError('promoted evaluation forked/panicked: ' + name)
        s.const_heap.update(outs[0].st.heap)      # constants are pure: their cells are shared by every state
        s._promoted[key] = outs[0].value
        return outs[0].value
    def _run_sub(s, sub):
        save = s.out; savew = getattr(s, 'work', None); s.out = []; s.work = None
        try:
            s.run(sub); return s.out
        finally:
            s.out = save; s.work = savew

    # ---- ADT aggregates
    def adt(s, path, argstrs, kind, st, fr, as_const=False):
        p = mir.strip_generics(path).strip()
        # `<T as Trait>::...` constants are not aggregates
        segs = p.split('::')
        last = segs[-1]
        args = tuple(s.operand(st, fr, a) for a in argstrs)
        if s.decls is not None and len(segs) >= 2:
            key, vs = s.decls.find_enum([x.replace('r#', '') for x in segs[:-1]], last)
            if key is not None:
                idx = s.decls.enum_index(key, last)
                return Enum(key, bv64(idx), {last: args})
        if as_const:
            if s.decls is not None and last in s.decls.structs and s.decls.structs[last][0] == 'unit': return Agg((), last)
            return FnItem(path)
        return Agg(args, last.replace('r#', ''))

    # ---- rvalues
    def rvalue(s, st, fr, rv, dst_pl=None):
        k = rv[0]
        if k == 'use': return s.operand(st, fr, rv[1])
        if k == 'ref':
            pl = parse_place(rv[2]); b, p = s.locate(st, fr, pl)
            if isinstance(b, Lazy):
                v = b
                for step in p: v = s.nav(v, step)
                if isinstance(v, Lazy) and v.ty is None: v.ty = place_type(fr.fn, pl)
            return Ref(b, p)
        if k == 'discriminant':
            v = s.load(st, fr, parse_place(rv[1]))
            if isinstance(v, (Enum, Lazy)): return v.disc
            if isinstance(v, LazyOv): return v.ov.get('disc', v.base.disc)
            if isinstance(v, Opaque): raise EngineError(f'discriminant of opaque value {v.name} in {fr.fn.name}')
            if hasattr(v, 'disc'): return v.disc
            raise EngineError(f'discriminant of {v!r}')
        if k == 'tuple': return Agg(tuple(s.operand(st, fr, a) for a in rv[1]))
        if k == 'array': return Agg(tuple(s.operand(st, fr, a) for a in rv[1]), 'array')
        if k == 'adt': return s.adt(rv[1], rv[2], rv[3], st, fr)
        if k == 'closure': return Closure(rv[1], tuple(s.operand(st, fr, a) for a in rv[2]))
        if k == 'binop': return s.binop(st, fr, rv[1], rv[2], rv[3])
        if k == 'unop':
            a = s.operand(st, fr, rv[2]); t = s.operand_type(fr, rv[2])
            if rv[1] == 'Not':
                a = s.term(a, t); return Not(a) if is_bool(a) else ~a
            if rv[1] == 'Neg': return -s.term(a, t)
            if rv[1] == 'PtrMetadata':
                a = s.deref(st, a) if isinstance(a, Ref) else a
                if isinstance(a, StrV): return a.len
                raise EngineError('PtrMetadata of ' + repr(a))
        if k == 'cast': return s.cast(st, fr, rv[1], rv[2], rv[3])
        if k == 'len':
            v = s.load(st, fr, parse_place(rv[1]))
            if isinstance(v, Agg): return bv64(len(v.f))
            if isinstance(v, StrV): return v.len
        if k == 'repeat':
            n = int(re.match(r'^(\d+)', rv[2].replace('const ', '')).group(1)); a = s.operand(st, fr, rv[1])
            return Agg((a,) * n, 'array')
        raise EngineError(f'rvalue {rv}')
    def cast(s, st, fr, opnd, ty, kind):
        v = s.operand(st, fr, opnd); src = s.operand_type(fr, opnd)
        if kind == 'IntToInt' or kind == 'Transmute' and ty in WIDTH and (src in WIDTH or src == 'bool'):
            if src == 'bool':
                b = s.term(v, 'bool'); return If(b, BitVecVal(1, WIDTH[ty]), BitVecVal(0, WIDTH[ty]))
            t = s.term(v, src); w0 = t.size(); w1 = WIDTH[ty]
            if w1 == w0: return t
            if w1 < w0: return Extract(w1 - 1, 0, t)
            return SignExt(w1 - w0, t) if src in SIGNED else ZeroExt(w1 - w0, t)
        if kind.startswith('PointerCoercion') or kind in ('PtrToPtr', 'Transmute'):
            return v
        raise EngineError(f'cast {kind} to {ty}')
    def binop(s, st, fr, op, a_s, b_s):
        ta = s.operand_type(fr, a_s); tb = s.operand_type(fr, b_s)
        a = s.operand(st, fr, a_s); b = s.operand(st, fr, b_s)
        t = ta or tb
        a = s.term(a, ta or tb); b = s.term(b, tb or ta)
        if is_bool(a) and is_bool(b):
            if op == 'Eq': return a == b
            if op == 'Ne': return a != b
            if op == 'BitAnd': return And(a, b)
            if op == 'BitOr': return Or(a, b)
            if op == 'BitXor': return z3.Xor(a, b)
            raise EngineError('bool binop ' + op)
        sg = t in SIGNED
        if op == 'Eq': return a == b
        if op == 'Ne': return a != b
        if op == 'Lt': return (a < b) if sg else ULT(a, b)
        if op == 'Le': return (a <= b) if sg else ULE(a, b)
        if op == 'Gt': return (a > b) if sg else UGT(a, b)
        if op == 'Ge': return (a >= b) if sg else UGE(a, b)
        if op in ('Add', 'AddUnchecked'): return a + b
        if op in ('Sub', 'SubUnchecked'): return a - b
        if op in ('Mul', 'MulUnchecked'): return a * b
        if op == 'BitAnd': return a & b
        if op == 'BitOr': return a | b
        if op == 'BitXor': return a ^ b
        if op in ('Shl', 'ShlUnchecked'): return a << _fit(b, a.size())
        if op in ('Shr', 'ShrUnchecked'): return (a >> _fit(b, a.size())) if sg else LShR(a, _fit(b, a.size()))
        if op == 'Div': return (a / b) if sg else z3.UDiv(a, b)
        if op == 'Rem': return z3.SRem(a, b) if sg else z3.URem(a, b)
        w = a.size()
        if op == 'AddWithOverflow':
            if sg: ov = Or(Not(z3.BVAddNoOverflow(a, b, True)), Not(z3.BVAddNoUnderflow(a, b)))
            else: ov = Not(z3.BVAddNoOverflow(a, b, False))
            return Agg((a + b, ov))
        if op == 'SubWithOverflow':
            if sg: ov = Or(Not(z3.BVSubNoOverflow(a, b)), Not(z3.BVSubNoUnderflow(a, b, True)))
            else: ov = ULT(a, b)
            return Agg((a - b, ov))
        if op == 'MulWithOverflow':
            ov = Or(Not(z3.BVMulNoOverflow(a, b, sg)), Not(z3.BVMulNoUnderflow(a, b))) if sg else Not(z3.BVMulNoOverflow(a, b, False))
            return Agg((a * b, ov))
        if op == 'Cmp':
            lt = (a < b) if sg else ULT(a, b)
            d = If(lt, BitVecVal(-1, 64), If(a == b, bv64(0), bv64(1)))
            return Enum('Ordering', d, {'Less': (), 'Equal': (), 'Greater': ()})
        raise EngineError('binop ' + op)

    # ---- control
    def goto(s, fr, bb):
        fr.bb = bb; fr.i = 0
    def push_call(s, st, fr, name, args, dst, tgt, kfn=None, kdata=None):
        fn = s.fns[name]
        depth = sum(1 for f in st.frames if f.fn is fn)
        if depth > s.rec_bound:
            return ('done', 'bound', f'recursion bound {s.rec_bound} in {name}')
        nf = Frame(fn); nf.dst = dst; nf.ret = tgt; nf.kfn = kfn; nf.kdata = kdata
        if len(args) != fn.nargs:
            # closures called through Fn* traits receive (closure, (args,)) - untuple
            if len(args) == 2 and isinstance(args[1], Agg) and 1 + len(args[1].f) == fn.nargs:
                args = (args[0],) + tuple(args[1].f)
            else:
                raise EngineError(f'arity mismatch calling {name}: {len(args)} vs {fn.nargs}')
        for (loc, ty), a in zip(fn.params, args):
            nf.env[loc] = st.alloc(a)
        st.frames.append(nf); s.inlined.add(name)
        return None

    def run(s, st0):
        outer = getattr(s, 'work', None)
        if outer: raise EngineError('re-entrant run() would clobber the worklist; use _run_sub')
        s.work = [st0]
        while s.work:
            st = s.work.pop()
            while True:
                fr = st.frames[-1]
                blk = fr.fn.blocks[fr.bb]
                stmt = blk[fr.i]; fr.i += 1; s.steps += 1
                try:
                    r = s.exec(st, fr, stmt)
                    if r is None: continue
                    s.process(st, r)
                except (EngineError, Unmodelled) as e:
                    if not getattr(e, '_where', None):
                        e._where = f'{fr.fn.name} {fr.bb}: {stmt}'
                        e.args = (str(e.args[0]) + f'\n   at {e._where}',) + e.args[1:]
                    raise
                break
    def process(s, st, r):
        """handle the action `r` produced for state `st` (None = keep running it)"""
        if r is None:
            s.work.append(st); return
        if r[0] == 'done':
            s.finish_path(st, r[1], r[2]); return
        if r[0] != 'forks': raise EngineError(f'exec result {r!r}')
        live = []
        for cond, act in r[1]:
            cond = simplify(cond) if z3.is_expr(cond) else BoolVal(bool(cond))
            if is_false(cond): continue
            if s.feasible(st, cond): live.append((cond, act))
        for j, (cond, act) in enumerate(live):
            n = st if j == len(live) - 1 else st.fork()
            if not is_true(cond): n.pc.append(cond)
            if isinstance(act, tuple):     # ('panic', msg) / ('bound', msg)
                s.finish_path(n, act[0], act[1]); continue
            s.process(n, act(n, n.frames[-1]))
    def finish_path(s, st, kind, val):
        s.paths += 1
        if s.paths > s.max_paths: raise EngineError('path budget exceeded')
        site = None
        if kind in ('panic', 'bound', 'unreachable'):
            fr = st.frames[-1] if st.frames else None
            site = (fr.fn.name if fr else '?', val)
        s.out.append(Outcome(kind, list(st.pc), val, st, site))

    def exec(s, st, fr, stmt):
        ps = parse_stmt(stmt); k = ps[0]
        if k == 'nop': return None
        if k == 'assign':
            pl = parse_place(ps[1])
            s.store(st, fr, pl, s.rvalue(st, fr, ps[2], pl)); return None
        if k == 'goto':
            return s.jump(st, fr, ps[1])
        if k == 'switch':
            v = s.operand(st, fr, ps[1]); t = s.term(v, s.operand_type(fr, ps[1]))
            groups = {}; order = []; seen = []
            for kv, tgt in ps[2]:
                if kv is None:
                    if fr.fn.blocks[tgt] == ['unreachable;']: continue
                    if is_bool(t): cond = t if 0 in seen else (Not(t) if 1 in seen else BoolVal(True))
                    else: cond = And([t != BitVecVal(x, t.size()) for x in seen]) if seen else BoolVal(True)
                else:
                    seen.append(kv)
                    cond = (Not(t) if kv == 0 else t) if is_bool(t) else t == BitVecVal(kv, t.size())
                if tgt not in groups: groups[tgt] = []; order.append(tgt)
                groups[tgt].append(cond)
            arms = [((Or(groups[tgt]) if len(groups[tgt]) > 1 else groups[tgt][0]), (lambda n, f, tgt=tgt: s.jump(n, f, tgt))) for tgt in order]
            return ('forks', arms)
        if k == 'return':
            return s.do_return(st, fr)
        if k == 'call': return s.call(st, fr, ps[1], ps[2], ps[3], ps[4])
        if k == 'drop': return s.jump(st, fr, ps[2])
        if k == 'assert':
            neg, cond_s, msg, tgt = ps[1], ps[2], ps[3], ps[4]
            c = s.term(s.operand(st, fr, cond_s), 'bool')
            if neg: c = Not(c)
            return ('forks', [(c, (lambda n, f: s.jump(n, f, tgt))), (Not(c), ('panic', 'assert: ' + msg[:60]))])
        if k == 'unreachable': return ('done', 'unreachable', fr.bb)
        if k == 'resume': return ('done', 'panic', 'resume')
        if k == 'setdisc': raise EngineError('SetDiscriminant')
        raise EngineError('stmt kind ' + k)
    def jump(s, st, fr, bb):
        n = fr.visits.get(bb, 0) + 1; fr.visits[bb] = n
        if n > s.loop_bound + 1:
            return ('done', 'bound', f'loop bound {s.loop_bound} at {fr.fn.name}:{bb}')
        s.goto(fr, bb); return None
    def do_return(s, st, fr):
        c = fr.env.get('_0'); rv = st.heap[c] if c is not None else UNIT
        if rv is None: rv = UNIT
        st.frames.pop()
        if not st.frames:
            return ('done', 'ret', rv)
        caller = st.frames[-1]
        if fr.kfn is not None:
            return fr.kfn(s, st, caller, fr.kdata, rv)
        if fr.ret is None: raise EngineError('return into diverging call site')
        s.store(st, caller, parse_place(fr.dst), rv)
        return s.jump(st, caller, fr.ret)

    # ---- calls
    def call(s, st, fr, dst, callee, argstrs, tgt):
        args = tuple(s.operand(st, fr, a) for a in argstrs)
        ctx = Ctx(s, st, fr, dst, callee, argstrs, args, tgt)
        for pat, h in s.overrides:
            if pat.search(callee):
                r = h(ctx)
                if r is not NotImplemented:
                    s.modelled.add(pat.pattern); return s._post(st, fr, r)
        for pat, h in s.models:
            if pat.search(callee):
                r = h(ctx)
                if r is not NotImplemented:
                    s.modelled.add(pat.pattern); return s._post(st, fr, r)
        # closure invoked through Fn traits
        m = re.match(r'^<(&mut |&)?(\{closure@[^}]*\}) as Fn(?:Mut|Once)?<.*>>::call(?:_mut|_once)?$', callee, re.S)
        if m and m.group(2) in s.closures:
            clo = args[0]
            if not m.group(1):
                # callee expects the closure by the kind of self its body declares
                pass
            return s.push_call(st, fr, s.closures[m.group(2)], s._closure_args(st, s.closures[m.group(2)], clo, args[1]), dst, tgt)
        name = s.resolve(callee)
        if name is not None:
            return s.push_call(st, fr, name, args, dst, tgt)
        raise Unmodelled(callee)
    def _closure_args(s, st, name, clo, tup):
        """adapt (closure value or ref, arg tuple) to the closure body's parameter list"""
        fn = s.fns[name]; pty = fn.params[0][1].strip()
        want_ref = pty.startswith('&')
        if want_ref and not isinstance(clo, Ref):
            clo = Ref(st.alloc(clo), ())
        if not want_ref and isinstance(clo, Ref):
            clo = s.deref(st, clo)
        targs = tuple(tup.f) if isinstance(tup, Agg) else (tup,)
        return (clo,) + targs
    def call_closure(s, ctx, clo, args, kfn, kdata):
        """models use this to run a closure value (Closure/Ref to Closure/FnItem) on args"""
        st = ctx.st
        c = s.deref(st, clo) if isinstance(clo, Ref) else clo
        if isinstance(c, Closure):
            name = s.closures.get(c.ty)
            if name is None: raise Unmodelled('closure body ' + c.ty)
            a = s._closure_args(st, name, clo if isinstance(clo, Ref) else c, Agg(tuple(args)))
            return s.push_call(st, ctx.fr, name, a, ctx.dst, ctx.tgt, kfn, kdata)
        if isinstance(c, FnItem):
            name = s.resolve(c.name)
            if name is None: raise Unmodelled('fn item ' + c.name)
            return s.push_call(st, ctx.fr, name, tuple(args), ctx.dst, ctx.tgt, kfn, kdata)
        raise EngineError(f'call_closure on {c!r}')
    def _post(s, st, fr, r):
        return r
    def call_by_name(s, st, fr, callee, args, after, kdata=None):
        """dispatch `callee` (call-site text) through models / the dump; the result goes to after(eng, st, fr, kdata, value)"""
        if callee.startswith('ctor '): return after(s, st, fr, kdata, Agg(tuple(args), callee[5:]))
        ctx = CtxK(s, st, fr, None, callee, tuple('?' for _ in args), tuple(args), None); ctx.after = after; ctx.kdata = kdata
        for pat, h in s.overrides + s.models:
            if pat.search(callee):
                r = h(ctx)
                if r is not NotImplemented:
                    s.modelled.add(pat.pattern); return r
        name = s.resolve(callee)
        if name is not None: return s.push_call(st, fr, name, tuple(args), None, None, after, kdata)
        raise Unmodelled(callee)

class _Missing(tuple):
    """fields of an enum variant that this value cannot be in (reads are on infeasible paths or are type puns)"""
    def __new__(cls, e, v): return super().__new__(cls)
    def __init__(s, e, v): s.e = e; s.v = v
    def __getitem__(s, i): raise EngineError(f'read of field {i} of variant {s.v} of an enum value that is {list(s.e.vars)}')

def _fit(b, w):
    if b.size() == w: return b
    if b.size() > w: return Extract(w - 1, 0, b)
    return ZeroExt(w - b.size(), b)

def _unescape(sx):
    out = bytearray(); i = 0
    while i < len(sx):
        c = sx[i]
        if c == '\\':
            n = sx[i+1]
            if n == 'x': out.append(int(sx[i+2:i+4], 16)); i += 4; continue
            if n == 'u':
                j = sx.index('}', i); out += chr(int(sx[i+3:j], 16)).encode(); i = j + 1; continue
            out.append({'n': 10, 't': 9, 'r': 13, '0': 0, '\\': 92, "'": 39, '"': 34}[n]); i += 2; continue
        out += c.encode(); i += 1
    return bytes(out)
