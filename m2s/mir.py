"""Loader for rustc `-Zunpretty=mir` text: functions, promoted constants, statement/place/operand parsing.

Nothing here interprets anything; it turns text into small tuples that the executor (engine.py) consumes.
"""
import re, hashlib, os, functools

class Fn:
    __slots__ = ('name', 'header', 'params', 'ret', 'locals', 'blocks', 'cleanup', 'text', 'is_const', 'nargs')
    def __init__(s, name, header):
        s.name = name; s.header = header; s.params = []; s.ret = None; s.locals = {}; s.blocks = {}; s.cleanup = set()
        s.text = []; s.is_const = False; s.nargs = 0
    def sha(s):
        return hashlib.sha256('\n'.join(s.text).encode()).hexdigest()[:16]
    def n_stmts(s):
        return sum(len(b) for b in s.blocks.values())

def split_top(s, sep=', '):
    """split at top nesting level; understands () [] {} <> and '->' and char/string literals"""
    out = []; depth = 0; cur = []; i = 0; n = len(s)
    while i < n:
        c = s[i]
        if c == '"' or (c == 'b' and i + 1 < n and s[i+1] == '"' and (i == 0 or not (s[i-1].isalnum() or s[i-1] == '_'))):
            j = i + (2 if c == 'b' else 1)
            while j < n and s[j] != '"':
                j += 2 if s[j] == '\\' else 1
            cur.append(s[i:j+1]); i = j + 1; continue
        if c == "'" and i + 2 < n:
            # char literal 'x' or '\n' or '\u{..}' ; lifetimes ('a, '_) have no closing quote right after
            m = re.match(r"'(\\u\{[0-9a-fA-F]+\}|\\.|[^'\\])'", s[i:])
            if m:
                cur.append(m.group(0)); i += len(m.group(0)); continue
        if c in '([{<':
            depth += 1
        elif c in ')]}':
            depth -= 1
        elif c == '>':
            if not (i > 0 and s[i-1] in '-='):
                depth -= 1
        if depth == 0 and s.startswith(sep, i):
            out.append(''.join(cur)); cur = []; i += len(sep); continue
        cur.append(c); i += 1
    out.append(''.join(cur))
    return out

def load(path):
    fns = {}
    cur = None; bb = None
    with open(path) as f:
        lines = f.read().split('\n')
    i = 0; n = len(lines)
    while i < n:
        l = lines[i]
        if (l.startswith('fn ') or l.startswith('const ') or l.startswith('static ')) and l.rstrip().endswith('{'):
            if l.startswith('fn '):
                hdr = l[3:]
                # name ends at the '(' that opens the parameter list: first '(' at angle depth 0 outside '<impl at ..>' / '{closure..}'
                d = 0; k = 0
                while k < len(hdr):
                    c = hdr[k]
                    if c in '<{[': d += 1
                    elif c in '}]': d -= 1
                    elif c == '>' and not (k > 0 and hdr[k-1] in '-='): d -= 1
                    elif c == '(' and d == 0: break
                    k += 1
                name = hdr[:k]
                fn = Fn(name, l)
                # params
                d = 0; j = k
                while j < len(hdr):
                    if hdr[j] == '(': d += 1
                    elif hdr[j] == ')':
                        d -= 1
                        if d == 0: break
                    j += 1
                ps = hdr[k+1:j]
                for p in split_top(ps):
                    if not p: continue
                    m = re.match(r'^(_\d+): (.*)$', p)
                    fn.params.append((m.group(1), m.group(2))); fn.locals[m.group(1)] = m.group(2)
                fn.nargs = len(fn.params)
                m = re.match(r'^ -> (.*) \{$', hdr[j+1:])
                fn.ret = m.group(1) if m else '()'
            else:
                body = re.sub(r'^(?:const|static(?: mut)?) ', '', l)
                body = body[:-len(' = {')] if body.endswith(' = {') else body
                d = 0; k = 0
                while k < len(body):
                    c = body[k]
                    if c in '<{[(': d += 1
                    elif c in '}])': d -= 1
                    elif c == '>' and not (k > 0 and body[k-1] in '-='): d -= 1
                    elif c == ':' and d == 0 and body[k:k+2] == ': ' and not body[k-1] == ':' : break
                    k += 1
                name = body[:k]; fn = Fn(name, l); fn.is_const = True; fn.ret = body[k+2:]
            fn.locals['_0'] = fn.ret
            i += 1
            while i < n and lines[i] != '}':
                s = lines[i].strip()
                fn.text.append(s)
                if s.startswith('//') or not s:
                    i += 1; continue
                m = re.match(r'^let (?:mut )?(_\d+): (.*);$', s)
                if m:
                    fn.locals[m.group(1)] = m.group(2)
                else:
                    m = re.match(r'^(bb\d+)( \(cleanup\))?: \{$', s)
                    if m:
                        bb = m.group(1); fn.blocks[bb] = []
                        if m.group(2): fn.cleanup.add(bb)
                    elif bb is not None:
                        if s == '}': bb = None
                        else:
                            # strip trailing comments
                            fn.blocks[bb].append(s)
                i += 1
            if fn.blocks:
                fns.setdefault(name, fn)
        i += 1
    return fns

# ------------------------------------------------------------------ places

@functools.lru_cache(maxsize=None)
def parse_place(p):
    """-> ('local', name) | ('deref', P) | ('field', P, idx, ty) | ('downcast', P, variant) | ('index', P, local)
          | ('cindex', P, off, minlen, from_end) | ('subslice', P, a, b, from_end)"""
    p = p.strip()
    # postfix index forms bind tighter than anything else
    if p.endswith(']'):
        d = 0
        for j in range(len(p) - 1, -1, -1):
            if p[j] == ']': d += 1
            elif p[j] == '[':
                d -= 1
                if d == 0: break
        base = p[:j]; inner = p[j+1:-1]
        m = re.match(r'^(-?)(\d+) of (\d+)$', inner)
        if m: return ('cindex', parse_place(base), int(m.group(2)), int(m.group(3)), m.group(1) == '-')
        m = re.match(r'^(\d+):(-?)(\d+)$', inner) or re.match(r'^(\d+)\.\.(-?)(\d+)$', inner)
        if m: return ('subslice', parse_place(base), int(m.group(1)), int(m.group(3)), m.group(2) == '-')
        return ('index', parse_place(base), inner.strip())
    if re.match(r'^_\d+$', p): return ('local', p)
    if not (p[0] == '(' and p[-1] == ')'):
        raise ValueError('place? ' + p)
    inner = p[1:-1]
    if inner.startswith('*'): return ('deref', parse_place(inner[1:]))
    # base: balanced group (possibly followed by [..]) or local
    if inner[0] == '(':
        d = 0
        for j, c in enumerate(inner):
            if c == '(': d += 1
            elif c == ')':
                d -= 1
                if d == 0: break
        k = j + 1
    else:
        m = re.match(r'^_\d+', inner); k = m.end()
    # absorb index suffixes into base
    while k < len(inner) and inner[k] == '[':
        d = 0
        for j in range(k, len(inner)):
            if inner[j] == '[': d += 1
            elif inner[j] == ']':
                d -= 1
                if d == 0: break
        k = j + 1
    base = inner[:k]; rest = inner[k:]
    m = re.match(r'^ as (\w+)$', rest)
    if m: return ('downcast', parse_place(base), m.group(1))
    m = re.match(r'^\.(\d+): (.*)$', rest, re.S)
    if m: return ('field', parse_place(base), int(m.group(1)), m.group(2))
    m = re.match(r'^ as variant#(\d+)$', rest)
    if m: return ('downcast', parse_place(base), int(m.group(1)))
    raise ValueError('place? ' + p)

def place_type(fn, pl):
    """best-effort static type of a place (string) or None"""
    k = pl[0]
    if k == 'local': return fn.locals.get(pl[1])
    if k == 'field': return pl[3]
    if k == 'deref':
        t = place_type(fn, pl[1])
        if t is None: return None
        m = re.match(r"^&(?:'\w+ )?(?:mut )?(.*)$", t)
        if m: return m.group(1)
        m = re.match(r'^(?:Box|Rc|Arc|std::boxed::Box|std::rc::Rc)<(.*)>$', t)
        if m: return m.group(1)
        m = re.match(r'^\*(?:const|mut) (.*)$', t)
        if m: return m.group(1)
        return None
    if k in ('index', 'cindex'):
        t = place_type(fn, pl[1])
        if t:
            m = re.match(r'^\[(.*?)(; .*)?\]$', t)
            if m: return m.group(1)
        return None
    if k == 'downcast': return place_type(fn, pl[1])
    return None

# ------------------------------------------------------------------ statements

BINOPS = {'Add', 'Sub', 'Mul', 'Div', 'Rem', 'BitXor', 'BitAnd', 'BitOr', 'Shl', 'Shr', 'Eq', 'Lt', 'Le', 'Ne', 'Ge', 'Gt', 'Cmp',
          'Offset', 'AddWithOverflow', 'SubWithOverflow', 'MulWithOverflow', 'AddUnchecked', 'SubUnchecked', 'MulUnchecked',
          'ShlUnchecked', 'ShrUnchecked'}
UNOPS = {'Not', 'Neg', 'PtrMetadata'}

def _split_call(expr):
    """'callee(args)' -> (callee, [args])"""
    d = 0
    for j in range(len(expr) - 1, -1, -1):
        c = expr[j]
        if c == ')': d += 1
        elif c == '(':
            d -= 1
            if d == 0: break
    return expr[:j], [a for a in split_top(expr[j+1:-1]) if a != '']

@functools.lru_cache(maxsize=None)
def parse_stmt(s):
    """-> tuple describing the statement/terminator"""
    if s.endswith(';'): s = s[:-1]
    for pre in ('StorageLive(', 'StorageDead(', 'FakeRead(', 'PlaceMention(', 'Retag(', 'AscribeUserType(', 'Coverage', 'nop', 'ConstEvalCounter', 'Deinit(', 'BackwardIncompatibleDropHint('):
        if s.startswith(pre): return ('nop',)
    if s == 'return': return ('return',)
    if s == 'unreachable': return ('unreachable',)
    if s in ('resume', 'abort', 'terminate', 'unwind resume') or s.startswith('terminate('): return ('resume',)
    m = re.match(r'^goto -> (bb\d+)$', s)
    if m: return ('goto', m.group(1))
    m = re.match(r'^falseEdge -> \[real: (bb\d+), .*\]$', s) or re.match(r'^falseUnwind -> \[real: (bb\d+), .*\]$', s)
    if m: return ('goto', m.group(1))
    m = re.match(r'^drop\((.*)\) -> \[return: (bb\d+), .*\]$', s)
    if m: return ('drop', m.group(1), m.group(2))
    m = re.match(r'^switchInt\((.*)\) -> \[(.*)\]$', s)
    if m:
        arms = []
        for a in m.group(2).split(', '):
            k, t = a.split(': ')
            arms.append((None if k == 'otherwise' else int(k), t))
        return ('switch', m.group(1), tuple(arms))
    m = re.match(r'^assert\((!?)(.*?), (".*")(?:, (.*))?\) -> \[success: (bb\d+), .*\]$', s, re.S)
    if m: return ('assert', m.group(1) == '!', m.group(2), m.group(3), m.group(5))
    m = re.match(r'^(.*?) = (.*) -> \[return: (bb\d+), .*\]$', s, re.S)
    if m:
        callee, args = _split_call(m.group(2))
        return ('call', m.group(1), callee, tuple(args), m.group(3))
    m = re.match(r'^(.*?) = (.*) -> (unwind .*|bb\d+)$', s, re.S)
    if m:
        callee, args = _split_call(m.group(2))
        return ('call', m.group(1), callee, tuple(args), None)
    m = re.match(r'^(\S.*?) = (.*)$', s, re.S)
    if m: return ('assign', m.group(1), parse_rvalue(m.group(2)))
    m = re.match(r'^discriminant\((.*)\) = (\d+)$', s)
    if m: return ('setdisc', m.group(1), int(m.group(2)))
    raise ValueError('stmt? ' + s)

def _is_operand(r):
    return r.startswith('copy ') or r.startswith('move ') or r.startswith('const ') or r.startswith('no_retag ')

@functools.lru_cache(maxsize=None)
def parse_rvalue(r):
    r = r.strip()
    m = re.match(r'^(.*) as (.*?) \((\w+(?:\(.*\))?)\)$', r, re.S)
    if m and _is_operand(m.group(1)): return ('cast', m.group(1), m.group(2), m.group(3))
    if _is_operand(r): return ('use', r)
    m = re.match(r'^&(raw const |raw mut |mut |fake shallow |fake |two-phase )?(.*)$', r, re.S)
    if m and not r.startswith('&&'): return ('ref', (m.group(1) or '').strip(), m.group(2))
    m = re.match(r'^(\w+)\((.*)\)$', r, re.S)
    if m:
        op = m.group(1)
        if op in BINOPS:
            a, b = split_top(m.group(2)); return ('binop', op, a, b)
        if op in UNOPS: return ('unop', op, m.group(2))
        if op == 'discriminant': return ('discriminant', m.group(2))
        if op == 'Len': return ('len', m.group(2))
        if op == 'CopyForDeref': return ('use', 'copy ' + m.group(2))
        if op in ('ShallowInitBox',): return ('use', split_top(m.group(2))[0])
    if r.startswith('(') and r.endswith(')') :
        # tuple aggregate (or unit)
        inner = r[1:-1]
        if inner == '': return ('tuple', ())
        one = inner.endswith(',')
        if one: inner = inner[:-1]
        parts = split_top(inner)
        if all(_is_operand(p) for p in parts) and (len(parts) > 1 or one):
            return ('tuple', tuple(parts))
    if r.startswith('[') and r.endswith(']'):
        inner = r[1:-1]
        parts = split_top(inner, '; ')
        if len(parts) == 2 and _is_operand(parts[0]): return ('repeat', parts[0], parts[1])
        return ('array', tuple(p for p in split_top(inner) if p))
    if r.startswith('{closure@') or r.startswith('{coroutine@'):
        m = re.match(r'^(\{(?:closure|coroutine)@[^}]*\})(?: \{ (.*) \})?$', r, re.S)
        fields = []
        if m.group(2):
            for f in split_top(m.group(2)):
                fields.append(f.split(': ', 1)[1])
        return ('closure', m.group(1), tuple(fields))
    # ADT aggregates
    m = re.match(r'^(.*?) \{ (.*) \}$', r, re.S)
    if m and not _is_operand(r):
        fields = []
        for f in split_top(m.group(2)):
            fields.append(f.split(': ', 1)[1])
        return ('adt', m.group(1), tuple(fields), 'struct')
    if r.endswith(')'):
        callee, args = _split_call(r)
        return ('adt', callee, tuple(args), 'tuple')
    if re.match(r'^[\w:<>, &\'\[\];()*#=+-]+$', r):
        return ('adt', r, (), 'unit')
    raise ValueError('rvalue? ' + r)

def strip_generics(s):
    """remove every ::<...> and <...> generic argument list (balanced), keep `<T as Trait>` qualifiers intact at the head"""
    out = []; i = 0; n = len(s)
    while i < n:
        if s.startswith('::<', i):
            d = 0; j = i + 2
            while j < n:
                if s[j] == '<': d += 1
                elif s[j] == '>' and s[j-1] not in '-=':
                    d -= 1
                    if d == 0: break
                j += 1
            i = j + 1; continue
        out.append(s[i]); i += 1
    return ''.join(out)

def erase_angle(s):
    """erase all <...> groups (balanced) in a type string, e.g. Vec<Foo<Bar>> -> Vec"""
    out = []; d = 0
    for i, c in enumerate(s):
        if c == '<': d += 1; continue
        if c == '>' and (i == 0 or s[i-1] not in '-='):
            d -= 1; continue
        if d == 0: out.append(c)
    return ''.join(out)
