"""Common driver code for the per-property specs: program loading, solver queries, native replay, evidence."""
import os, sys, json, time, subprocess, hashlib, re, atexit
import z3
from . import mirdump, mir, rustdecl, engine, models

VERIF = os.path.dirname(os.path.dirname(os.path.abspath(__file__)))
REPO = os.environ.get('WAC_REPO', '/repo')
CACHE = os.environ.get('VERIF_CACHE', os.path.join(VERIF, '.cache'))

class Inconclusive(Exception): pass

def known_findings():
    p = os.path.join(VERIF, 'known_findings.json')
    if not os.path.exists(p): return []
    return json.load(open(p))['findings']

class Replay:
    """line-oriented client of the native replay binary (built from /repo's working tree with --cfg wac_verif)"""
    _built = False
    def __init__(s):
        s.bin = build_replay()
        s.p = None; s.n = 0
    def _start(s):
        s.p = subprocess.Popen([s.bin], stdin=subprocess.PIPE, stdout=subprocess.PIPE, stderr=subprocess.DEVNULL, text=True, bufsize=1)
    def ask(s, obj):
        if s.p is None or s.p.poll() is not None: s._start()
        s.p.stdin.write(json.dumps(obj) + '\n'); s.p.stdin.flush()
        line = s.p.stdout.readline()
        if not line:
            s.p = None
            return {'crash': True}
        s.n += 1
        return json.loads(line)
    def close(s):
        if s.p is not None:
            try: s.p.stdin.close(); s.p.wait(timeout=5)
            except Exception: s.p.kill()
            s.p = None

def build_replay(profile='dev'):
    d = os.path.join(VERIF, 'replay')
    lock = os.path.join(d, 'Cargo.lock')
    if not os.path.exists(lock):
        import shutil; shutil.copy(os.path.join(REPO, 'Cargo.lock'), lock)
    env = dict(os.environ); env['RUSTFLAGS'] = '--cfg wac_verif'; env['CARGO_NET_OFFLINE'] = 'true'
    env['CARGO_TARGET_DIR'] = os.path.join(CACHE, 'replay-target')
    cmd = ['cargo', 'build', '--offline', '-q']
    if profile == 'release': cmd.append('--release')
    t = time.time()
    r = subprocess.run(cmd, cwd=d, env=env, stdout=subprocess.PIPE, stderr=subprocess.PIPE)
    if r.returncode != 0:
        sys.stderr.write(r.stderr.decode(errors='replace')[-3000:])
        raise Inconclusive('native replay crate failed to build against /repo')
    return os.path.join(CACHE, 'replay-target', 'debug' if profile == 'dev' else 'release', 'wac-verif-replay')

_FS = {}
def fs_replay(features):
    """client of the C18 replay binary built with the given wac-resolver feature (none | wat | wit)"""
    key = features or 'none'
    if key in _FS and _FS[key].p is not None and _FS[key].p.poll() is None: return _FS[key]
    d = os.path.join(VERIF, 'fsreplay'); lock = os.path.join(d, 'Cargo.lock')
    if not os.path.exists(lock):
        import shutil; shutil.copy(os.path.join(VERIF, 'replay', 'Cargo.lock'), lock)
    env = dict(os.environ); env['CARGO_NET_OFFLINE'] = 'true'; env.pop('RUSTFLAGS', None)
    env['CARGO_TARGET_DIR'] = os.path.join(CACHE, f'fsreplay-target-{key}')
    cmd = ['cargo', 'build', '--offline', '-q'] + (['--features', features] if features else [])
    r = subprocess.run(cmd, cwd=d, env=env, stdout=subprocess.PIPE, stderr=subprocess.PIPE)
    if r.returncode != 0:
        sys.stderr.write(r.stderr.decode(errors='replace')[-3000:]); raise Inconclusive('fsreplay crate failed to build against /repo')
    c = Replay.__new__(Replay); c.bin = os.path.join(env['CARGO_TARGET_DIR'], 'debug', 'wac-verif-fsreplay'); c.p = None; c.n = 0
    _FS[key] = c; return c

class Check:
    def __init__(s, pid, argv=None):
        s.pid = pid
        argv = sys.argv[1:] if argv is None else argv
        s.tier = os.environ.get('VERIF_TIER', 'quick')
        for i, a in enumerate(argv):
            if a == '--tier': s.tier = argv[i + 1]
            if a.startswith('--tier='): s.tier = a.split('=', 1)[1]
        s.replay_file = None
        for i, a in enumerate(argv):
            if a == '--replay': s.replay_file = argv[i + 1]
        s.seed = int(os.environ.get('VERIF_SEED', '0') or 0)
        s.t0 = time.time()
        s.functions = {}; s.queries = []; s.samples = []; s.states = 0; s.transitions = 0; s.replayed = 0
        s.violations = []; s.known_hits = []; s.notes = []; s.bounds = {}; s.assumptions = []; s.models_used = set(); s.opaque = set()
        s.dumps = []; s.solver_s = 0.0; s.engines = []
        s.known = [f for f in known_findings() if f.get('property') == pid]
        s._replay = None; s.obligations = 0; s.discharged = 0; s.inconclusive = []
        z3.set_param('smt.random_seed', s.seed); z3.set_param('sat.random_seed', s.seed)
    @property
    def quick(s): return s.tier != 'thorough'
    def pick(s, q, t): return q if s.quick else t

    # ---- programs
    def load(s, crate, features=''):
        path, meta = mirdump.dump(crate, features)
        s.dumps.append(meta)
        return mir.load(path)
    def decls(s, prefer=None):
        c = s.__dict__.setdefault('_decls', {})
        if prefer not in c: c[prefer] = rustdecl.load_repo(REPO, prefer)
        return c[prefer]
    def engine(s, fns, decls, **kw):
        kw.setdefault('seed', s.seed)
        kw.setdefault('models', models.MODELS)
        e = engine.Engine(fns, decls, **kw); s.engines.append(e); return e
    def account(s, eng, roots=()):
        s.states += len(eng.out); s.transitions += eng.steps; s.solver_s += eng.t_solver
        for n in list(eng.inlined) + list(roots):
            if n in eng.fns: s.functions[n] = eng.fns[n].sha()
        s.models_used |= set(eng.modelled); s.opaque |= set(eng.opaque_calls)

    # ---- queries
    def solve(s, name, constraints, timeout_s=None, want_model=True, cross=False):
        """-> ('sat', model) | ('unsat', None); raises Inconclusive on unknown"""
        sol = z3.Solver(); sol.set('random_seed', s.seed)
        if timeout_s is None: timeout_s = s.pick(120, 900)
        sol.set('timeout', int(timeout_s * 1000))
        for c in constraints: sol.add(c)
        t = time.time(); r = sol.check(); dt = time.time() - t
        s.solver_s += dt
        q = {'name': name, 'result': str(r), 's': round(dt, 3)}
        s.queries.append(q)
        if r == z3.unknown:
            raise Inconclusive(f'solver returned unknown on query {name}: {sol.reason_unknown()}')
        if cross and s.cross_enabled() and dt < 20:
            other = s.cross_check(sol)
            q['cross'] = other
            for who, res in other.items():
                if res in ('sat', 'unsat') and res != str(r):
                    raise Inconclusive(f'solvers disagree on query {name}: z3 {z3.get_version_string()} says {r}, {who} says {res}')
        return (str(r), sol.model() if r == z3.sat else None)
    def obligation(s, name, constraints, base=None, **kw):
        """an obligation is discharged when `constraints` (assumptions + negated property) are unsat.
        `base` (the assumptions alone) must be satisfiable, otherwise the obligation would hold vacuously."""
        s.obligations += 1
        r, m = s.solve(name, constraints, cross=True, **kw)
        if r == 'unsat':
            if base is not None:
                rb, _ = s.solve(name + ' [assumptions satisfiable]', base)
                if rb != 'sat': raise Inconclusive(f'vacuous obligation (assumptions are unsatisfiable): {name}')
            s.discharged += 1
        return r, m

    # ---- second opinion: the same query (SMT-LIB2 text produced by z3's printer) decided by z3 5.x and cvc5
    def cross_enabled(s):
        v = os.environ.get('VERIF_CROSS')
        if v == '0': return False
        if v != '1' and s.quick: return False
        s.__dict__.setdefault('_crossed', 0)
        return s._crossed < int(os.environ.get('VERIF_CROSS_MAX', '25'))
    def cross_check(s, sol):
        import tempfile
        s._crossed += 1
        txt = '(set-logic ALL)\n' + sol.to_smt2()
        out = {}
        with tempfile.NamedTemporaryFile('w', suffix='.smt2', delete=False) as f: f.write(txt); path = f.name
        try:
            for who, cmd in (('z3-new', ['z3-new', '-T:60', path]), ('cvc5', ['cvc5', '--lang', 'smt2', '--tlimit=60000', path])):
                try:
                    r = subprocess.run(cmd, stdout=subprocess.PIPE, stderr=subprocess.STDOUT, text=True, timeout=90)
                    lines = [l.strip() for l in r.stdout.splitlines() if l.strip()]
                    res = next((l for l in reversed(lines) if l in ('sat', 'unsat', 'unknown', 'timeout')), 'error')
                    if any(l.startswith('(error') for l in lines):
                        res = 'error'; s.notes.append(f'cross-check {who}: ' + next(l for l in lines if l.startswith('(error'))[:200]) if len([n for n in s.notes if n.startswith('cross-check')]) < 3 else None
                except Exception as e:
                    res = 'unavailable'
                out[who] = res
        finally:
            os.unlink(path)
        return out

    # ---- native replay
    def replay(s):
        if s._replay is None: s._replay = Replay()
        return s._replay
    def native(s, obj):
        s.replayed += 1
        if obj.get('op') == 'fs_resolve': return fs_replay(obj.get('features') or '').ask(obj)
        return s.replay().ask(obj)

    def native_fresh(s, obj, n):
        """the same case in n fresh processes of the replay binary (fresh per-process hash seeds) -> list of answers"""
        b = build_replay(); outs = []
        for _ in range(n):
            r = subprocess.run([b], input=json.dumps(obj) + '\n', stdout=subprocess.PIPE, stderr=subprocess.DEVNULL, text=True)
            s.replayed += 1
            try: outs.append(json.loads(r.stdout.strip().split('\n')[-1]))
            except Exception: outs.append({'crash': True})
        return outs

    # ---- results
    def part(s, name, f, *a, **kw):
        """run one part of a check; an inconclusive part does not hide violations found by other parts"""
        s.phase(name)
        try:
            return f(*a, **kw)
        except (Inconclusive, engine.Unmodelled, engine.EngineError) as e:
            kind = 'unmodelled call' if isinstance(e, engine.Unmodelled) else ('encoding error' if isinstance(e, engine.EngineError) else 'inconclusive')
            msg = f'{name}: {kind}: {e}'
            s.inconclusive.append(msg); s.notes.append('INCONCLUSIVE: ' + msg)
            print(f'INCONCLUSIVE property={s.pid} part={name}: {kind}: {str(e)[:600]}', flush=True)
            return None
    def parallel(s, parts, workers=None):
        """run independent parts in forked worker processes (z3 is single-threaded; the sandbox has 16 cores) and merge what they
        covered. parts: [(name, fn, args)] - fn is called as fn(child_check, *args)."""
        import multiprocessing as mp, tempfile
        workers = workers or int(os.environ.get('VERIF_WORKERS', '12'))
        ctx = mp.get_context('fork'); tmp = tempfile.mkdtemp(prefix='verif-parts-')
        if s._replay: s._replay.close(); s._replay = None
        def child(i, name, fn, args):
            c = Check(s.pid, []); c.tier = s.tier; c.seed = s.seed; c.known = s.known; c.t0 = s.t0
            c.part(name, fn, c, *args)
            if c._replay: c._replay.close()
            out = {k: getattr(c, k) for k in ('functions', 'queries', 'samples', 'states', 'transitions', 'replayed', 'violations', 'known_hits', 'notes',
                                               'bounds', 'assumptions', 'dumps', 'solver_s', 'obligations', 'discharged', 'inconclusive')}
            out['models_used'] = sorted(c.models_used); out['opaque'] = sorted(c.opaque)
            json.dump(out, open(os.path.join(tmp, f'{i}.json'), 'w'), default=str)
            sys.stdout.flush(); os._exit(0)
        pending = list(enumerate(parts)); running = {}
        build_replay()      # once, before forking
        while pending or running:
            while pending and len(running) < workers:
                i, (name, fn, args) = pending.pop(0)
                p_ = ctx.Process(target=child, args=(i, name, fn, args)); p_.start(); running[i] = (p_, name)
            for i in list(running):
                p_, name = running[i]
                p_.join(timeout=0.2)
                if p_.is_alive(): continue
                del running[i]
                f = os.path.join(tmp, f'{i}.json')
                if not os.path.exists(f):
                    s.inconclusive.append(f'{name}: worker died (exit code {p_.exitcode})'); print(f'INCONCLUSIVE property={s.pid} part={name}: worker died (exit code {p_.exitcode})', flush=True); continue
                o = json.load(open(f))
                s.functions.update(o['functions']); s.queries += o['queries']; s.states += o['states']; s.transitions += o['transitions']; s.replayed += o['replayed']
                s.violations += o['violations']; s.notes += o['notes']; s.bounds.update(o['bounds']); s.dumps += o['dumps']; s.solver_s += o['solver_s']
                s.obligations += o['obligations']; s.discharged += o['discharged']; s.inconclusive += o['inconclusive']
                for x in o['known_hits']:
                    if x not in s.known_hits: s.known_hits.append(x)
                for x in o['samples']: s.sample(x)
                for x in o['assumptions']:
                    if x not in s.assumptions: s.assumptions.append(x)
                s.models_used |= set(o['models_used']); s.opaque |= set(o['opaque'])
        import shutil; shutil.rmtree(tmp, ignore_errors=True)
    def phase(s, name):
        now = time.time(); s.notes.append(f'phase {name} starts at +{round(now - s.t0, 1)}s'); sys.stderr.write(f'[{s.pid}] +{round(now - s.t0, 1)}s {name}\n')
    def sample(s, x):
        if len(s.samples) < 12: s.samples.append(x)
    def finding(s, role, what, case):
        """a reproduced violation. role identifies the class of failing input (used to match known findings)."""
        for k in s.known:
            if k.get('status', 'known') == 'known' and k['role'] == role:
                line = f'KNOWN-FINDING: property={s.pid} {k["what"]}'
                if line not in s.known_hits:
                    s.known_hits.append(line); print(line, flush=True)
                return 'known'
        os.makedirs(os.path.join(VERIF, 'out'), exist_ok=True)
        path = os.path.join(VERIF, 'out', f'{s.pid}-{role}-{os.getpid()}-{len(s.violations)}.json')
        json.dump({'property': s.pid, 'role': role, 'what': what, 'case': case}, open(path, 'w'), indent=1)
        s.violations.append({'role': role, 'what': what, 'replay': path})
        print(f'VIOLATION property={s.pid} replay={path}', flush=True)
        print(f'  {role}: {what}', flush=True)
        return 'violation'
    def finish(s, level='model_checking', extra=None):
        if s._replay: s._replay.close()
        cov = {
            'states': max(s.states, 1), 'transitions': max(s.transitions, 1), 'traces_validated_against_impl': s.replayed,
            'samples': s.samples or ['(none)'],
            'obligations': s.obligations, 'discharged': s.discharged,
            'functions_encoded': s.functions, 'bounds': s.bounds, 'queries': s.queries[:400], 'n_queries': len(s.queries),
            'solver_s': round(s.solver_s, 2), 'solver': f'z3 {z3.get_version_string()}',
            'cross_checked': {'queries': len([q for q in s.queries if q.get('cross')]), 'z3-new_agrees': len([q for q in s.queries if q.get('cross', {}).get('z3-new') == q['result']]),
                              'cvc5_agrees': len([q for q in s.queries if q.get('cross', {}).get('cvc5') == q['result']]), 'note': 'obligation queries re-decided from z3\'s SMT-LIB2 text by z3 5.x and cvc5 (thorough tier or VERIF_CROSS=1; at most VERIF_CROSS_MAX per process); a sat/unsat disagreement makes the check inconclusive'},
            'models_used': sorted(s.models_used), 'opaque_calls': sorted(s.opaque), 'mir_dumps': s.dumps, 'notes': s.notes,
            'known_findings_matched': s.known_hits,
            'explanation': 'states = symbolic paths explored by M2S over the MIR of the listed functions; transitions = MIR statements '
                           'executed symbolically; every obligation is a solver query "assumptions and not property" that must be unsat.',
        }
        if extra: cov.update(extra)
        ev = {'property_id': s.pid, 'tier': 'thorough' if not s.quick else 'quick', 'seed': s.seed, 'level': level, 'coverage': cov,
              'assumptions': s.assumptions, 'wall_s': round(time.time() - s.t0, 2), 'violations': len(s.violations)}
        os.makedirs(os.path.join(VERIF, 'evidence'), exist_ok=True)
        with open(os.path.join(VERIF, 'evidence', f'{s.pid}.json'), 'w') as f:
            json.dump(ev, f, indent=1, default=str)
        print(f'[{s.pid}] tier={ev["tier"]} paths={s.states} mir_stmts={s.transitions} obligations={s.discharged}/{s.obligations} '
              f'replayed={s.replayed} known={len(s.known_hits)} violations={len(s.violations)} wall={ev["wall_s"]}s', flush=True)
        return 1 if s.violations else (2 if s.inconclusive else 0)

def replay_file(chk):
    """`./check <ID> --replay <file>`: re-run the recorded concrete case of a reported violation against the current /repo build and print what the real code does now"""
    rec = json.load(open(chk.replay_file)); case = rec.get('case') or {}
    print(f'REPLAY property={rec.get("property")} role={rec.get("role")}\n  recorded: {rec.get("what", "")[:600]}')
    if isinstance(case, dict) and case.get('op'):
        if case.get('fresh_processes') or rec.get('role', '').endswith('-order'):
            outs = chk.native_fresh({k: v for k, v in case.items() if k != 'fresh_processes'}, int(case.get('fresh_processes', 8)))
            print(f'  now ({len(outs)} fresh processes): {len({json.dumps(o, sort_keys=True) for o in outs})} distinct answers; first: {json.dumps(outs[0])[:600]}')
        else:
            print(f'  now: {json.dumps(chk.native(case))[:1200]}')
    else:
        print('  rule-level counterexample (no concrete case recorded); run the check itself to re-decide it')
    if chk._replay: chk._replay.close()
    return 0

def run_check(pid, body):
    chk = Check(pid)
    if chk.replay_file: sys.exit(replay_file(chk))
    try:
        body(chk)
        rc = chk.finish()
    except Inconclusive as e:
        print(f'INCONCLUSIVE property={pid}: {e}', flush=True)
        chk.notes.append('INCONCLUSIVE: ' + str(e)); rc = chk.finish() or 2
    except (engine.Unmodelled,) as e:
        print(f'INCONCLUSIVE property={pid}: unmodelled call {e}', flush=True)
        chk.notes.append('INCONCLUSIVE: unmodelled call ' + str(e)); rc = chk.finish() or 2
    except engine.EngineError as e:
        print(f'INCONCLUSIVE property={pid}: encoding error: {e}', flush=True)
        chk.notes.append('INCONCLUSIVE: encoding error ' + str(e)); rc = chk.finish() or 2
    sys.exit(rc)

# ---- small utilities shared by specs
def ev_bytes(m, sv):
    """concrete bytes of a string view under model m"""
    L = m.eval(sv.len, model_completion=True).as_long(); off = m.eval(sv.off, model_completion=True).as_long()
    return bytes(m.eval(sv.buf[off + i], model_completion=True).as_long() for i in range(L) if off + i < len(sv.buf))
def ev_int(m, t): return m.eval(t, model_completion=True).as_long()
def ev_bool(m, t): return z3.is_true(m.eval(t, model_completion=True))
def which_outcome(m, outs):
    hit = [o for o in outs if z3.is_true(m.eval(o.cond(), model_completion=True))]
    return hit
def start(eng, fname, args):
    st = engine.State(); fn = eng.fns[fname]; fr = engine.Frame(fn)
    assert len(args) == fn.nargs, (fname, len(args), fn.nargs)
    for (loc, ty), a in zip(fn.params, args): fr.env[loc] = st.alloc(a)
    st.frames = [fr]; return st
def run_fn(eng, fname, args, st=None):
    n0 = len(eng.out)
    st = st or start(eng, fname, args)
    eng.run(st)
    return eng.out[n0:]
