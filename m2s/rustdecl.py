"""Light-weight reader of Rust `enum`/`struct` declarations and `impl` headers from source files.

Used for (a) variant name <-> discriminant index, field name <-> field index (MIR uses declaration order),
(b) the type graph of the AST (C17), (c) mapping `<impl at file:line:col>` in MIR function names to the impl's
self type and trait. Regenerated from /repo's working tree on every run.
"""
import re, os, glob, functools

def strip_comments(src):
    out = []; i = 0; n = len(src)
    while i < n:
        c = src[i]
        if src.startswith('//', i):
            j = src.find('\n', i)
            if j < 0: j = n
            out.append(' ' * (j - i)); i = j; continue
        if src.startswith('/*', i):
            d = 1; j = i + 2
            while j < n and d:
                if src.startswith('/*', j): d += 1; j += 2
                elif src.startswith('*/', j): d -= 1; j += 2
                else: j += 1
            out.append(re.sub(r'[^\n]', ' ', src[i:j])); i = j; continue
        if c == '"':
            j = i + 1
            while j < n and src[j] != '"':
                j += 2 if src[j] == '\\' else 1
            out.append('"' + re.sub(r'[^\n]', ' ', src[i+1:j]) + '"'); i = j + 1; continue
        if c == 'r' and re.match(r'r#*"', src[i:]) and (i == 0 or not (src[i-1].isalnum() or src[i-1] == '_')):
            m = re.match(r'r(#*)"', src[i:]); close = '"' + m.group(1)
            j = src.find(close, i + len(m.group(0)))
            out.append(re.sub(r'[^\n]', ' ', src[i:j+len(close)])); i = j + len(close); continue
        if c == "'":
            m = re.match(r"'(\\u\{[0-9a-fA-F]+\}|\\.|[^'\\])'", src[i:])
            if m:
                out.append("' '" + ' ' * (len(m.group(0)) - 3)); i += len(m.group(0)); continue
        out.append(c); i += 1
    return ''.join(out)

def _split_top(s, sep=','):
    out = []; d = 0; cur = []
    for i, c in enumerate(s):
        if c in '([{<': d += 1
        elif c in ')]}': d -= 1
        elif c == '>' and (i == 0 or s[i-1] not in '-='): d -= 1
        if c == sep and d == 0:
            out.append(''.join(cur)); cur = []
        else: cur.append(c)
    out.append(''.join(cur))
    return [x.strip() for x in out if x.strip()]

def _strip_attrs(s):
    # remove #[...] attributes (balanced brackets)
    out = []; i = 0; n = len(s)
    while i < n:
        if s.startswith('#[', i) or s.startswith('#![', i):
            j = s.index('[', i); d = 0
            while j < n:
                if s[j] == '[': d += 1
                elif s[j] == ']':
                    d -= 1
                    if d == 0: break
                j += 1
            i = j + 1; continue
        out.append(s[i]); i += 1
    return ''.join(out)

def _body(src, start):
    """src[start] == '{' -> (body text, end index)"""
    d = 0
    for j in range(start, len(src)):
        if src[j] == '{': d += 1
        elif src[j] == '}':
            d -= 1
            if d == 0: return src[start+1:j], j
    raise ValueError('unbalanced')

class Decls:
    def __init__(s):
        s.enums = {}     # name -> [(variant, kind, fields)]  kind in unit|tuple|struct ; fields = [(fname or None, type)]
        s.structs = {}   # name -> (kind, [(fname or None, type)])
        s.impls = {}     # (relpath, line) -> (self_type, trait or None)
        s.where = {}     # name -> file
        s.enums_all = {} # name -> [(file, variants)]
    def find_enum(s, segs, variant):
        """resolve `...::mod::Enum::Variant` path segments to (enum key, variants); enum key is 'Enum' or 'Enum@file' for homonyms"""
        en = segs[-1]
        cands = [(f, vs) for f, vs in s.enums_all.get(en, []) if any(v[0] == variant for v in vs)]
        if not cands:
            if en in s.enums and any(v[0] == variant for v in s.enums[en]): return en, s.enums[en]
            return None, None
        if len(cands) > 1 and len(segs) >= 2:
            mod = segs[-2].replace('r#', '')
            c2 = [c for c in cands if os.path.basename(c[0])[:-3] == mod or ('/' + mod + '/') in c[0]]
            if c2: cands = c2
        f, vs = cands[0]
        key = en if s.enums.get(en) is vs else f'{en}@{os.path.basename(f)}'
        if key not in s.enums: s.enums[key] = vs
        return key, vs
    def enum_index(s, enum, variant):
        for i, (v, k, f) in enumerate(s.enums[enum]):
            if v == variant: return i
        raise KeyError((enum, variant))
    def variant_name(s, enum, idx):
        return s.enums[enum][idx][0]

def parse_file(path, decls, rel=None):
    raw = open(path).read()
    src = strip_comments(raw)
    for m in re.finditer(r'\b(?:pub(?:\([^)]*\))? )?enum (\w+)\s*(<[^{]*?>)?\s*(?:where[^{]*)?\{', src):
        name = m.group(1); body, _ = _body(src, m.end() - 1)
        body = _strip_attrs(body); vs = []
        for item in _split_top(body):
            mm = re.match(r'^(\w+)\s*(\((.*)\)|\{(.*)\})?\s*(=\s*.*)?$', item, re.S)
            if not mm: continue
            if mm.group(3) is not None:
                fs = [(None, re.sub(r'^pub(\([^)]*\))? ', '', f)) for f in _split_top(mm.group(3))]
                vs.append((mm.group(1), 'tuple', fs))
            elif mm.group(4) is not None:
                fs = []
                for f in _split_top(mm.group(4)):
                    f = re.sub(r'^pub(\([^)]*\))? ', '', f); fn_, ft = f.split(':', 1); fs.append((fn_.strip(), ft.strip()))
                vs.append((mm.group(1), 'struct', fs))
            else:
                vs.append((mm.group(1), 'unit', []))
        decls.enums_all.setdefault(name, []).append((path, vs))
        if name not in decls.enums:
            decls.enums[name] = vs; decls.where[name] = path
    for m in re.finditer(r'\b(?:pub(?:\([^)]*\))? )?struct (\w+)\s*(<[^{(;]*?>)?\s*(?:where[^{(;]*)?([{(;])', src):
        name = m.group(1); opener = m.group(3)
        if opener == ';':
            decls.structs.setdefault(name, ('unit', [])); continue
        if opener == '{':
            body, _ = _body(src, m.end() - 1); body = _strip_attrs(body); fs = []
            for f in _split_top(body):
                f = re.sub(r'^pub(\([^)]*\))? ', '', f)
                if ':' not in f: continue
                fn_, ft = f.split(':', 1); fs.append((fn_.strip(), ft.strip()))
            if name not in decls.structs:
                decls.structs[name] = ('struct', fs); decls.where[name] = path
        else:
            d = 0
            for j in range(m.end() - 1, len(src)):
                if src[j] == '(': d += 1
                elif src[j] == ')':
                    d -= 1
                    if d == 0: break
            body = _strip_attrs(src[m.end():j])
            fs = [(None, re.sub(r'^pub(\([^)]*\))? ', '', f)) for f in _split_top(body)]
            if name not in decls.structs:
                decls.structs[name] = ('tuple', fs); decls.where[name] = path
    # impl headers by line
    if rel is not None:
        for m in re.finditer(r'(?m)^[ \t]*(?:unsafe )?impl\b', src):
            line = src.count('\n', 0, m.start()) + 1
            j = src.find('{', m.end()); hdr = src[m.end():j]
            hdr = re.sub(r'\s+', ' ', hdr).strip()
            # drop leading generic params
            if hdr.startswith('<'):
                d = 0
                for k, c in enumerate(hdr):
                    if c == '<': d += 1
                    elif c == '>' and hdr[k-1] not in '-=':
                        d -= 1
                        if d == 0: break
                hdr = hdr[k+1:].strip()
            hdr = re.split(r'\bwhere\b', hdr)[0].strip()
            if ' for ' in hdr:
                tr, ty = hdr.split(' for ', 1)
            else:
                tr, ty = None, hdr
            decls.impls[(rel, line)] = (ty.strip(), tr.strip() if tr else None)
        # derive attributes: `#[derive(A, B)]` at line L col C -> impl for the following item
        for m in re.finditer(r'#\[derive\(([^)]*)\)\]', src):
            line = src.count('\n', 0, m.start()) + 1
            rest = src[m.end():]
            mm = re.search(r'\b(?:enum|struct) (\w+)', rest)
            if not mm: continue
            col0 = m.start() - (src.rfind('\n', 0, m.start()) + 1) + 1
            inner_start = m.start() + len('#[derive(')
            pos = inner_start
            for tr in m.group(1).split(','):
                lead = len(tr) - len(tr.lstrip())
                col = pos + lead - (src.rfind('\n', 0, pos + lead) + 1) + 1
                ln = src.count('\n', 0, pos + lead) + 1
                decls.impls[(rel, ln, col)] = (mm.group(1), tr.strip().split('::')[-1])
                pos += len(tr) + 1

def load_repo(repo='/repo', prefer=None):
    """prefer: crate directory name whose declarations win when two crates declare the same struct/enum name"""
    d = Decls()
    files = sorted(glob.glob(os.path.join(repo, 'crates', '*', 'src', '**', '*.rs'), recursive=True))
    if prefer: files.sort(key=lambda p: (0 if f'/crates/{prefer}/' in p else 1, p))
    for p in files:
        parse_file(p, d, rel=os.path.relpath(p, repo))
    # std enums
    d.enums.setdefault('Option', [('None', 'unit', []), ('Some', 'tuple', [(None, 'T')])])
    d.enums.setdefault('Result', [('Ok', 'tuple', [(None, 'T')]), ('Err', 'tuple', [(None, 'E')])])
    d.enums.setdefault('ControlFlow', [('Continue', 'tuple', [(None, 'C')]), ('Break', 'tuple', [(None, 'B')])])
    d.enums.setdefault('Cow', [('Borrowed', 'tuple', [(None, 'B')]), ('Owned', 'tuple', [(None, 'O')])])
    d.enums.setdefault('Direction', [('Outgoing', 'unit', []), ('Incoming', 'unit', [])])
    d.enums.setdefault('Entry', [('Occupied', 'tuple', [(None, 'O')]), ('Vacant', 'tuple', [(None, 'V')])])
    return d

def load_extern(decls, crate_glob, files):
    """add enum/struct declarations of a registry crate (e.g. wasmparser) without overriding existing names"""
    base = sorted(glob.glob(os.path.expanduser('~/.cargo/registry/src/*/' + crate_glob)))
    if not base: raise FileNotFoundError(crate_glob)
    for f in files:
        for p in glob.glob(os.path.join(base[-1], f), recursive=True):
            parse_file(p, decls)

if __name__ == '__main__':
    d = load_repo()
    print(len(d.enums), 'enums', len(d.structs), 'structs', len(d.impls), 'impls')
    for k in ('ItemKind', 'CoreExtern', 'NodeKind', 'Edge', 'Statement', 'Expr', 'DefinedType', 'ValueType'):
        print(k, [v[0] for v in d.enums.get(k, [])])
    print(d.structs.get('Node'))
    print([(k, v) for k, v in d.impls.items() if 'names.rs' in k[0]])
