"""Model library: Python functions standing in for callees that are not wac code (core/alloc/std, semver, ...).

Every model is listed in the evidence of the check that used it; each has a native counterpart exercised by
`modelcheck` (see /verif/replay) so that a wrong model shows up as MODEL-MISMATCH, never as a verdict.
"""
import re
import z3
from z3 import BitVecVal, BoolVal, And, Or, Not, If, ULT, ULE, UGT, UGE, simplify, ZeroExt, Extract, is_true, is_false
from .engine import (Agg, Enum, Ref, Lazy, LazyOv, StrV, Opaque, Panic, FnItem, Closure, UNIT, bv64, conc, const_str, EngineError,
                     Unmodelled, fresh_id, WIDTH)

MODELS = []
def model(pattern):
    def deco(f):
        MODELS.append((re.compile(pattern, re.S), f)); return f
    return deco

# ---------------------------------------------------------------------------- helpers

def none(): return Enum('Option', bv64(0), {'None': ()})
def some(v): return Enum('Option', bv64(1), {'Some': (v,)})
def opt(cond, v):
    """Option with symbolic presence"""
    cond = simplify(cond) if z3.is_expr(cond) else BoolVal(bool(cond))
    if is_true(cond): return some(v)
    if is_false(cond): return none()
    return Enum('Option', If(cond, bv64(1), bv64(0)), {'Some': (v,), 'None': ()})
def ok(v): return Enum('Result', bv64(0), {'Ok': (v,)})
def err(v): return Enum('Result', bv64(1), {'Err': (v,)})
def result(cond_ok, v, e):
    cond_ok = simplify(cond_ok) if z3.is_expr(cond_ok) else BoolVal(bool(cond_ok))
    if is_true(cond_ok): return ok(v)
    if is_false(cond_ok): return err(e)
    return Enum('Result', If(cond_ok, bv64(0), bv64(1)), {'Ok': (v,), 'Err': (e,)})

def opt_parts(ctx, v):
    """-> (is_some: z3 Bool, payload or None)"""
    v = ctx.deref(v)
    if isinstance(v, Enum):
        return simplify(v.disc == bv64(1)), (v.vars['Some'][0] if 'Some' in v.vars else None)
    if isinstance(v, Lazy):
        from .engine import norm_lazy
        inner = None
        if v.ty:
            mm = re.match(r'^(?:std::option::)?Option<(.*)>$', v.ty.strip(), re.S)
            if mm: inner = mm.group(1)
        return v.disc == bv64(1), norm_lazy(v.kid('Some.0', inner))
    if isinstance(v, Opaque):
        raise EngineError('Option view of opaque value ' + v.name)
    raise EngineError(f'opt_parts of {v!r}')
def res_parts(ctx, v):
    """-> (is_ok, okval, errval)"""
    v = ctx.deref(v)
    if isinstance(v, Enum):
        return simplify(v.disc == bv64(0)), (v.vars['Ok'][0] if 'Ok' in v.vars else None), (v.vars['Err'][0] if 'Err' in v.vars else None)
    if isinstance(v, Lazy):
        return v.disc == bv64(0), v.kid('Ok.0'), v.kid('Err.0')
    raise EngineError(f'res_parts of {v!r}')

def as_str(ctx, v):
    """coerce a value (through references) to a StrV; lazily instantiated inputs get a fresh byte buffer"""
    v = ctx.deref(v)
    if isinstance(v, StrV): return v
    if isinstance(v, Lazy): return lazy_str(ctx.eng, v)
    if isinstance(v, Agg) and len(v.f) == 1: return as_str(ctx, v.f[0])     # newtypes (String{vec}, KebabString, ...)
    if isinstance(v, Opaque):
        # text produced by an opaque call (error messages ...): an arbitrary string
        return lazy_str(ctx.eng, Lazy(f'{v.name}!text{fresh_id()}', '&str'))
    raise EngineError(f'not a string: {v!r}')

def lazy_str(eng, l, cap=None):
    sv = l.extra.get('str')
    if sv is None:
        cap = cap or eng.str_cap
        buf = tuple(z3.BitVec(f'{l.name}!b{i}', 8) for i in range(cap))
        ln = l.len()
        eng.assume(ULE(ln, bv64(cap)))
        sv = StrV(buf, bv64(0), ln, l.name); l.extra['str'] = sv
    return sv

def byte_at(v, i):
    """byte at view-relative index i (BV64); 0 when out of the buffer"""
    idx = simplify(v.off + i)
    c = conc(idx)
    if c is not None:
        return v.buf[c] if c < len(v.buf) else BitVecVal(0, 8)
    r = BitVecVal(0, 8)
    for k in reversed(range(len(v.buf))):
        r = If(idx == bv64(k), v.buf[k], r)
    return r
def is_boundary(v, i):
    b = byte_at(v, i)
    return Or(i == bv64(0), i == v.len, And(ULT(i, v.len), (b & BitVecVal(0xC0, 8)) != BitVecVal(0x80, 8)))
def str_eq(a, b):
    cap = min(len(a.buf), len(b.buf))
    la = conc(a.len); lb = conc(b.len)
    n = max(len(a.buf), len(b.buf))
    if la is not None: n = min(n, la)
    if lb is not None: n = min(n, lb)
    cs = [a.len == b.len]
    for k in range(n):
        cs.append(Or(UGE(bv64(k), a.len), byte_at(a, bv64(k)) == byte_at(b, bv64(k))))
    return simplify(And(cs))
def find_byte(v, c, from_end=False):
    """first (or last) index of byte c -> (found, idx)"""
    found = BoolVal(False); idx = bv64(0)
    n = len(v.buf); lc = conc(v.len)
    if lc is not None: n = min(n, lc)
    rng = range(n) if from_end else reversed(range(n))
    for k in rng:
        hit = And(ULT(bv64(k), v.len), byte_at(v, bv64(k)) == BitVecVal(c, 8))
        idx = If(hit, bv64(k), idx); found = Or(hit, found)
    return simplify(found), simplify(idx)
def substr(v, a, b):
    """view [a, b) of v (no checks)"""
    return StrV(v.buf, simplify(v.off + a), simplify(b - a), v.tag)
def concat_str(a, b, cap):
    """new owned string a ++ b with capacity cap"""
    buf = []
    for k in range(cap):
        kk = bv64(k)
        buf.append(simplify(If(ULT(kk, a.len), byte_at(a, kk), byte_at(b, kk - a.len))))
    return StrV(tuple(buf), bv64(0), simplify(a.len + b.len))

def char_ascii(ctx, v):
    t = ctx.term(v, 'char'); c = conc(t)
    if c is None or c >= 128: raise EngineError('non-ASCII or symbolic char pattern')
    return c

# ---------------------------------------------------------------------------- identity-like

@model(r'^<.* as (?:std::ops::)?Deref(?:Mut)?>::deref(?:_mut)?$')
def m_deref(ctx):
    v = ctx.args[0]; t = ctx.deref(v) if isinstance(v, Ref) else v
    # &String -> &str, &Vec<T> -> &[T], &Box<T> -> &T, &Rc<T> -> &T : all represented by the same value
    return ctx.ret(v)
@model(r'^<.* as (?:AsRef|Borrow|AsMut|BorrowMut)<.*>>::(?:as_ref|borrow|as_mut|borrow_mut)$')
def m_asref(ctx): return ctx.ret(ctx.args[0])
@model(r'^(?:std::string::)?String::as_str$|^(?:std::string::)?String::as_mut_str$|^<String as .*>::as_str$|KebabString::as_str$|KebabStr::as_str$|^std::path::PathBuf::as_path$')
def m_as_str(ctx): return ctx.ret(ctx.args[0])
@model(r'^<(?:str|String|std::string::String|&str|&String|&&str) as (?:ToString|ToOwned|Clone)>::(?:to_string|to_owned|clone)$|^<String as From<&(?:mut )?(?:str|String)>>::from$|^<str as Into<String>>::into$|^<&str as Into<String>>::into$|^<&str as Into<std::string::String>>::into$|^<str as Into<std::string::String>>::into$|^core::str::<impl str>::to_owned$|^<&str as Into<Box<str>>>::into$')
def m_to_string(ctx):
    v0 = ctx.deref(ctx.args[0])
    if isinstance(v0, Opaque): return ctx.ret(v0)
    if ctx.eng.atom_strings:
        v = ctx.deref(ctx.args[0])
        if isinstance(v, Lazy) or type(v).__name__ == 'Atom': return ctx.ret(v)
    return ctx.ret(as_str(ctx, ctx.args[0]))
@model(r'^<(?:&)?(?:u8|u16|u32|u64|usize|i8|i16|i32|i64|isize|bool|char) as Clone>::clone$')
def m_clone_scalar(ctx): return ctx.ret(ctx.deref(ctx.args[0]))
@model(r'^<impl Into<(?:std::string::)?String> as Into<(?:std::string::)?String>>::into$|^<impl Into<.*> as Into<.*>>::into$')
def m_into_impl(ctx): return ctx.ret(ctx.args[0])
@model(r'^<.* as Into<.*>>::into$|^<.* as From<.*>>::from$')
def m_into_same(ctx):
    m = re.match(r'^<(.*) as Into<(.*)>>::into$', ctx.callee, re.S) or re.match(r'^<(.*) as From<(.*)>>::from$', ctx.callee, re.S)
    a, b = m.group(1).strip(), m.group(2).strip()
    if a == b: return ctx.ret(ctx.args[0])
    if '::into' in ctx.callee:
        # blanket `impl Into<B> for A where B: From<A>`: run the crate's own From impl when the dump has one
        try: name = ctx.eng.resolve(f'<{b} as From<{a}>>::from')
        except EngineError: name = None
        if name is None:
            # the impl may be written for a type alias of B: find the unique `impl From<A> for _` in the dump
            want = (ctx.eng._tyseg(a),)
            c = [n for key, ns in ctx.eng.index.items() if key[1] == 'From' and key[2] == 'from' for n in ns if ctx.eng._targs(ctx.eng.trait_of.get(n, '')) == want]
            if len(c) == 1: name = c[0]
        if name is not None: return ctx.call_fn(name, ctx.args)
    return NotImplemented
@model(r'^core::str::<impl str>::as_bytes$|^core::str::<impl str>::as_ptr$|^String::into_bytes$|^String::as_bytes$')
def m_as_bytes(ctx): return ctx.ret(ctx.args[0])
@model(r'^std::mem::(?:drop|forget)::<.*>$|^core::mem::(?:drop|forget)::<.*>$|^drop::<.*>$')
def m_drop(ctx): return ctx.ret(UNIT)

# ---------------------------------------------------------------------------- str

@model(r'^core::str::<impl str>::len$|^String::len$')
def m_str_len(ctx): return ctx.ret(as_str(ctx, ctx.args[0]).len)
@model(r'^core::str::<impl str>::is_empty$|^String::is_empty$')
def m_str_is_empty(ctx): return ctx.ret(as_str(ctx, ctx.args[0]).len == bv64(0))
@model(r'^core::str::<impl str>::find::<char>$')
def m_str_find_char(ctx):
    v = as_str(ctx, ctx.args[0]); c = char_ascii(ctx, ctx.args[1])
    f, i = find_byte(v, c); return ctx.ret(opt(f, i))
@model(r'^core::str::<impl str>::rfind::<char>$')
def m_str_rfind_char(ctx):
    v = as_str(ctx, ctx.args[0]); c = char_ascii(ctx, ctx.args[1])
    f, i = find_byte(v, c, from_end=True); return ctx.ret(opt(f, i))
@model(r'^core::str::<impl str>::contains::<char>$')
def m_str_contains_char(ctx):
    v = as_str(ctx, ctx.args[0]); c = char_ascii(ctx, ctx.args[1])
    f, i = find_byte(v, c); return ctx.ret(f)
@model(r'^core::str::<impl str>::is_char_boundary$')
def m_is_char_boundary(ctx):
    v = as_str(ctx, ctx.args[0]); i = ctx.term(ctx.args[1], 'usize'); return ctx.ret(is_boundary(v, i))

def _range_parts(ctx, r, kind, ln):
    r = ctx.deref(r)
    if kind == 'RangeFrom': return ctx.term(r.f[0], 'usize'), ln
    if kind == 'RangeTo': return bv64(0), ctx.term(r.f[0], 'usize')
    if kind == 'Range': return ctx.term(r.f[0], 'usize'), ctx.term(r.f[1], 'usize')
    if kind == 'RangeFull': return bv64(0), ln
    raise EngineError('range kind ' + kind)

@model(r'^<(?:str|(?:std::string::)?String) as Index(?:Mut)?<(?:std::ops::)?(RangeFrom|RangeTo|Range|RangeFull)(?:<usize>)?>>::index(?:_mut)?$')
def m_str_index(ctx):
    kind = re.search(r'(RangeFrom|RangeTo|RangeFull|Range)', ctx.callee).group(1)
    v = as_str(ctx, ctx.args[0]); a, b = _range_parts(ctx, ctx.args[1], kind, v.len)
    okc = And(ULE(a, b), ULE(b, v.len), is_boundary(v, a), is_boundary(v, b))
    return ctx.forks([(okc, substr(v, a, b)), (Not(okc), Panic('str index out of range or not on a char boundary'))])
@model(r'^core::str::<impl str>::get::<(?:std::ops::)?(RangeFrom|RangeTo|Range)<usize>>$')
def m_str_get(ctx):
    kind = re.search(r'(RangeFrom|RangeTo|Range)', ctx.callee).group(1)
    v = as_str(ctx, ctx.args[0]); a, b = _range_parts(ctx, ctx.args[1], kind, v.len)
    okc = And(ULE(a, b), ULE(b, v.len), is_boundary(v, a), is_boundary(v, b))
    return ctx.ret(opt(okc, substr(v, a, b)))

@model(r'^<(?:&|&mut )*(?:str|(?:std::string::)?String) as PartialEq(?:<(?:&|&mut )*(?:str|(?:std::string::)?String)>)?>::(eq|ne)$|^core::str::<impl PartialEq.*>::(eq|ne)$|^<String as PartialEq<&str>>::(eq|ne)$|^<&str as PartialEq<String>>::(eq|ne)$|^<str as PartialEq<String>>::(eq|ne)$')
def m_str_eq(ctx):
    if ctx.eng.atom_strings:
        from .containers import to_atom, Atom
        x = ctx.deref(ctx.args[0]); y = ctx.deref(ctx.args[1])
        if isinstance(x, (Lazy, Atom)) and isinstance(y, (Lazy, Atom)):
            e = to_atom(ctx.eng, x).t == to_atom(ctx.eng, y).t
            return ctx.ret(Not(e) if ctx.callee.endswith('::ne') else e)
    a = as_str(ctx, ctx.args[0]); b = as_str(ctx, ctx.args[1]); e = str_eq(a, b)
    return ctx.ret(Not(e) if ctx.callee.endswith('::ne') else e)

@model(r'^core::str::<impl str>::starts_with::<(?:&str|&String|char)>$')
def m_starts_with(ctx):
    v = as_str(ctx, ctx.args[0])
    if ctx.callee.endswith('<char>'):
        c = char_ascii(ctx, ctx.args[1]); return ctx.ret(And(UGT(v.len, bv64(0)), byte_at(v, bv64(0)) == BitVecVal(c, 8)))
    p = as_str(ctx, ctx.args[1])
    return ctx.ret(And(ULE(p.len, v.len), str_eq(substr(v, bv64(0), p.len), p)))
@model(r'^core::str::<impl str>::ends_with::<(?:&str|&String|char)>$')
def m_ends_with(ctx):
    v = as_str(ctx, ctx.args[0])
    if ctx.callee.endswith('<char>'):
        c = char_ascii(ctx, ctx.args[1]); return ctx.ret(And(UGT(v.len, bv64(0)), byte_at(v, v.len - 1) == BitVecVal(c, 8)))
    p = as_str(ctx, ctx.args[1])
    return ctx.ret(And(ULE(p.len, v.len), str_eq(substr(v, v.len - p.len, v.len), p)))
@model(r'^core::str::<impl str>::strip_prefix::<(?:&str|char)>$')
def m_strip_prefix(ctx):
    v = as_str(ctx, ctx.args[0])
    if ctx.callee.endswith('<char>'):
        c = char_ascii(ctx, ctx.args[1]); hit = And(UGT(v.len, bv64(0)), byte_at(v, bv64(0)) == BitVecVal(c, 8)); n = bv64(1)
    else:
        p = as_str(ctx, ctx.args[1]); n = p.len; hit = And(ULE(p.len, v.len), str_eq(substr(v, bv64(0), p.len), p))
    return ctx.ret(opt(hit, substr(v, n, v.len)))
@model(r'^core::str::<impl str>::strip_suffix::<(?:&str|char)>$')
def m_strip_suffix(ctx):
    v = as_str(ctx, ctx.args[0])
    if ctx.callee.endswith('<char>'):
        c = char_ascii(ctx, ctx.args[1]); hit = And(UGT(v.len, bv64(0)), byte_at(v, v.len - 1) == BitVecVal(c, 8)); n = bv64(1)
    else:
        p = as_str(ctx, ctx.args[1]); n = p.len; hit = And(ULE(p.len, v.len), str_eq(substr(v, v.len - p.len, v.len), p))
    return ctx.ret(opt(hit, substr(v, bv64(0), v.len - n)))
@model(r'^core::str::<impl str>::split_once::<char>$')
def m_split_once(ctx):
    v = as_str(ctx, ctx.args[0]); c = char_ascii(ctx, ctx.args[1]); f, i = find_byte(v, c)
    return ctx.ret(opt(f, Agg((substr(v, bv64(0), i), substr(v, i + 1, v.len)))))
@model(r'^core::str::<impl str>::rsplit_once::<char>$')
def m_rsplit_once(ctx):
    v = as_str(ctx, ctx.args[0]); c = char_ascii(ctx, ctx.args[1]); f, i = find_byte(v, c, from_end=True)
    return ctx.ret(opt(f, Agg((substr(v, bv64(0), i), substr(v, i + 1, v.len)))))

# ---------------------------------------------------------------------------- Option / Result / Try

def _inner_ty(callee):
    m = re.match(r'^<(?:std::(?:option|result)::)?(Option|Result)<', callee)
    return m.group(1) if m else None

@model(r'^<(?:std::option::)?Option<.*> as (?:std::ops::)?Try>::branch$')
def m_opt_branch(ctx):
    is_some, p = opt_parts(ctx, ctx.args[0])
    d = simplify(If(is_some, bv64(0), bv64(1)))
    return ctx.ret(Enum('ControlFlow', d, {'Continue': (p,), 'Break': (none(),)}))
@model(r'^<(?:std::result::)?Result<.*> as (?:std::ops::)?Try>::branch$')
def m_res_branch(ctx):
    is_ok, o, e = res_parts(ctx, ctx.args[0])
    d = simplify(If(is_ok, bv64(0), bv64(1)))
    return ctx.ret(Enum('ControlFlow', d, {'Continue': (o,), 'Break': (err(e),)}))
@model(r'^<(?:std::option::)?Option<.*> as (?:std::ops::)?FromResidual<.*>>::from_residual$')
def m_opt_from_residual(ctx): return ctx.ret(none())
@model(r'^<(?:std::result::)?Result<.*> as (?:std::ops::)?FromResidual<.*>>::from_residual$')
def m_res_from_residual(ctx):
    r = ctx.deref(ctx.args[0])
    e = r.vars['Err'][0] if isinstance(r, Enum) and 'Err' in r.vars else Opaque(f'err{fresh_id()}')
    return ctx.ret(err(e))
@model(r'^(?:std::result::)?Result::<.*>::ok$')
def m_res_ok(ctx):
    is_ok, o, e = res_parts(ctx, ctx.args[0]); return ctx.ret(opt(is_ok, o))
@model(r'^(?:std::result::)?Result::<.*>::err$')
def m_res_err(ctx):
    is_ok, o, e = res_parts(ctx, ctx.args[0]); return ctx.ret(opt(Not(is_ok), e))
@model(r'^(?:std::result::)?Result::<.*>::is_ok$')
def m_res_is_ok(ctx): return ctx.ret(res_parts(ctx, ctx.args[0])[0])
@model(r'^(?:std::result::)?Result::<.*>::is_err$')
def m_res_is_err(ctx): return ctx.ret(Not(res_parts(ctx, ctx.args[0])[0]))
@model(r'^(?:std::option::)?Option::<.*>::is_some$')
def m_opt_is_some(ctx): return ctx.ret(opt_parts(ctx, ctx.args[0])[0])
@model(r'^(?:std::option::)?Option::<.*>::is_none$')
def m_opt_is_none(ctx): return ctx.ret(Not(opt_parts(ctx, ctx.args[0])[0]))
@model(r'^(?:std::option::)?Option::<.*>::(?:unwrap|expect)$')
def m_opt_unwrap(ctx):
    s_, p = opt_parts(ctx, ctx.args[0])
    what = 'unwrap on None' if ctx.callee.endswith('unwrap') else 'expect on None'
    return ctx.forks([(s_, p), (Not(s_), Panic(what))])
@model(r'^(?:std::result::)?Result::<.*>::(?:unwrap|expect)$')
def m_res_unwrap(ctx):
    is_ok, o, e = res_parts(ctx, ctx.args[0])
    return ctx.forks([(is_ok, o), (Not(is_ok), Panic('unwrap on Err'))])
@model(r'^(?:std::option::)?Option::<.*>::(?:as_ref|as_mut|as_deref|as_deref_mut|cloned|copied)$')
def m_opt_as_ref(ctx):
    v = ctx.args[0]
    o = ctx.deref(v)
    s_, p = opt_parts(ctx, o)
    if ctx.callee.endswith('cloned') or ctx.callee.endswith('copied'):
        p = ctx.deref(p) if isinstance(p, Ref) else p
        return ctx.ret(opt(s_, p))
    if isinstance(v, Ref):
        # reference into the payload
        pr = Ref(v.base, v.path + (('v', 'Some'), 0)) if not isinstance(o, Lazy) else p
        return ctx.ret(opt(s_, pr))
    return ctx.ret(opt(s_, p))
@model(r'^(?:std::option::)?Option::<.*>::unwrap_or$')
def m_opt_unwrap_or(ctx):
    s_, p = opt_parts(ctx, ctx.args[0])
    return ctx.forks([(s_, p), (Not(s_), ctx.args[1])])
@model(r'^(?:std::option::)?Option::<.*>::ok_or(?:::<.*>)?$')
def m_opt_ok_or(ctx):
    s_, p = opt_parts(ctx, ctx.args[0]); return ctx.ret(result(s_, p, ctx.args[1]))
@model(r'^(?:std::option::)?Option::<.*>::take$')
def m_opt_take(ctx):
    r = ctx.args[0]; v = ctx.deref(r)
    ctx.eng.write_ref(ctx.st, r, none()); return ctx.ret(v)

def _k_opt_map(eng, st, fr, kd, rv):
    dst, tgt, wrap = kd
    from .mir import parse_place
    eng.store(st, fr, parse_place(dst), wrap(rv)); return eng.jump(st, fr, tgt)

@model(r'^(?:std::option::)?Option::<.*>::(map|and_then|map_or_else|map_or|unwrap_or_else|or_else|ok_or_else|filter|is_some_and)::<.*>$')
def m_opt_closure(ctx):
    kind = re.search(r'::(map_or_else|map_or|map|and_then|unwrap_or_else|or_else|ok_or_else|filter|is_some_and)::<', ctx.callee).group(1)
    s_, p = opt_parts(ctx, ctx.args[0]); eng = ctx.eng; dst = ctx.dst; tgt = ctx.tgt
    from .mir import parse_place
    def run(clo, args, wrap):
        def act(st2, fr2):
            from .containers import call_closure
            return call_closure(eng, st2, fr2, clo, args, _k_opt_map, (dst, tgt, wrap))
        return act
    if kind == 'map':
        return ctx.forks([(s_, run(ctx.args[1], (p,), some)), (Not(s_), none())])
    if kind == 'and_then':
        return ctx.forks([(s_, run(ctx.args[1], (p,), lambda x: x)), (Not(s_), none())])
    if kind == 'unwrap_or_else':
        return ctx.forks([(s_, p), (Not(s_), run(ctx.args[1], (), lambda x: x))])
    if kind == 'or_else':
        return ctx.forks([(s_, some(p)), (Not(s_), run(ctx.args[1], (), lambda x: x))])
    if kind == 'ok_or_else':
        return ctx.forks([(s_, ok(p)), (Not(s_), run(ctx.args[1], (), err))])
    if kind == 'is_some_and':
        return ctx.forks([(s_, run(ctx.args[1], (p,), lambda x: x)), (Not(s_), BoolVal(False))])
    if kind == 'map_or':
        return ctx.forks([(s_, run(ctx.args[2], (p,), lambda x: x)), (Not(s_), ctx.args[1])])
    if kind == 'map_or_else':
        return ctx.forks([(s_, run(ctx.args[2], (p,), lambda x: x)), (Not(s_), run(ctx.args[1], (), lambda x: x))])
    return NotImplemented
@model(r'^core::bool::<impl bool>::then::<.*>$')
def m_bool_then(ctx):
    b = ctx.term(ctx.args[0], 'bool'); eng = ctx.eng; dst = ctx.dst; tgt = ctx.tgt; clo = ctx.args[1]
    def act(st2, fr2):
        from .containers import call_closure
        return call_closure(eng, st2, fr2, clo, (), _k_opt_map, (dst, tgt, some))
    return ctx.forks([(b, act), (Not(b), none())])
@model(r'^core::bool::<impl bool>::then_some::<.*>$')
def m_bool_then_some(ctx):
    b = ctx.term(ctx.args[0], 'bool'); return ctx.ret(opt(b, ctx.args[1]))
def _k_goiw(eng, st, fr, kd, rv):
    dst, tgt, r = kd
    from .mir import parse_place
    eng.write_ref(st, r, some(rv)); eng.store(st, fr, parse_place(dst), Ref(r.base, tuple(r.path) + (('v', 'Some'), 0))); return eng.jump(st, fr, tgt)
@model(r'^(?:std::option::)?Option::<.*>::get_or_insert_with::<.*>$')
def m_opt_get_or_insert_with(ctx):
    r = ctx.args[0]
    if not isinstance(r, Ref): raise EngineError('get_or_insert_with on a non-reference')
    s_, p = opt_parts(ctx, r); eng = ctx.eng; dst = ctx.dst; tgt = ctx.tgt; clo = ctx.args[1]
    def act(st2, fr2):
        from .containers import call_closure
        return call_closure(eng, st2, fr2, clo, (), _k_goiw, (dst, tgt, r))
    return ctx.forks([(s_, Ref(r.base, tuple(r.path) + (('v', 'Some'), 0))), (Not(s_), act)])
@model(r'^(?:std::result::)?Result::<.*>::(map|map_err|and_then|unwrap_or_else|or_else)::<.*>$')
def m_res_closure(ctx):
    kind = re.search(r'::(map|map_err|and_then|unwrap_or_else|or_else)::<', ctx.callee).group(1)
    is_ok, o, e = res_parts(ctx, ctx.args[0]); eng = ctx.eng; dst = ctx.dst; tgt = ctx.tgt
    def run(clo, args, wrap):
        def act(st2, fr2):
            from .containers import call_closure
            return call_closure(eng, st2, fr2, clo, args, _k_opt_map, (dst, tgt, wrap))
        return act
    if kind == 'map': return ctx.forks([(is_ok, run(ctx.args[1], (o,), ok)), (Not(is_ok), err(e))])
    if kind == 'map_err': return ctx.forks([(is_ok, ok(o)), (Not(is_ok), run(ctx.args[1], (e,), err))])
    if kind == 'and_then': return ctx.forks([(is_ok, run(ctx.args[1], (o,), lambda x: x)), (Not(is_ok), err(e))])
    if kind == 'unwrap_or_else': return ctx.forks([(is_ok, o), (Not(is_ok), run(ctx.args[1], (e,), lambda x: x))])
    return NotImplemented

# ---------------------------------------------------------------------------- integers

@model(r'^core::num::<impl (u8|u16|u32|u64|usize)>::saturating_sub$')
def m_sat_sub(ctx):
    a = ctx.term(ctx.args[0], ctx.argty(0)); b = ctx.term(ctx.args[1], ctx.argty(1))
    return ctx.ret(If(UGE(a, b), a - b, BitVecVal(0, a.size())))
@model(r'^core::num::<impl (u8|u16|u32|u64|usize)>::saturating_add$')
def m_sat_add(ctx):
    a = ctx.term(ctx.args[0], ctx.argty(0)); b = ctx.term(ctx.args[1], ctx.argty(1))
    return ctx.ret(If(ULT(a + b, a), BitVecVal(-1, a.size()), a + b))
@model(r'^core::num::<impl (u8|u16|u32|u64|usize)>::checked_(add|sub)$')
def m_checked(ctx):
    a = ctx.term(ctx.args[0], ctx.argty(0)); b = ctx.term(ctx.args[1], ctx.argty(1))
    if ctx.callee.endswith('add'): return ctx.ret(opt(UGE(a + b, a), a + b))
    return ctx.ret(opt(UGE(a, b), a - b))
@model(r'^core::num::<impl (u8|u16|u32|u64|usize)>::wrapping_(add|sub)$')
def m_wrapping(ctx):
    a = ctx.term(ctx.args[0], ctx.argty(0)); b = ctx.term(ctx.args[1], ctx.argty(1))
    return ctx.ret(a + b if ctx.callee.endswith('add') else a - b)
@model(r'^<(?:&)*(u8|u16|u32|u64|usize|i8|i16|i32|i64|isize|char) as PartialOrd(?:<.*>)?>::(lt|le|gt|ge)$')
def m_int_ord(ctx):
    m = re.match(r'^<(?:&)*(\w+) as PartialOrd(?:<.*>)?>::(lt|le|gt|ge)$', ctx.callee)
    ty = m.group(1); a = ctx.term(ctx.deref(ctx.args[0]), ty); b = ctx.term(ctx.deref(ctx.args[1]), ty)
    sg = ty.startswith('i')
    f = {'lt': (lambda: a < b) if sg else (lambda: ULT(a, b)), 'le': (lambda: a <= b) if sg else (lambda: ULE(a, b)),
         'gt': (lambda: a > b) if sg else (lambda: UGT(a, b)), 'ge': (lambda: a >= b) if sg else (lambda: UGE(a, b))}[m.group(2)]
    return ctx.ret(f())
@model(r'^<(?:&)*(u8|u16|u32|u64|usize|i8|i16|i32|i64|isize|char|bool) as PartialEq(?:<.*>)?>::(eq|ne)$')
def m_int_eq(ctx):
    m = re.match(r'^<(?:&)*(\w+) as PartialEq', ctx.callee); ty = m.group(1)
    a = ctx.term(ctx.deref(ctx.args[0]), ty); b = ctx.term(ctx.deref(ctx.args[1]), ty)
    return ctx.ret(a != b if ctx.callee.endswith('::ne') else a == b)
@model(r'^<(u8|u16|u32|u64|usize) as (?:std::cmp::)?Ord>::(max|min)$|^std::cmp::(max|min)::<(u8|u16|u32|u64|usize)>$|^core::cmp::(max|min)::<(usize|u64|u32)>$')
def m_int_maxmin(ctx):
    a = ctx.term(ctx.args[0], ctx.argty(0) or 'usize'); b = ctx.term(ctx.args[1], ctx.argty(1) or 'usize')
    mx = re.search(r'(max|min)', ctx.callee).group(1) == 'max'
    return ctx.ret(If(UGE(a, b), a, b) if mx else If(ULE(a, b), a, b))

# ---------------------------------------------------------------------------- noise: formatting, logging, error construction (opaque, no effect)

NOISE = (r'^(?:core::fmt::|std::fmt::)?(?:rt::)?Arguments::<.*>::(?:new|new_const|new_v1|new_v1_formatted|from_str)(?:::<.*>)?$|^(?:core::fmt::rt::|std::fmt::rt::)?Argument::<.*>::new_\w+(?:::<.*>)?$'
         r'|^(?:alloc::fmt::|std::fmt::)?format$|^alloc::fmt::format::format_inner$|^(?:std::fmt::)?format::\{.*$|^must_use::<.*>$|^std::hint::must_use::<.*>$|^core::hint::must_use::<.*>$'
         r'|^anyhow::[^<].*$|^<anyhow::Error as From<.*>>::from$|^<.* as Into<anyhow::Error>>::into$'
         r'|^log::__private_api::\w+(?:::<.*>)?$|^(?:log::)?max_level$|^log::__private_api::loc$|^(?:log::)?__private_api::\w+(?:::<.*>)?$')
@model(NOISE)
def m_noise(ctx):
    ctx.eng.opaque_calls.add(re.sub(r'::<.*', '', ctx.callee))
    return ctx.ret(Opaque(f'fmt{fresh_id()}'))
@model(r'^<(?:log::)?Level as PartialOrd<(?:log::)?LevelFilter>>::(?:le|ge|lt|gt)$|^<(?:log::)?LevelFilter as PartialOrd<.*>>::(?:le|ge|lt|gt)$')
def m_log_enabled(ctx):
    ctx.eng.opaque_calls.add('log level comparison (logging disabled)')
    return ctx.ret(BoolVal(False))

# ---------------------------------------------------------------------------- semver

def _is_digit(c): return And(UGE(c, BitVecVal(48, 8)), ULE(c, BitVecVal(57, 8)))
def _is_identch(c):
    return Or(_is_digit(c), And(UGE(c, BitVecVal(65, 8)), ULE(c, BitVecVal(90, 8))), And(UGE(c, BitVecVal(97, 8)), ULE(c, BitVecVal(122, 8))), c == BitVecVal(45, 8))

def semver_parse(v):
    """exact bounded model of semver 1.x `Version::from_str` over the bytes of view v.
    -> dict(ok, major, minor, patch, pre=(start,len), build=(start,len), ndig=[len of major, minor, patch digits])
    Overflow of numeric identifiers cannot happen for views shorter than 20 bytes (asserted by capacity)."""
    cap = len(v.buf)
    if cap > 24: raise EngineError('semver model: capacity too large for the no-overflow argument')
    lc = conc(v.len); n = cap if lc is None else min(cap, lc)
    B = BoolVal; Z = bv64(0)
    phase = BitVecVal(0, 8)        # 0 major 1 minor 2 patch 3 pre 4 build 5 done-error
    e = B(False)
    vals = [Z, Z, Z]; nd = [Z, Z, Z]
    lead0 = B(False)               # current numeric started with '0'
    seglen = Z; segnd = B(False); seg0 = B(False)     # pre/build segment state: length, has non-digit, first char is '0'
    pre_start = Z; pre_len = Z; build_start = Z; build_len = Z
    for k in range(n):
        kk = bv64(k); act = ULT(kk, v.len); c = byte_at(v, kk)
        isd = _is_digit(c); isid = _is_identch(c); dot = c == BitVecVal(46, 8); dash = c == BitVecVal(45, 8); plus = c == BitVecVal(43, 8)
        d = ZeroExt(56, c - BitVecVal(48, 8))
        num = ULE(phase, BitVecVal(2, 8))
        cur_nd = If(phase == 0, nd[0], If(phase == 1, nd[1], nd[2]))
        # numeric phases
        num_digit = And(num, isd)
        num_err = And(num, Or(And(isd, lead0),                                  # digit after a leading zero
                              And(Not(isd), cur_nd == Z),                        # separator without digits
                              And(Not(isd), Not(dot), ULT(phase, BitVecVal(2, 8))),   # major/minor must be followed by '.'
                              And(phase == 2, Not(isd), Not(dash), Not(plus))))  # after patch only '-' or '+'
        # identifier phases
        idp = Or(phase == 3, phase == 4)
        seg_end_bad = Or(seglen == Z, And(phase == 3, UGT(seglen, bv64(1)), Not(segnd), seg0))
        id_err = And(idp, Or(And(dot, seg_end_bad),
                             And(plus, phase == 3, seg_end_bad),
                             And(plus, phase == 4),
                             And(Not(isid), Not(dot), Not(plus))))
        e_new = Or(e, And(act, Or(num_err, id_err)))
        upd = And(act, Not(e_new))
        for p in range(3):
            hit = And(upd, num_digit, phase == p)
            vals[p] = If(hit, vals[p] * bv64(10) + d, vals[p]); nd[p] = If(hit, nd[p] + 1, nd[p])
        lead0_n = If(And(upd, num_digit), And(cur_nd == Z, c == BitVecVal(48, 8)), If(And(upd, num, Not(isd)), B(False), lead0))
        # transitions
        to_pre = And(upd, phase == 2, dash); to_build = And(upd, Or(And(phase == 2, plus), And(phase == 3, plus)))
        in_id_char = And(upd, idp, isid)
        in_id_dot = And(upd, idp, dot)
        seg0_n = If(in_id_char, If(seglen == Z, c == BitVecVal(48, 8), seg0), If(Or(in_id_dot, to_pre, to_build), B(False), seg0))
        segnd_n = If(in_id_char, Or(segnd, Not(isd)), If(Or(in_id_dot, to_pre, to_build), B(False), segnd))
        seglen_n = If(in_id_char, seglen + 1, If(Or(in_id_dot, to_pre, to_build), Z, seglen))
        pre_len = If(And(upd, phase == 3, Or(isid, dot)), pre_len + 1, pre_len)
        build_len = If(And(upd, phase == 4, Or(isid, dot)), build_len + 1, build_len)
        pre_start = If(to_pre, kk + 1, pre_start); build_start = If(to_build, kk + 1, build_start)
        phase = If(And(upd, num, dot), phase + 1, If(to_pre, BitVecVal(3, 8), If(to_build, BitVecVal(4, 8), phase)))
        lead0 = lead0_n; seg0 = seg0_n; segnd = segnd_n; seglen = seglen_n; e = e_new
    end_ok = Or(And(phase == 2, nd[2] != Z),
                And(Or(phase == 3, phase == 4), seglen != Z, Not(And(phase == 3, UGT(seglen, bv64(1)), Not(segnd), seg0))))
    okc = simplify(And(Not(e), end_ok))
    return dict(ok=okc, major=simplify(vals[0]), minor=simplify(vals[1]), patch=simplify(vals[2]),
                pre=(simplify(pre_start), simplify(pre_len)), build=(simplify(build_start), simplify(build_len)),
                ndig=[simplify(x) for x in nd])

def semver_value(v, p):
    pre = substr(v, p['pre'][0], p['pre'][0] + p['pre'][1]); build = substr(v, p['build'][0], p['build'][0] + p['build'][1])
    return Agg((p['major'], p['minor'], p['patch'], Agg((pre,), 'Prerelease'), Agg((build,), 'BuildMetadata')), 'Version')

@model(r'^semver::Version::parse$|^<semver::Version as FromStr>::from_str$|^core::str::<impl str>::parse::<semver::Version>$|^core::str::<impl str>::parse::<Version>$|^Version::parse$')
def m_semver_parse(ctx):
    v = as_str(ctx, ctx.args[0]); p = semver_parse(v)
    return ctx.ret(result(p['ok'], semver_value(v, p), Opaque(f'semver_err{fresh_id()}')))
@model(r'^(?:semver::)?Prerelease::is_empty$|^(?:semver::)?BuildMetadata::is_empty$')
def m_pre_is_empty(ctx):
    p = ctx.deref(ctx.args[0]); return ctx.ret(as_str(ctx, p).len == bv64(0))
@model(r'^<(?:semver::)?Version as Clone>::clone$')
def m_version_clone(ctx): return ctx.ret(ctx.deref(ctx.args[0]))

# ---------------------------------------------------------------------------- miette spans, logos contract pieces

@model(r'^<usize as Into<(?:miette::)?SourceOffset>>::into$|^<(?:miette::)?SourceOffset as From<usize>>::from$|^(?:miette::)?SourceOffset::offset$')
def m_source_offset(ctx): return ctx.ret(ctx.deref(ctx.args[0]))
@model(r'^(?:miette::)?SourceSpan::new$')
def m_sourcespan_new(ctx): return ctx.ret(Agg((ctx.term(ctx.args[0], 'usize'), ctx.term(ctx.args[1], 'usize')), 'SourceSpan'))
@model(r'^(?:miette::)?SourceSpan::offset$')
def m_sourcespan_offset(ctx): return ctx.ret(ctx.term(ctx.deref(ctx.args[0]).f[0] if isinstance(ctx.deref(ctx.args[0]), Agg) else ctx.deref(ctx.args[0]).kid('0', 'usize'), 'usize'))
@model(r'^(?:miette::)?SourceSpan::len$')
def m_sourcespan_len(ctx): return ctx.ret(ctx.term(ctx.deref(ctx.args[0]).f[1] if isinstance(ctx.deref(ctx.args[0]), Agg) else ctx.deref(ctx.args[0]).kid('1', 'usize'), 'usize'))
@model(r'^<(?:miette::)?SourceSpan as Clone>::clone$')
def m_sourcespan_clone(ctx): return ctx.ret(ctx.deref(ctx.args[0]))

# ---------------------------------------------------------------------------- panics

@model(r'^(?:core::panicking::|std::panicking::|std::rt::)?(?:panic|panic_fmt|panic_display|panic_explicit|panic_nounwind|unreachable_display|assert_failed|assert_failed_inner|begin_panic|panic_bounds_check|panic_const::\w+|unwrap_failed|expect_failed|panic_str_2015|panic_cold_explicit)(?:::<.*>)?$|^core::option::(?:unwrap_failed|expect_failed)$|^core::result::unwrap_failed$|^core::slice::index::\w+_fail$|^core::str::slice_error_fail$')
def m_panic(ctx):
    msg = ''
    if ctx.argstrs and ctx.argstrs[0].startswith('const "'): msg = ': ' + ctx.argstrs[0][6:66]
    return ctx.panic(re.sub(r'::<.*', '', ctx.callee) + msg)

@model(r'^<.* as ToString>::to_string$|^<.* as std::fmt::Display>::fmt$')
def m_display_to_string(ctx):
    ctx.eng.opaque_calls.add('ToString::to_string of a non-string value'); return ctx.ret(Opaque(f'text{fresh_id()}'))

@model(r'^(?:std::option::)?Option::<(?:std::result::)?Result<.*>>::transpose$')
def m_opt_transpose(ctx):
    s_, p = opt_parts(ctx, ctx.args[0])
    if p is None: return ctx.ret(ok(none()))
    is_ok, o, e = res_parts(ctx, p)
    return ctx.forks([(Not(s_), ok(none())), (And(s_, is_ok), ok(some(o))), (And(s_, Not(is_ok)), err(e))])
