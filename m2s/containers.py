"""Container and iterator models: Vec / slices / IndexMap / IndexSet / HashMap / HashSet, iterator adapters.

Concrete-shape containers (VecV, MapV) hold a Python tuple of symbolic items; lazily instantiated inputs (Lazy) act as
containers of symbolic length <= eng.vec_cap whose items are the lazily created children `[i]` (Vec) or `[i].k`/`[i].v` (maps).
Iterators are immutable values; `next` writes the advanced iterator back through the `&mut` it was given.
"""
import re
import z3
from z3 import BitVecVal, BoolVal, And, Or, Not, If, ULT, ULE, UGT, UGE, simplify, is_true, is_false
from .engine import (Agg, Enum, Ref, Lazy, LazyOv, StrV, Opaque, Panic, FnItem, Closure, UNIT, bv64, conc, EngineError, Unmodelled,
                     fresh_id, Ctx)
from .mir import parse_place, split_top
from .engine import WIDTH
from .models import model, MODELS, none, some, opt, ok, err, result, opt_parts, as_str, str_eq, lazy_str

# ---------------------------------------------------------------------------- values

class VecV:
    __slots__ = ('items',)
    def __init__(s, items=()): s.items = tuple(items)
    def __repr__(s): return f'VecV{s.items!r}'
    def index_get(s, eng, idx):
        c = idx if isinstance(idx, int) else conc(idx)
        if c is None: raise EngineError('symbolic index into VecV')
        return s.items[c]
    def index_set(s, eng, idx, rest, new):
        c = idx if isinstance(idx, int) else conc(idx)
        it = list(s.items); it[c] = eng.set_path(it[c], rest, new); return VecV(it)

class MapV:
    """insertion-ordered association list (IndexMap / IndexSet); `hashed` marks std HashMap/HashSet (iteration order unspecified)"""
    __slots__ = ('entries', 'hashed')
    def __init__(s, entries=(), hashed=False): s.entries = tuple(entries); s.hashed = hashed
    def __repr__(s): return f'MapV{s.entries!r}'
    def index_get(s, eng, idx):
        c = idx if isinstance(idx, int) else conc(idx)
        k, v = s.entries[c]; return Agg((k, v))
    def index_set(s, eng, idx, rest, new):
        c = idx if isinstance(idx, int) else conc(idx)
        es = list(s.entries); k, v = es[c]
        a = eng.set_path(Agg((k, v)), rest, new); es[c] = (a.f[0], a.f[1]); return MapV(es, s.hashed)

class Atom:
    """abstract string: only equality is observable"""
    __slots__ = ('t', 'name')
    def __init__(s, t, name=None): s.t = t; s.name = name

# ---------------------------------------------------------------------------- equality

ATOM = z3.DeclareSort('Atom') if False else None

def lazy_atom(l):
    a = l.extra.get('atom')
    if a is None:
        a = Atom(z3.Int(l.name + '!atom'), l.name); l.extra['atom'] = a
    return a

def is_strlike_ty(t):
    if not t: return False
    t = re.sub(r"^(&(?:'\w+ )?(?:mut )?)+", '', t.strip())
    return t in ('str', 'String', 'std::string::String', 'KebabString', 'Box<str>')

def val_eq(eng, st, a, b):
    a = eng.deref(st, a); b = eng.deref(st, b)
    if a is b: return BoolVal(True)
    h2 = getattr(eng, 'eq_hook2', None)
    if h2 is not None:
        r = h2(a, b)
        if r is not None: return r
    if z3.is_expr(a) and z3.is_expr(b): return a == b
    if isinstance(a, Atom) or isinstance(b, Atom):
        a = to_atom(eng, a); b = to_atom(eng, b); return a.t == b.t
    if isinstance(a, StrV) or isinstance(b, StrV):
        return str_eq(coerce_str(eng, a), coerce_str(eng, b))
    if isinstance(a, Lazy) and isinstance(b, Lazy):
        ta = (a.ty or b.ty or '').strip()
        if ta in ('bool',) or ta in eng_width(): return a.scalar(ta) == b.scalar(ta)
        if is_strlike_ty(ta):
            if eng.atom_strings: return lazy_atom(a).t == lazy_atom(b).t
            return str_eq(lazy_str(eng, a), lazy_str(eng, b))
        mo = re.match(r'^(?:std::option::)?Option<(.*)>$', ta, re.S)
        if mo:
            it = mo.group(1).strip()
            return And(a.disc == b.disc, Or(a.disc != bv64(1), val_eq(eng, st, a.kid('Some.0', it), b.kid('Some.0', it))))
        if ta.startswith('(') and ta.endswith(')'):
            from .mir import split_top
            parts = split_top(ta[1:-1])
            return And([val_eq(eng, st, a.kid(str(i), t_.strip()), b.kid(str(i), t_.strip())) for i, t_ in enumerate(parts)])
        h = eng.eq_hook(a, b) if getattr(eng, 'eq_hook', None) else None
        if h is not None: return h
        raise EngineError(f'equality of lazies {a!r} {b!r}')
    if isinstance(a, Lazy) or isinstance(b, Lazy):
        l, o = (a, b) if isinstance(a, Lazy) else (b, a)
        if z3.is_expr(o): return l.scalar() == o
        if isinstance(o, Agg):
            return And([val_eq(eng, st, l.kid(str(i)), x) for i, x in enumerate(o.f)]) if o.f else BoolVal(True)
        if isinstance(o, Enum):
            cs = [l.disc == o.disc]
            for vn, fs in o.vars.items():
                idx = eng.decls.enum_index(o.ty, vn) if eng.decls and o.ty in eng.decls.enums else None
                guard = (o.disc == bv64(idx)) if idx is not None else BoolVal(True)
                for i, x in enumerate(fs):
                    cs.append(Or(Not(guard), val_eq(eng, st, l.kid(f'{vn}.{i}'), x)))
            return And(cs)
        raise EngineError(f'equality lazy vs {o!r}')
    if isinstance(a, Agg) and isinstance(b, Agg):
        if len(a.f) != len(b.f): return BoolVal(False)
        return And([val_eq(eng, st, x, y) for x, y in zip(a.f, b.f)]) if a.f else BoolVal(True)
    if isinstance(a, Enum) and isinstance(b, Enum):
        cs = [a.disc == b.disc]
        for vn in a.vars:
            if vn in b.vars:
                idx = eng.decls.enum_index(a.ty, vn) if eng.decls and a.ty in eng.decls.enums else None
                guard = (a.disc == bv64(idx)) if idx is not None else BoolVal(True)
                for x, y in zip(a.vars[vn], b.vars[vn]):
                    cs.append(Or(Not(guard), val_eq(eng, st, x, y)))
        return And(cs)
    if isinstance(a, VecV) and isinstance(b, VecV):
        if len(a.items) != len(b.items): return BoolVal(False)
        return And([val_eq(eng, st, x, y) for x, y in zip(a.items, b.items)]) if a.items else BoolVal(True)
    raise EngineError(f'val_eq {a!r} {b!r}')

def eng_width():
    from .engine import WIDTH
    return WIDTH
def to_atom(eng, v):
    if isinstance(v, Atom): return v
    if isinstance(v, Lazy): return lazy_atom(v)
    raise EngineError(f'atom of {v!r}')
def coerce_str(eng, v):
    if isinstance(v, StrV): return v
    if isinstance(v, Lazy): return lazy_str(eng, v)
    if isinstance(v, Agg) and len(v.f) == 1: return coerce_str(eng, v.f[0])
    raise EngineError(f'string of {v!r}')

# ---------------------------------------------------------------------------- lazily instantiated containers

def lz_len(eng, l, cap=None):
    ln = l.len()
    if not l.extra.get('lenb'):
        l.extra['lenb'] = True
        eng.assume(ULE(ln, bv64(cap if cap is not None else lz_cap(eng, l))))
    return ln
def lz_cap(eng, l): return l.extra.get('cap', eng.vec_cap)
def elem_ty(t, which='item'):
    """element type of Vec<T>/[T]/&[T]/IndexMap<K, V>..."""
    if not t: return None
    t = re.sub(r"^(&(?:'\w+ )?(?:mut )?)+", '', t.strip())
    m = re.match(r'^(?:std::vec::)?Vec<(.*)>$', t, re.S) or re.match(r'^\[(.*?)(?:; \d+)?\]$', t, re.S) or re.match(r'^(?:Box|Rc|Arc)<\[(.*)\]>$', t, re.S)
    if m: return m.group(1)
    m = re.match(r'^(?:indexmap::(?:map::)?)?IndexMap<(.*)>$', t, re.S) or re.match(r'^(?:std::collections::)?(?:Hash|BTree)Map<(.*)>$', t, re.S)
    if m:
        from .mir import split_top
        kv = split_top(m.group(1))
        return kv[0] if which == 'k' else (kv[1] if len(kv) > 1 else None)
    m = re.match(r'^(?:indexmap::(?:set::)?)?IndexSet<(.*)>$', t, re.S) or re.match(r'^(?:std::collections::)?(?:Hash|BTree)Set<(.*)>$', t, re.S)
    if m: return m.group(1)
    return None

# ---------------------------------------------------------------------------- iterators

class It:
    """kind: 'seq' (items tuple, pos) | 'lazy' (Lazy, pos, mode) | 'map'/'filter'/'filter_map' (inner, closure) | 'zip' | 'enum' (inner, n)
       | 'chain' | 'rev' | 'once' | 'peek' (inner, peeked)"""
    __slots__ = ('kind', 'a', 'b', 'c')
    def __init__(s, kind, a=None, b=None, c=None): s.kind = kind; s.a = a; s.b = b; s.c = c
    def __repr__(s): return f'It({s.kind})'

class Bound:
    pass

def mk_iter(eng, st, v, mode='ref', ref=None):
    """iterator over container value v. mode: 'ref' yields references to items when a ref to the container is known, 'val' yields items.
    For maps the item is (k, v); 'keys'/'values' select one side."""
    if isinstance(v, It): return v
    if isinstance(v, VecV):
        if mode == 'ref' and ref is not None:
            return It('seq', tuple(Ref(ref.base, ref.path + (('i', i),)) for i in range(len(v.items))), 0)
        return It('seq', v.items, 0)
    if isinstance(v, Agg) and v.ty == 'array':
        if mode == 'ref' and ref is not None:
            return It('seq', tuple(Ref(ref.base, ref.path + (('i', i),)) for i in range(len(v.f))), 0)
        return It('seq', v.f, 0)
    if isinstance(v, MapV):
        items = []
        for i, (k, x) in enumerate(v.entries):
            if ref is not None and mode != 'val':
                kr = Ref(ref.base, ref.path + (('i', i), 0)); vr = Ref(ref.base, ref.path + (('i', i), 1))
            else: kr, vr = k, x
            items.append(kr if mode == 'keys' else vr if mode == 'values' else Agg((kr, vr)))
        it = It('seq', tuple(items), 0)
        if v.hashed and len(items) > 1 and getattr(eng, 'hash_order_symbolic', False):
            return It('perm', tuple(items), ())
        return it
    if isinstance(v, Lazy):
        if (elem_ty(v.ty) or '').strip() == 'u8' or 'str' in v.extra: return It('bytes', lazy_str(eng, v), 0)
        return It('lazy', v, 0, mode)
    if isinstance(v, StrV):
        return It('bytes', v, 0)
    raise EngineError(f'iterator over {v!r}')

def lazy_item(eng, l, i, mode):
    """item of a lazily instantiated container; borrowing modes yield references to the (lazy) elements"""
    t = l.ty
    if mode in ('kv', 'keys', 'values', 'kvval'):
        k = l.kid(f'[{i}].k', elem_ty(t, 'k')); v = l.kid(f'[{i}].v', elem_ty(t, 'v'))
        if mode != 'kvval': k = Ref(k, ()); v = Ref(v, ())
        if mode == 'keys': return k
        if mode == 'values': return v
        return Agg((k, v))
    x = l.kid(f'[{i}]', elem_ty(t))
    return x if mode == 'val' else Ref(x, ())

def pull(eng, st, fr, it, cont):
    """advance iterator `it` in state st; cont(st, fr, item_or_None, new_it) -> action. Returns an action."""
    k = it.kind
    if k == 'seq':
        if it.b < len(it.a): return cont(st, fr, it.a[it.b], It('seq', it.a, it.b + 1))
        return cont(st, fr, None, it)
    if k == 'lazy':
        l = it.a; p = it.b; ln = lz_len(eng, l); cap = lz_cap(eng, l)
        alts = []
        if p < cap:
            item = lazy_item(eng, l, p, it.c)
            alts.append((UGT(ln, bv64(p)), (lambda s2, f2: cont(s2, f2, item, It('lazy', l, p + 1, it.c)))))
        else:
            alts.append((UGT(ln, bv64(p)), ('bound', f'container {l.name} longer than {cap}')))
        alts.append((ln == bv64(p), (lambda s2, f2: cont(s2, f2, None, it))))
        return ('forks', alts)
    if k == 'perm':
        # hash iteration order: any not-yet-yielded entry may come next (fork)
        items = it.a; done = it.b
        rest = [i for i in range(len(items)) if i not in done]
        if not rest: return cont(st, fr, None, it)
        alts = []
        for i in rest:
            alts.append((BoolVal(True), (lambda s2, f2, i=i: (s2.trace.append(('hash-order', i)), cont(s2, f2, items[i], It('perm', items, done + (i,))))[1])))
        return ('forks', alts)
    if k == 'once':
        if it.a is not None: return cont(st, fr, it.a, It('once', None))
        return cont(st, fr, None, it)
    if k == 'enum':
        def c2(s2, f2, item, ni):
            if item is None: return cont(s2, f2, None, It('enum', ni, it.b))
            return cont(s2, f2, Agg((bv64(it.b), item)), It('enum', ni, it.b + 1))
        return pull(eng, st, fr, it.a, c2)
    if k == 'zip':
        def ca(s2, f2, ia, na):
            if ia is None: return cont(s2, f2, None, It('zip', na, it.b))
            def cb(s3, f3, ib, nb):
                if ib is None: return cont(s3, f3, None, It('zip', na, nb))
                return cont(s3, f3, Agg((ia, ib)), It('zip', na, nb))
            return pull(eng, s2, f2, it.b, cb)
        return pull(eng, st, fr, it.a, ca)
    if k == 'chain':
        def ca(s2, f2, ia, na):
            if ia is not None: return cont(s2, f2, ia, It('chain', na, it.b))
            def cb(s3, f3, ib, nb): return cont(s3, f3, ib, It('chain', na, nb))
            return pull(eng, s2, f2, it.b, cb)
        return pull(eng, st, fr, it.a, ca)
    if k == 'copied':
        def c2(s2, f2, item, ni):
            if item is None: return cont(s2, f2, None, It('copied', ni))
            return cont(s2, f2, eng.deref(s2, item) if isinstance(item, Ref) else item, It('copied', ni))
        return pull(eng, st, fr, it.a, c2)
    if k == 'rev':
        if it.a.kind == 'seq':
            a = it.a; items = a.a[a.b:]
            return pull(eng, st, fr, It('seq', tuple(reversed(items)), 0), cont)
        raise EngineError('rev of non-sequence iterator')
    if k in ('map', 'filter', 'filter_map'):
        clo = it.b
        def c2(s2, f2, item, ni):
            if item is None: return cont(s2, f2, None, It(k, ni, clo))
            def after(eng_, s3, f3, kd, rv):
                if k == 'map': return cont(s3, f3, rv, It(k, ni, clo))
                if k == 'filter':
                    b = eng_.term(rv, 'bool')
                    return ('forks', [(b, lambda s4, f4: cont(s4, f4, item, It(k, ni, clo))),
                                      (Not(b), lambda s4, f4: pull(eng_, s4, f4, It(k, ni, clo), cont))])
                # filter_map
                is_some, p = opt_parts(Ctx(eng_, s3, f3, None, '', (), (), None), rv)
                return ('forks', [(is_some, lambda s4, f4: cont(s4, f4, p, It(k, ni, clo))),
                                  (Not(is_some), lambda s4, f4: pull(eng_, s4, f4, It(k, ni, clo), cont))])
            arg = item
            if k == 'filter':
                arg = Ref(s2.alloc(item), ())
            return call_closure(eng, s2, f2, clo, (arg,), after)
        return pull(eng, st, fr, it.a, c2)
    if k == 'peek':
        if it.b is not None:
            pk = it.b
            if isinstance(pk, str): return cont(st, fr, None, It('peek', it.a, 'none'))
            return cont(st, fr, pk, It('peek', it.a, None))
        def c2(s2, f2, item, ni): return cont(s2, f2, item, It('peek', ni, None))
        return pull(eng, st, fr, it.a, c2)
    raise EngineError(f'pull on iterator kind {k}')

def call_closure(eng, st, fr, clo, args, after, kdata=None):
    """run closure `clo` on args in (st, fr); `after(eng, st, caller_frame, kdata, retval)` continues. Returns an action."""
    c = eng.deref(st, clo) if isinstance(clo, Ref) else clo
    if isinstance(c, Closure):
        name = eng.closures.get(c.ty)
        if name is None: raise Unmodelled('closure body ' + c.ty)
        a = eng._closure_args(st, name, clo if isinstance(clo, Ref) else c, Agg(tuple(args)))
        return eng.push_call(st, fr, name, a, None, None, after, kdata)
    if isinstance(c, FnItem):
        h = getattr(eng, 'fnitem_hook', None)
        if h:
            r = h(eng, st, fr, c, args, after, kdata)
            if r is not NotImplemented: return r
        return eng.call_by_name(st, fr, c.name, tuple(args), after, kdata)
    if callable(c):     # python-side callback model
        return after(eng, st, fr, kdata, c(eng, st, fr, args))
    raise EngineError(f'call_closure on {c!r}')

def _finish(eng, st, fr, dst, tgt, v):
    eng.store(st, fr, parse_place(dst), v); return eng.jump(st, fr, tgt)

def it_of(ctx, v):
    x = ctx.deref(v) if isinstance(v, Ref) else v
    if isinstance(x, It): return x
    return mk_iter(ctx.eng, ctx.st, x, 'val')

# ---- constructors of iterators
@model(r'^<&(?:mut )?(?:std::vec::)?Vec<.*> as IntoIterator>::into_iter$|^(?:core::slice::)?<impl \[.*\]>::iter(?:_mut)?$|^<&(?:mut )?\[.*\] as IntoIterator>::into_iter$|^(?:std::vec::)?Vec::<.*>::iter(?:_mut)?$')
def m_vec_iter(ctx):
    r = ctx.args[0]; v = ctx.deref(r)
    return ctx.ret(mk_iter(ctx.eng, ctx.st, v, 'ref', r if isinstance(r, Ref) and isinstance(r.base, int) else None))
@model(r'^<(?:std::vec::)?Vec<.*> as IntoIterator>::into_iter$|^<\[.*; \d+\] as IntoIterator>::into_iter$|^<(?:indexmap::)?Index(?:Map|Set)<.*> as IntoIterator>::into_iter$|^<(?:std::collections::)?Hash(?:Map|Set)<.*> as IntoIterator>::into_iter$')
def m_vec_into_iter(ctx):
    v = ctx.deref(ctx.args[0])
    mode = 'kvval' if isinstance(v, Lazy) and re.search(r'Map<', ctx.callee) else 'val'
    return ctx.ret(mk_iter(ctx.eng, ctx.st, v, mode))
@model(r'^(?:indexmap::|wasmparser::collections::)?IndexMap::<.*>::(iter|iter_mut|keys|values|values_mut)$|^<&(?:mut )?(?:indexmap::|wasmparser::collections::)?IndexMap<.*> as IntoIterator>::into_iter$|^(?:std::collections::)?HashMap::<.*>::(iter|iter_mut|keys|values|values_mut)$|^<&(?:mut )?(?:std::collections::)?HashMap<.*> as IntoIterator>::into_iter$|^(?:std::collections::)?BTreeMap::<.*>::(iter|keys|values)$')
def m_map_iter(ctx):
    r = ctx.args[0]; v = ctx.deref(r)
    m = re.search(r'::(iter|iter_mut|keys|values|values_mut)$', ctx.callee)
    mode = {'iter': 'kv', 'iter_mut': 'kv', 'keys': 'keys', 'values': 'values', 'values_mut': 'values', None: 'kv'}[m.group(1) if m else None]
    return ctx.ret(mk_iter(ctx.eng, ctx.st, v, mode, r if isinstance(r, Ref) and isinstance(r.base, int) else None))
@model(r'^(?:indexmap::)?IndexSet::<.*>::iter$|^<&(?:indexmap::)?IndexSet<.*> as IntoIterator>::into_iter$|^(?:std::collections::)?HashSet::<.*>::iter$|^<&(?:std::collections::)?HashSet<.*> as IntoIterator>::into_iter$|^wasmparser::collections::IndexSet::<.*>::iter$|^(?:std::collections::)?BTreeSet::<.*>::iter$')
def m_set_iter(ctx):
    r = ctx.args[0]; v = ctx.deref(r)
    return ctx.ret(mk_iter(ctx.eng, ctx.st, v, 'keys' if isinstance(v, MapV) else 'ref', r if isinstance(r, Ref) and isinstance(r.base, int) else None))
@model(r'^<.* as IntoIterator>::into_iter$')
def m_iter_identity(ctx):
    v = ctx.args[0]
    if isinstance(v, It): return ctx.ret(v)
    return NotImplemented
@model(r'^<.* as Iterator>::(zip|chain)::<.*>$')
def m_zip(ctx):
    kind = 'zip' if '::zip::<' in ctx.callee else 'chain'
    return ctx.ret(It(kind, it_of(ctx, ctx.args[0]), it_of(ctx, ctx.args[1])))
@model(r'^<.* as Iterator>::enumerate$')
def m_enumerate(ctx): return ctx.ret(It('enum', it_of(ctx, ctx.args[0]), 0))
@model(r'^<.* as Iterator>::(?:copied|cloned)::<.*>$|^<.* as Iterator>::(?:copied|cloned)$')
def m_copied(ctx): return ctx.ret(It('copied', it_of(ctx, ctx.args[0])))
@model(r'^<.* as Iterator>::rev$')
def m_rev(ctx): return ctx.ret(It('rev', it_of(ctx, ctx.args[0])))
@model(r'^<.* as Iterator>::peekable$')
def m_peekable(ctx): return ctx.ret(It('peek', it_of(ctx, ctx.args[0]), None))
@model(r'^<.* as Iterator>::(map|filter|filter_map)::<.*>$')
def m_adapter(ctx):
    kind = re.search(r'as Iterator>::(map|filter|filter_map)::<', ctx.callee).group(1)
    return ctx.ret(It(kind, it_of(ctx, ctx.args[0]), ctx.args[1]))
@model(r'^std::iter::once::<.*>$|^core::iter::once::<.*>$')
def m_once(ctx): return ctx.ret(It('once', ctx.args[0]))

# ---- consumers
@model(r'^<.* as Iterator>::next$')
def m_next(ctx):
    r = ctx.args[0]; it = ctx.deref(r)
    if not isinstance(it, It): return NotImplemented
    dst, tgt = ctx.dst, ctx.tgt
    def cont(st, fr, item, ni):
        ctx.eng.write_ref(st, r, ni)
        return _finish(ctx.eng, st, fr, dst, tgt, none() if item is None else some(item))
    return pull(ctx.eng, ctx.st, ctx.fr, it, cont)
@model(r'^(?:std::iter::)?Peekable::<.*>::peek$')
def m_peek(ctx):
    r = ctx.args[0]; it = ctx.deref(r); dst, tgt = ctx.dst, ctx.tgt
    if it.b is not None:
        return ctx.ret(none() if isinstance(it.b, str) else some(Ref(ctx.st.alloc(it.b), ())))
    def cont(st, fr, item, ni):
        ctx.eng.write_ref(st, r, It('peek', ni, 'none' if item is None else item))
        return _finish(ctx.eng, st, fr, dst, tgt, none() if item is None else some(Ref(st.alloc(item), ())))
    return pull(ctx.eng, ctx.st, ctx.fr, it.a, cont)

def drain(eng, st, fr, it, acc, step, done):
    """generic loop: step(st, fr, acc, item, k) where k(st, fr, acc2, stop) continues; done(st, fr, acc)"""
    def cont(s2, f2, item, ni):
        if item is None: return done(s2, f2, acc)
        def k(s3, f3, acc2, stop=False):
            if stop: return done(s3, f3, acc2)
            return drain(eng, s3, f3, ni, acc2, step, done)
        return step(s2, f2, acc, item, k)
    return pull(eng, st, fr, it, cont)

@model(r'^<.* as Iterator>::collect::<(.*)>$')
def m_collect(ctx):
    tgt_ty = re.search(r'as Iterator>::collect::<(.*)>$', ctx.callee, re.S).group(1)
    it = it_of(ctx, ctx.args[0]); dst, tgt = ctx.dst, ctx.tgt; eng = ctx.eng
    # collect::<Result<C, E>>: stop at the first Err item (the iterator is not advanced further), otherwise the Ok payloads are collected into C
    mres = re.match(r'^(?:std::result::)?Result<(.*)>$', tgt_ty, re.S)
    inner_ty = split_top(mres.group(1))[0].strip() if mres else tgt_ty
    def build(st, fr, acc, wrap):
        if re.match(r'^(?:std::vec::)?Vec<', inner_ty): return _finish(eng, st, fr, dst, tgt, wrap(VecV(acc)))
        if re.match(r'^(?:indexmap::)?IndexMap<|^(?:std::collections::)?HashMap<', inner_ty):
            return build_map(eng, st, fr, acc, MapV((), 'HashMap' in inner_ty), lambda s2, f2, m: _finish(eng, s2, f2, dst, tgt, wrap(m)))
        if re.match(r'^(?:indexmap::)?IndexSet<|^(?:std::collections::)?HashSet<', inner_ty):
            return build_map(eng, st, fr, tuple(Agg((x, UNIT)) for x in acc), MapV((), 'HashSet' in inner_ty), lambda s2, f2, m: _finish(eng, s2, f2, dst, tgt, wrap(m)))
        raise Unmodelled('collect into ' + tgt_ty)
    if mres:
        from .models import res_parts, ok as mk_ok, err as mk_err
        def step(st, fr, acc, item, k):
            is_ok, o, e = res_parts(Ctx(eng, st, fr, None, '', (), (), None), item)
            return ('forks', [(is_ok, lambda s2, f2: k(s2, f2, acc + (o,))), (Not(is_ok), lambda s2, f2: _finish(eng, s2, f2, dst, tgt, mk_err(e)))])
        return drain(eng, ctx.st, ctx.fr, it, (), step, lambda st, fr, acc: build(st, fr, acc, mk_ok))
    def step(st, fr, acc, item, k): return k(st, fr, acc + (item,))
    return drain(eng, ctx.st, ctx.fr, it, (), step, lambda st, fr, acc: build(st, fr, acc, lambda x: x))

def build_map(eng, st, fr, pairs, m, k):
    if not pairs: return k(st, fr, m)
    p = pairs[0]; kk, vv = p.f
    def after(s2, f2, m2, old): return build_map(eng, s2, f2, pairs[1:], m2, k)
    return map_insert(eng, st, fr, m, kk, vv, after)

@model(r'^<.* as Iterator>::(any|all|find|find_map|position|for_each|count|fold|last|max|min|sum)(?:::<.*>)?$')
def m_consume(ctx):
    kind = re.search(r'as Iterator>::(\w+)', ctx.callee).group(1)
    r = ctx.args[0]; it = ctx.deref(r) if isinstance(r, Ref) else r
    by_ref = isinstance(r, Ref) and isinstance(ctx.deref(r), It)
    if not isinstance(it, It): it = mk_iter(ctx.eng, ctx.st, it, 'val')
    dst, tgt = ctx.dst, ctx.tgt; eng = ctx.eng
    fin = lambda st, fr, v: _finish(eng, st, fr, dst, tgt, v)
    if kind == 'count':
        return drain(eng, ctx.st, ctx.fr, it, 0, lambda st, fr, acc, item, k: k(st, fr, acc + 1), lambda st, fr, acc: fin(st, fr, bv64(acc)))
    if kind == 'last':
        return drain(eng, ctx.st, ctx.fr, it, None, lambda st, fr, acc, item, k: k(st, fr, item), lambda st, fr, acc: fin(st, fr, none() if acc is None else some(acc)))
    clo = ctx.args[1] if len(ctx.args) > 1 else None
    if kind in ('any', 'all', 'find', 'position', 'find_map'):
        def step(st, fr, acc, item, k):
            arg = item
            if kind == 'find': arg = Ref(st.alloc(item), ())
            def after(eng_, s3, f3, kd, rv):
                if kind == 'find_map':
                    is_some, p = opt_parts(Ctx(eng_, s3, f3, None, '', (), (), None), rv)
                    return ('forks', [(is_some, lambda s4, f4: k(s4, f4, ('hit', p), True)), (Not(is_some), lambda s4, f4: k(s4, f4, (acc[0], None, acc[2] + 1) if isinstance(acc, tuple) and len(acc) == 3 else acc))])
                b = eng_.term(rv, 'bool')
                if kind == 'any': return ('forks', [(b, lambda s4, f4: k(s4, f4, True, True)), (Not(b), lambda s4, f4: k(s4, f4, False))])
                if kind == 'all': return ('forks', [(Not(b), lambda s4, f4: k(s4, f4, False, True)), (b, lambda s4, f4: k(s4, f4, True))])
                if kind == 'find': return ('forks', [(b, lambda s4, f4: k(s4, f4, ('hit', item), True)), (Not(b), lambda s4, f4: k(s4, f4, acc))])
                if kind == 'position': return ('forks', [(b, lambda s4, f4: k(s4, f4, ('hit', bv64(acc[1])), True)), (Not(b), lambda s4, f4: k(s4, f4, ('n', acc[1] + 1)))])
            return call_closure(eng, st, fr, clo, (arg,), after)
        init = {'any': False, 'all': True, 'find': ('miss', None), 'find_map': ('miss', None), 'position': ('n', 0)}[kind]
        def done(st, fr, acc):
            if kind in ('any', 'all'): return fin(st, fr, BoolVal(acc))
            return fin(st, fr, some(acc[1]) if acc[0] == 'hit' else none())
        return drain(eng, ctx.st, ctx.fr, it, init, step, done)
    if kind == 'for_each':
        def step(st, fr, acc, item, k):
            return call_closure(eng, st, fr, clo, (item,), lambda eng_, s3, f3, kd, rv: k(s3, f3, acc))
        return drain(eng, ctx.st, ctx.fr, it, None, step, lambda st, fr, acc: fin(st, fr, UNIT))
    if kind == 'fold':
        init = ctx.args[1]; clo2 = ctx.args[2]
        def step(st, fr, acc, item, k):
            return call_closure(eng, st, fr, clo2, (acc, item), lambda eng_, s3, f3, kd, rv: k(s3, f3, rv))
        return drain(eng, ctx.st, ctx.fr, it, init, step, lambda st, fr, acc: fin(st, fr, acc))
    return NotImplemented

@model(r'^<.* as Iterator>::partition::<(?:std::vec::)?Vec<.*>, .*>$')
def m_partition(ctx):
    """Iterator::partition into two Vecs: the real predicate closure decides each item"""
    r = ctx.args[0]; it = ctx.deref(r) if isinstance(r, Ref) else r
    if not isinstance(it, It): it = mk_iter(ctx.eng, ctx.st, it, 'val')
    dst, tgt = ctx.dst, ctx.tgt; eng = ctx.eng; clo = ctx.args[1]
    def step(st, fr, acc, item, k):
        def after(eng_, s3, f3, kd, rv):
            b = eng_.term(rv, 'bool')
            return ('forks', [(b, lambda s4, f4: k(s4, f4, (acc[0] + (item,), acc[1]))), (Not(b), lambda s4, f4: k(s4, f4, (acc[0], acc[1] + (item,))))])
        return call_closure(eng, st, fr, clo, (Ref(st.alloc(item), ()),), after)
    return drain(eng, ctx.st, ctx.fr, it, ((), ()), step, lambda st, fr, acc: _finish(eng, st, fr, dst, tgt, Agg((VecV(acc[0]), VecV(acc[1])))))

# ---------------------------------------------------------------------------- Vec

@model(r'^(?:std::vec::)?Vec::<.*>::new$|^<(?:std::vec::)?Vec<.*> as Default>::default$|^(?:std::vec::)?Vec::<.*>::with_capacity$')
def m_vec_new(ctx): return ctx.ret(VecV(()))
@model(r'^(?:std::vec::)?Vec::<.*>::(?:reserve|shrink_to_fit|reserve_exact)$')
def m_vec_reserve(ctx): return ctx.ret(UNIT)
@model(r'^(?:std::vec::)?Vec::<.*>::push$')
def m_vec_push(ctx):
    r = ctx.args[0]; v = ctx.deref(r)
    if not isinstance(v, VecV): raise EngineError(f'push on {v!r}')
    ctx.eng.write_ref(ctx.st, r, VecV(v.items + (ctx.args[1],))); return ctx.ret(UNIT)
@model(r'^(?:std::vec::)?Vec::<.*>::pop$')
def m_vec_pop(ctx):
    r = ctx.args[0]; v = ctx.deref(r)
    if not isinstance(v, VecV): raise EngineError(f'pop on {v!r}')
    if not v.items: return ctx.ret(none())
    ctx.eng.write_ref(ctx.st, r, VecV(v.items[:-1])); return ctx.ret(some(v.items[-1]))
@model(r'^(?:std::vec::)?Vec::<.*>::len$|^(?:core::slice::)?<impl \[.*\]>::len$')
def m_vec_len(ctx):
    v = ctx.deref(ctx.args[0])
    if isinstance(v, VecV): return ctx.ret(bv64(len(v.items)))
    if isinstance(v, Agg) and v.ty == 'array': return ctx.ret(bv64(len(v.f)))
    if isinstance(v, Lazy): return ctx.ret(lz_len(ctx.eng, v))
    if isinstance(v, StrV): return ctx.ret(v.len)
    raise EngineError(f'len of {v!r}')
@model(r'^(?:std::vec::)?Vec::<.*>::is_empty$|^(?:core::slice::)?<impl \[.*\]>::is_empty$')
def m_vec_is_empty(ctx):
    v = ctx.deref(ctx.args[0])
    if isinstance(v, VecV): return ctx.ret(BoolVal(len(v.items) == 0))
    if isinstance(v, Lazy): return ctx.ret(lz_len(ctx.eng, v) == bv64(0))
    if isinstance(v, StrV): return ctx.ret(v.len == bv64(0))
    raise EngineError(f'is_empty of {v!r}')
@model(r'^(?:std::vec::)?Vec::<.*>::(?:first|last)$|^(?:core::slice::)?<impl \[.*\]>::(?:first|last)$')
def m_vec_first(ctx):
    r = ctx.args[0]; v = ctx.deref(r); last = ctx.callee.endswith('last')
    if isinstance(v, VecV):
        if not v.items: return ctx.ret(none())
        i = len(v.items) - 1 if last else 0
        return ctx.ret(some(Ref(r.base, r.path + (('i', i),)) if isinstance(r, Ref) and isinstance(r.base, int) else v.items[i]))
    if isinstance(v, Lazy):
        ln = lz_len(ctx.eng, v)
        if not last: return ctx.ret(opt(ln != bv64(0), Ref(v.kid('[0]', elem_ty(v.ty)), ())))
        alts = [(ln == bv64(0), none())]
        for i in range(lz_cap(ctx.eng, v)): alts.append((ln == bv64(i + 1), some(Ref(v.kid(f'[{i}]', elem_ty(v.ty)), ()))))
        return ctx.forks(alts)
    raise EngineError(f'first/last of {v!r}')
@model(r'^<(?:std::vec::)?Vec<.*> as Index(?:Mut)?<usize>>::index(?:_mut)?$|^<\[.*\] as Index(?:Mut)?<usize>>::index(?:_mut)?$')
def m_vec_index(ctx):
    r = ctx.args[0]; v = ctx.deref(r); i = ctx.term(ctx.args[1], 'usize')
    if isinstance(v, VecV):
        alts = []
        for k in range(len(v.items)):
            tgt = Ref(r.base, r.path + (('i', k),)) if isinstance(r, Ref) and isinstance(r.base, int) else v.items[k]
            alts.append((i == bv64(k), tgt))
        alts.append((UGE(i, bv64(len(v.items))), Panic('index out of bounds')))
        return ctx.forks(alts)
    if isinstance(v, Lazy):
        ln = lz_len(ctx.eng, v); alts = []
        for k in range(lz_cap(ctx.eng, v)):
            alts.append((And(i == bv64(k), ULT(i, ln)), Ref(v.kid(f'[{k}]', elem_ty(v.ty)), ())))
        alts.append((UGE(i, ln), Panic('index out of bounds')))
        return ctx.forks(alts)
    raise EngineError(f'index of {v!r}')
@model(r'^<(?:std::vec::)?Vec<.*> as Extend<.*>>::extend::<.*>$|^(?:std::vec::)?Vec::<.*>::extend_from_slice$')
def m_vec_extend(ctx):
    r = ctx.args[0]; eng = ctx.eng; it = it_of(ctx, ctx.args[1]); dst, tgt = ctx.dst, ctx.tgt
    def step(st, fr, acc, item, k): return k(st, fr, acc + (item,))
    def done(st, fr, acc):
        v = eng.deref(st, r); eng.write_ref(st, r, VecV(v.items + acc)); return _finish(eng, st, fr, dst, tgt, UNIT)
    return drain(eng, ctx.st, ctx.fr, it, (), step, done)
@model(r'^<(?:std::vec::)?Vec<.*> as Clone>::clone$')
def m_vec_clone(ctx): return ctx.ret(ctx.deref(ctx.args[0]))
@model(r'^(?:std::vec::)?Vec::<.*>::contains$|^(?:core::slice::)?<impl \[.*\]>::contains$')
def m_vec_contains(ctx):
    v = ctx.deref(ctx.args[0]); x = ctx.args[1]
    if isinstance(v, VecV): return ctx.ret(simplify(Or([val_eq(ctx.eng, ctx.st, y, x) for y in v.items])) if v.items else BoolVal(False))
    raise EngineError(f'contains on {v!r}')

def key_term(eng, st, v):
    """unsigned integer term of a sort key (integers and integer newtypes such as NodeIndex)"""
    v = eng.deref(st, v)
    while isinstance(v, Agg) and len(v.f) == 1: v = v.f[0]
    if isinstance(v, Lazy): return v.scalar()
    if z3.is_expr(v) and z3.is_bv(v): return v
    raise EngineError(f'sort key is not an unsigned integer: {v!r}')
@model(r'^(?:std::slice::|core::slice::)?<impl \[.*\]>::sort_by_key::<.*>$|^(?:std::slice::|core::slice::)?<impl \[.*\]>::sort_unstable_by_key::<.*>$')
def m_sort_by_key(ctx):
    """stable sort by an unsigned key: the keys are computed by the real closure, then one fork per permutation that is the sorted order"""
    r = ctx.args[0]; v = ctx.deref(r); clo = ctx.args[1]; eng = ctx.eng; dst, tgt = ctx.dst, ctx.tgt
    if not isinstance(v, VecV) or not (isinstance(r, Ref) and isinstance(r.base, int)): raise EngineError(f'sort_by_key on {v!r}')
    n = len(v.items)
    if n > 4: raise EngineError('sort_by_key: more than 4 elements')
    def keys_done(st, fr, keys):
        import itertools as _it
        alts = []
        for perm in _it.permutations(range(n)):
            cs = []
            for a in range(n - 1):
                i, j = perm[a], perm[a + 1]
                cs.append(ULT(keys[i], keys[j]) if i > j else ULE(keys[i], keys[j]))
            def ap(s2, f2, perm=perm):
                eng.write_ref(s2, r, VecV(tuple(v.items[i] for i in perm))); return _finish(eng, s2, f2, dst, tgt, UNIT)
            alts.append((And(cs) if cs else BoolVal(True), ap))
        return ('forks', alts)
    def step(st, fr, i, keys):
        if i == n: return keys_done(st, fr, keys)
        def after(eng_, s2, f2, kd, rv): return step(s2, f2, i + 1, keys + [key_term(eng_, s2, rv)])
        return call_closure(eng, st, fr, clo, (Ref(r.base, r.path + (('i', i),)),), after)
    return step(ctx.st, ctx.fr, 0, [])

# ---------------------------------------------------------------------------- maps

def map_lookup_alts(eng, st, m, key):
    """-> [(cond, index or None)] : first matching position (keys of a well-formed map are distinct, so at most one matches)"""
    alts = []; miss = []
    for i, (k, v) in enumerate(m.entries):
        e = simplify(val_eq(eng, st, k, key))
        alts.append((And([e] + miss), i)); miss.append(Not(e))
        if is_true(e): break
    else:
        alts.append((And(miss) if miss else BoolVal(True), None))
    return alts

def map_insert(eng, st, fr, m, key, val, after):
    """after(st, fr, new_map, old_value_or_None) -> action"""
    acts = []
    for cond, i in map_lookup_alts(eng, st, m, key):
        if i is None:
            acts.append((cond, (lambda s2, f2: after(s2, f2, MapV(m.entries + ((key, val),), m.hashed), None))))
        else:
            def hit(s2, f2, i=i):
                es = list(m.entries); old = es[i][1]; es[i] = (es[i][0], val)
                return after(s2, f2, MapV(es, m.hashed), old)
            acts.append((cond, hit))
    return ('forks', acts)

MAPTY = r'(?:indexmap::(?:map::)?)?IndexMap|wasmparser::collections::IndexMap|wasmparser::collections::(?:index_map::)?IndexMap|(?:std::collections::)?HashMap|(?:std::collections::(?:hash_map::)?)?HashMap|(?:std::collections::)?BTreeMap'

@model(r'^<(?:' + MAPTY + r'|(?:indexmap::)?IndexSet|(?:std::collections::)?HashSet|(?:std::collections::)?BTreeSet)<.*> as Default>::default$|^(?:' + MAPTY + r'|(?:indexmap::)?IndexSet|(?:std::collections::)?HashSet|(?:std::collections::)?BTreeSet)::<.*>::(?:new|with_capacity)$')
def m_map_new(ctx):
    hashed = bool(re.match(r'^<?(?:std::collections::)?(?:hash_map::|hash_set::)?Hash(?:Map|Set)', ctx.callee))
    return ctx.ret(MapV((), hashed))
@model(r'^(?:' + MAPTY + r'|(?:indexmap::)?IndexSet|(?:std::collections::)?HashSet)::<.*>::clear$')
def m_map_clear(ctx):
    r = ctx.args[0]; m = ctx.deref(r)
    if not isinstance(m, MapV): raise EngineError(f'clear of {m!r}')
    ctx.eng.write_ref(ctx.st, r, MapV((), m.hashed)); return ctx.ret(UNIT)

class EntryV:
    """indexmap / std `Entry`: the map reference and the key; resolved by or_insert / or_default / or_insert_with"""
    __slots__ = ('r', 'key')
    def __init__(s, r, key): s.r = r; s.key = key
@model(r'^(?:' + MAPTY + r')::<.*>::entry$')
def m_map_entry(ctx):
    r = ctx.args[0]
    if not (isinstance(r, Ref) and isinstance(r.base, int)): raise EngineError('entry() on a map that is not owned by the execution')
    return ctx.ret(EntryV(r, ctx.args[1]))
@model(r'^(?:indexmap::map::|std::collections::hash_map::|std::collections::btree_map::)?Entry::<.*>::(or_insert|or_default)$')
def m_entry_or_insert(ctx):
    e = ctx.args[0]
    if not isinstance(e, EntryV): raise EngineError(f'or_insert on {e!r}')
    r = e.r; m = ctx.deref(r); eng = ctx.eng; dst, tgt = ctx.dst, ctx.tgt
    if not isinstance(m, MapV): raise EngineError(f'entry of {m!r}')
    if ctx.callee.endswith('or_default'):
        vt = split_top(re.search(r'Entry::<(.*)>::or_default$', ctx.callee, re.S).group(1))[-1].strip()
        if re.match(r'^(?:std::vec::)?Vec<', vt): val = VecV(())
        elif re.match(r'^(?:usize|u\d+|i\d+)$', vt): val = BitVecVal(0, WIDTH[vt])
        else: raise EngineError(f'or_default: default value of {vt} is not modelled')
    else: val = ctx.args[1]
    acts = []
    for cond, i in map_lookup_alts(eng, ctx.st, m, e.key):
        if i is None:
            def miss(s2, f2):
                n = len(m.entries); eng.write_ref(s2, r, MapV(m.entries + ((e.key, val),), m.hashed))
                return _finish(eng, s2, f2, dst, tgt, Ref(r.base, r.path + (('i', n), 1)))
            acts.append((cond, miss))
        else:
            acts.append((cond, (lambda s2, f2, i=i: _finish(eng, s2, f2, dst, tgt, Ref(r.base, r.path + (('i', i), 1))))))
    return ('forks', acts)

@model(r'^(?:' + MAPTY + r')::<.*>::insert$')
def m_map_insert(ctx):
    r = ctx.args[0]; m = ctx.deref(r); eng = ctx.eng; dst, tgt = ctx.dst, ctx.tgt
    if not isinstance(m, MapV): raise EngineError(f'insert into {m!r}')
    def after(st, fr, nm, old):
        eng.write_ref(st, r, nm); return _finish(eng, st, fr, dst, tgt, none() if old is None else some(old))
    return map_insert(eng, ctx.st, ctx.fr, m, ctx.args[1], ctx.args[2], after)
@model(r'^(?:(?:indexmap::)?IndexSet|(?:std::collections::)?HashSet|(?:std::collections::)?BTreeSet)::<.*>::insert$')
def m_set_insert(ctx):
    r = ctx.args[0]; m = ctx.deref(r); eng = ctx.eng; dst, tgt = ctx.dst, ctx.tgt
    def after(st, fr, nm, old):
        eng.write_ref(st, r, nm); return _finish(eng, st, fr, dst, tgt, BoolVal(old is None))
    return map_insert(eng, ctx.st, ctx.fr, m, ctx.args[1], UNIT, after)

def _map_get(ctx, what):
    r = ctx.args[0]; m = ctx.deref(r); key = ctx.args[1]; eng = ctx.eng
    if isinstance(m, MapV):
        alts = []
        for cond, i in map_lookup_alts(eng, ctx.st, m, key):
            if i is None: alts.append((cond, none() if what != 'contains' else BoolVal(False)))
            else:
                inmap = isinstance(r, Ref) and isinstance(r.base, int)
                vr = Ref(r.base, r.path + (('i', i), 1)) if inmap else m.entries[i][1]
                kr = Ref(r.base, r.path + (('i', i), 0)) if inmap else m.entries[i][0]
                res = {'get': some(vr), 'contains': BoolVal(True), 'get_full': some(Agg((bv64(i), kr, vr))), 'get_index_of': some(bv64(i)),
                       'get_key_value': some(Agg((kr, vr)))}[what]
                alts.append((cond, res))
        return ctx.forks(alts)
    if isinstance(m, Lazy):
        ln = lz_len(eng, m); cap = lz_cap(eng, m); alts = []; miss = []
        lazy_map_wf(eng, ctx.st, m)
        for i in range(cap):
            k = m.kid(f'[{i}].k', elem_ty(m.ty, 'k')); v = m.kid(f'[{i}].v', elem_ty(m.ty, 'v'))
            e = And(ULT(bv64(i), ln), val_eq(eng, ctx.st, k, key))
            k = Ref(k, ()); v = Ref(v, ())
            res = {'get': some(v), 'contains': BoolVal(True), 'get_full': some(Agg((bv64(i), k, v))), 'get_index_of': some(bv64(i)), 'get_key_value': some(Agg((k, v)))}[what]
            alts.append((And([e] + miss), res)); miss.append(Not(e))
        alts.append((And(miss) if miss else BoolVal(True), none() if what != 'contains' else BoolVal(False)))
        return ctx.forks(alts)
    raise EngineError(f'map get on {m!r}')

def lazy_map_wf(eng, st, m):
    """keys of a lazily instantiated map are pairwise distinct (asserted once per map)"""
    if m.extra.get('wf'): return
    m.extra['wf'] = True
    ln = lz_len(eng, m); cap = lz_cap(eng, m)
    for i in range(cap):
        for j in range(i + 1, cap):
            ki = m.kid(f'[{i}].k', elem_ty(m.ty, 'k')); kj = m.kid(f'[{j}].k', elem_ty(m.ty, 'k'))
            eng.assume(Or(UGE(bv64(j), ln), Not(val_eq(eng, st, ki, kj))))

@model(r'^(?:' + MAPTY + r')::<.*>::(get|get_mut)(?:::<.*>)?$')
def m_map_get(ctx): return _map_get(ctx, 'get')
@model(r'^(?:' + MAPTY + r'|(?:indexmap::)?IndexSet|(?:std::collections::)?HashSet)::<.*>::(contains_key|contains)(?:::<.*>)?$')
def m_map_contains(ctx): return _map_get(ctx, 'contains')
@model(r'^(?:' + MAPTY + r')::<.*>::get_full(?:::<.*>)?$')
def m_map_get_full(ctx): return _map_get(ctx, 'get_full')
@model(r'^(?:' + MAPTY + r'|(?:indexmap::)?IndexSet)::<.*>::get_index_of(?:::<.*>)?$')
def m_map_get_index_of(ctx): return _map_get(ctx, 'get_index_of')
@model(r'^(?:' + MAPTY + r')::<.*>::get_key_value(?:::<.*>)?$')
def m_map_get_kv(ctx): return _map_get(ctx, 'get_key_value')
@model(r'^<(?:' + MAPTY + r')<.*> as Index<&.*>>::index$')
def m_map_index(ctx):
    r = ctx.args[0]; m = ctx.deref(r); key = ctx.args[1]; eng = ctx.eng
    if isinstance(m, MapV):
        alts = []
        for cond, i in map_lookup_alts(eng, ctx.st, m, key):
            if i is None: alts.append((cond, Panic('IndexMap: key not found')))
            else: alts.append((cond, Ref(r.base, r.path + (('i', i), 1)) if isinstance(r, Ref) and isinstance(r.base, int) else m.entries[i][1]))
        return ctx.forks(alts)
    if isinstance(m, Lazy):
        # read-only lazily instantiated map indexed by a key: the entry is assumed to exist (documented precondition of Index)
        k = ctx.deref(key); kn = k.name if isinstance(k, (Lazy, Opaque)) else f'k{fresh_id()}'
        ctx.eng.opaque_calls.add('Index on a lazily instantiated map (key assumed present)')
        return ctx.ret(Ref(m.kid(f'[@{kn}].v', elem_ty(m.ty, 'v')), ()))
    return NotImplemented
@model(r'^(?:' + MAPTY + r'|(?:indexmap::)?IndexSet|(?:std::collections::)?HashSet)::<.*>::len$')
def m_map_len(ctx):
    m = ctx.deref(ctx.args[0])
    if isinstance(m, MapV): return ctx.ret(bv64(len(m.entries)))
    if isinstance(m, Lazy): return ctx.ret(lz_len(ctx.eng, m))
    raise EngineError(f'len of {m!r}')
@model(r'^(?:' + MAPTY + r'|(?:indexmap::)?IndexSet|(?:std::collections::)?HashSet|(?:std::collections::)?BTreeSet)::<.*>::is_empty$')
def m_map_is_empty(ctx):
    m = ctx.deref(ctx.args[0])
    if isinstance(m, MapV): return ctx.ret(BoolVal(len(m.entries) == 0))
    if isinstance(m, Lazy): return ctx.ret(lz_len(ctx.eng, m) == bv64(0))
    raise EngineError(f'is_empty of {m!r}')
@model(r'^(?:' + MAPTY + r')::<.*>::get_index$|^(?:indexmap::)?IndexSet::<.*>::get_index$')
def m_map_get_index(ctx):
    r = ctx.args[0]; m = ctx.deref(r); i = ctx.term(ctx.args[1], 'usize'); is_set = 'IndexSet' in ctx.callee
    if isinstance(m, MapV):
        alts = []
        for k in range(len(m.entries)):
            inmap = isinstance(r, Ref) and isinstance(r.base, int)
            kr = Ref(r.base, r.path + (('i', k), 0)) if inmap else m.entries[k][0]
            vr = Ref(r.base, r.path + (('i', k), 1)) if inmap else m.entries[k][1]
            alts.append((i == bv64(k), some(kr if is_set else Agg((kr, vr)))))
        alts.append((UGE(i, bv64(len(m.entries))), none()))
        return ctx.forks(alts)
    if isinstance(m, Lazy):
        ln = lz_len(ctx.eng, m); alts = []
        for k in range(lz_cap(ctx.eng, m)):
            kk = Ref(m.kid(f'[{k}].k', elem_ty(m.ty, 'k')), ()); vv = Ref(m.kid(f'[{k}].v', elem_ty(m.ty, 'v')), ())
            alts.append((And(i == bv64(k), ULT(i, ln)), some(kk if is_set else Agg((kk, vv)))))
        alts.append((UGE(i, ln), none()))
        return ctx.forks(alts)
    raise EngineError(f'get_index of {m!r}')
@model(r'^(?:' + MAPTY + r')::<.*>::(swap_remove|shift_remove|remove)(?:::<.*>)?$|^(?:(?:indexmap::)?IndexSet|(?:std::collections::)?HashSet)::<.*>::(swap_remove|shift_remove|remove)(?:::<.*>)?$')
def m_map_remove(ctx):
    r = ctx.args[0]; m = ctx.deref(r); key = ctx.args[1]; eng = ctx.eng; dst, tgt = ctx.dst, ctx.tgt
    kind = re.search(r'::(swap_remove|shift_remove|remove)', ctx.callee).group(1)
    is_set = bool(re.match(r'^(?:(?:indexmap::)?IndexSet|(?:std::collections::)?HashSet)::', ctx.callee))
    if not isinstance(m, MapV): raise EngineError(f'remove from {m!r}')
    alts = []
    for cond, i in map_lookup_alts(eng, ctx.st, m, key):
        if i is None: alts.append((cond, BoolVal(False) if is_set else none()))
        else:
            def hit(st, fr, i=i):
                es = list(m.entries); old = es[i][1]
                if kind == 'swap_remove' and i != len(es) - 1:
                    es[i] = es[-1]; es.pop()
                else: es.pop(i)
                eng.write_ref(st, r, MapV(es, m.hashed))
                return _finish(eng, st, fr, dst, tgt, BoolVal(True) if is_set else some(old))
            alts.append((cond, hit))
    return ctx.forks(alts)
@model(r'^<(?:' + MAPTY + r'|(?:indexmap::)?IndexSet|(?:std::collections::)?HashSet)<.*> as Clone>::clone$')
def m_map_clone(ctx): return ctx.ret(ctx.deref(ctx.args[0]))
@model(r'^(?:' + MAPTY + r'|(?:indexmap::)?IndexSet|(?:std::collections::)?HashSet)::<.*>::retain::<.*>$')
def m_map_retain(ctx):
    r = ctx.args[0]; m = ctx.deref(r); eng = ctx.eng; dst, tgt = ctx.dst, ctx.tgt; clo = ctx.args[1]
    is_set = bool(re.match(r'^(?:(?:indexmap::)?IndexSet|(?:std::collections::)?HashSet)::', ctx.callee))
    if not isinstance(m, MapV): raise EngineError(f'retain on {m!r}')
    entries = m.entries
    def loop(st, fr, i, kept):
        if i == len(entries):
            eng.write_ref(st, r, MapV(kept, m.hashed)); return _finish(eng, st, fr, dst, tgt, UNIT)
        k, v = entries[i]
        kc = st.alloc(k); vc = st.alloc(v)
        args = (Ref(kc, ()),) if is_set else (Ref(kc, ()), Ref(vc, ()))
        def after(eng_, s3, f3, kd, rv):
            b = eng_.term(rv, 'bool'); v2 = s3.heap[vc]
            return ('forks', [(b, lambda s4, f4: loop(s4, f4, i + 1, kept + ((k, v2),))), (Not(b), lambda s4, f4: loop(s4, f4, i + 1, kept))])
        return call_closure(eng, st, fr, clo, args, after)
    return loop(ctx.st, ctx.fr, 0, ())

# ---------------------------------------------------------------------------- chars of a str (UTF-8 decoding over the byte view)

from .models import byte_at, substr

def utf8_width_at(v, p):
    b0 = byte_at(v, p)
    return If(ULT(b0, BitVecVal(0x80, 8)), bv64(1), If(ULT(b0, BitVecVal(0xE0, 8)), bv64(2), If(ULT(b0, BitVecVal(0xF0, 8)), bv64(3), bv64(4))))
def utf8_decode_at(v, p):
    """scalar value (BV32) of the char starting at view-relative byte position p (the view is assumed valid UTF-8)"""
    z = lambda b: z3.ZeroExt(24, b)
    b0 = z(byte_at(v, p)); b1 = z(byte_at(v, p + 1)); b2 = z(byte_at(v, p + 2)); b3 = z(byte_at(v, p + 3))
    m = lambda x, k: x & BitVecVal(k, 32)
    c1 = b0
    c2 = (m(b0, 0x1F) << 6) | m(b1, 0x3F)
    c3 = (m(b0, 0x0F) << 12) | (m(b1, 0x3F) << 6) | m(b2, 0x3F)
    c4 = (m(b0, 0x07) << 18) | (m(b1, 0x3F) << 12) | (m(b2, 0x3F) << 6) | m(b3, 0x3F)
    return If(ULT(b0, BitVecVal(0x80, 32)), c1, If(ULT(b0, BitVecVal(0xE0, 32)), c2, If(ULT(b0, BitVecVal(0xF0, 32)), c3, c4)))
def utf8_prev_width(v, p):
    """width of the char ending at byte position p (p > 0)"""
    cont = lambda b: (b & BitVecVal(0xC0, 8)) == BitVecVal(0x80, 8)
    return If(Not(cont(byte_at(v, p - 1))), bv64(1), If(Not(cont(byte_at(v, p - 2))), bv64(2), If(Not(cont(byte_at(v, p - 3))), bv64(3), bv64(4))))

def utf8_valid(v):
    """exact UTF-8 well-formedness of the bytes of view v (capacity-bounded unrolling of the standard DFA)"""
    need = BitVecVal(0, 8)      # continuation bytes still expected
    lo = BitVecVal(0x80, 8); hi = BitVecVal(0xBF, 8)      # allowed range of the next continuation byte
    okc = BoolVal(True)
    n = len(v.buf)
    for k in range(n):
        kk = bv64(k); act = ULT(kk, v.len); b = byte_at(v, kk)
        B = lambda x: BitVecVal(x, 8)
        is_cont_ok = And(UGE(b, lo), ULE(b, hi))
        start_ok = Or(ULT(b, B(0x80)), And(UGE(b, B(0xC2)), ULE(b, B(0xF4))))
        step_ok = If(need == B(0), start_ok, is_cont_ok)
        okc = And(okc, Or(Not(act), step_ok))
        new_need = If(need == B(0), If(ULT(b, B(0x80)), B(0), If(ULT(b, B(0xE0)), B(1), If(ULT(b, B(0xF0)), B(2), B(3)))), need - B(1))
        new_lo = If(need == B(0), If(b == B(0xE0), B(0xA0), If(b == B(0xF0), B(0x90), B(0x80))), B(0x80))
        new_hi = If(need == B(0), If(b == B(0xED), B(0x9F), If(b == B(0xF4), B(0x8F), B(0xBF))), B(0xBF))
        need = If(act, new_need, need); lo = If(act, new_lo, lo); hi = If(act, new_hi, hi)
    return simplify(And(okc, need == BitVecVal(0, 8)))

@model(r'^core::str::<impl str>::(char_indices|chars)$')
def m_chars(ctx):
    v = as_str(ctx, ctx.args[0])
    return ctx.ret(It('chars', v, (bv64(0), v.len), ctx.callee.endswith('char_indices')))

def _chars_pull(eng, st, fr, it, cont, back=False):
    v = it.a; front, bk = it.b; idx = it.c
    def some(s2, f2):
        if not back:
            w = utf8_width_at(v, front); ch = utf8_decode_at(v, front)
            item = Agg((front, ch)) if idx else ch
            return cont(s2, f2, item, It('chars', v, (simplify(front + w), bk), idx))
        w = utf8_prev_width(v, bk); p = simplify(bk - w); ch = utf8_decode_at(v, p)
        item = Agg((p, ch)) if idx else ch
        return cont(s2, f2, item, It('chars', v, (front, p), idx))
    return ('forks', [(front == bk, lambda s2, f2: cont(s2, f2, None, it)), (front != bk, some)])

def _bytes_pull(eng, st, fr, it, cont):
    v = it.a; p = it.b
    if p >= len(v.buf): return ('forks', [(UGT(v.len, bv64(p)), ('bound', 'byte slice longer than its capacity')), (ULE(v.len, bv64(p)), lambda s2, f2: cont(s2, f2, None, it))])
    item = byte_at(v, bv64(p))
    return ('forks', [(UGT(v.len, bv64(p)), lambda s2, f2: cont(s2, f2, item, It('bytes', v, p + 1))),
                      (ULE(v.len, bv64(p)), lambda s2, f2: cont(s2, f2, None, it))])

_pull0 = pull
def pull(eng, st, fr, it, cont):
    if it.kind == 'chars': return _chars_pull(eng, st, fr, it, cont)
    if it.kind == 'bytes': return _bytes_pull(eng, st, fr, it, cont)
    return _pull0(eng, st, fr, it, cont)

@model(r'^<(?:std::str::|core::str::)?(?:CharIndices|Chars)<.*> as DoubleEndedIterator>::next_back$')
def m_chars_next_back(ctx):
    r = ctx.args[0]; it = ctx.deref(r); dst, tgt = ctx.dst, ctx.tgt
    def cont(st, fr, item, ni):
        ctx.eng.write_ref(st, r, ni)
        return _finish(ctx.eng, st, fr, dst, tgt, none() if item is None else some(item))
    return _chars_pull(ctx.eng, ctx.st, ctx.fr, it, cont, back=True)

@model(r'^(?:(?:core::)?char::methods::<impl char>|char)::len_utf8$')
def m_len_utf8(ctx):
    c = ctx.term(ctx.args[0], 'char'); B = lambda x: BitVecVal(x, 32)
    return ctx.ret(If(ULT(c, B(0x80)), bv64(1), If(ULT(c, B(0x800)), bv64(2), If(ULT(c, B(0x10000)), bv64(3), bv64(4)))))
@model(r'^(?:(?:core::)?char::methods::<impl char>|char)::is_control$')
def m_is_control(ctx):
    c = ctx.term(ctx.args[0], 'char'); B = lambda x: BitVecVal(x, 32)
    return ctx.ret(Or(ULE(c, B(0x1F)), And(UGE(c, B(0x7F)), ULE(c, B(0x9F)))))

@model(r'^<(?:std::option::)?Option<.*> as PartialEq>::(eq|ne)$|^<\(.*\) as PartialEq>::(eq|ne)$|^<&(?:std::option::)?Option<.*> as PartialEq>::(eq|ne)$')
def m_generic_eq(ctx):
    e = val_eq(ctx.eng, ctx.st, ctx.args[0], ctx.args[1])
    return ctx.ret(Not(e) if ctx.callee.endswith('::ne') else e)

# ---------------------------------------------------------------------------- generic PartialEq plumbing (after the specific models)

def _ret_bool(ctx, neg):
    dst, tgt = ctx.dst, ctx.tgt
    if isinstance(ctx, __import__('m2s.engine', fromlist=['CtxK']).CtxK):
        outer = ctx
        return lambda eng, st, fr, kd, rv: outer.after(eng, st, fr, outer.kdata, (Not(eng.term(rv, 'bool')) if neg else rv))
    return lambda eng, st, fr, kd, rv: _finish(eng, st, fr, dst, tgt, (Not(eng.term(rv, 'bool')) if neg else rv))

@model(r'^<&(?:mut )?(.*) as PartialEq(?:<.*>)?>::(eq|ne)$')
def m_ref_eq(ctx):
    """`&A == &B` compares the referents"""
    m = re.match(r'^<&(?:mut )?(.*) as PartialEq(?:<.*>)?>::(eq|ne)$', ctx.callee, re.S)
    inner = m.group(1).strip(); op = m.group(2)
    a = ctx.args[0]; b = ctx.args[1]
    a1 = ctx.eng.read_ref(ctx.st, a) if isinstance(a, Ref) else a
    b1 = ctx.eng.read_ref(ctx.st, b) if isinstance(b, Ref) else b
    return ctx.eng.call_by_name(ctx.st, ctx.fr, f'<{inner} as PartialEq>::eq', (a1, b1), _ret_bool(ctx, op == 'ne'))

@model(r'^<(.*) as PartialEq(?:<.*>)?>::ne$')
def m_default_ne(ctx):
    """`ne` is the provided method: !eq"""
    m = re.match(r'^<(.*) as PartialEq(?:<.*>)?>::ne$', ctx.callee, re.S)
    return ctx.eng.call_by_name(ctx.st, ctx.fr, f'<{m.group(1).strip()} as PartialEq>::eq', ctx.args, _ret_bool(ctx, True))

@model(r'^<id_arena::Id<.*> as PartialEq>::eq$')
def m_id_eq(ctx):
    a = ctx.deref(ctx.args[0]); b = ctx.deref(ctx.args[1])
    def parts(x):
        if isinstance(x, Lazy): return x.kid('0', 'usize').scalar('usize'), x.kid('1', 'u32').scalar('u32')
        if isinstance(x, Agg): return ctx.term(x.f[0], 'usize'), ctx.term(x.f[1], 'u32')
        raise EngineError(f'id_arena::Id value {x!r}')
    ai, aa = parts(a); bi, ba = parts(b)
    return ctx.ret(And(ai == bi, aa == ba))

@model(r'^(?:(?:core::)?char::methods::<impl char>|char)::(is_ascii_control|is_ascii|is_ascii_digit|is_ascii_alphabetic|is_ascii_alphanumeric|is_ascii_lowercase|is_ascii_uppercase|is_ascii_whitespace|is_ascii_punctuation|is_ascii_graphic|is_ascii_hexdigit)$')
def m_char_ascii_pred(ctx):
    what = ctx.callee.rsplit('::', 1)[1]
    c = ctx.term(ctx.deref(ctx.args[0]), 'char'); B = lambda x: BitVecVal(x, 32)
    rng = lambda a, b: And(UGE(c, B(a)), ULE(c, B(b)))
    lower = rng(0x61, 0x7a); upper = rng(0x41, 0x5a); digit = rng(0x30, 0x39)
    r = {'is_ascii_control': Or(ULE(c, B(0x1f)), c == B(0x7f)), 'is_ascii': ULE(c, B(0x7f)), 'is_ascii_digit': digit,
         'is_ascii_alphabetic': Or(lower, upper), 'is_ascii_alphanumeric': Or(lower, upper, digit), 'is_ascii_lowercase': lower, 'is_ascii_uppercase': upper,
         'is_ascii_whitespace': Or(c == B(0x20), c == B(0x09), c == B(0x0a), c == B(0x0c), c == B(0x0d)),
         'is_ascii_punctuation': Or(rng(0x21, 0x2f), rng(0x3a, 0x40), rng(0x5b, 0x60), rng(0x7b, 0x7e)), 'is_ascii_graphic': rng(0x21, 0x7e),
         'is_ascii_hexdigit': Or(digit, rng(0x41, 0x46), rng(0x61, 0x66))}[what]
    return ctx.ret(r)

@model(r'^core::slice::<impl \[.*\]>::get::<usize>$|^(?:std::vec::)?Vec::<.*>::get::<usize>$')
def m_slice_get(ctx):
    r = ctx.args[0]; v = ctx.deref(r); i = ctx.term(ctx.args[1], 'usize')
    if isinstance(v, VecV):
        alts = []
        for k in range(len(v.items)):
            alts.append((i == bv64(k), some(Ref(r.base, r.path + (('i', k),)) if isinstance(r, Ref) and isinstance(r.base, int) else v.items[k])))
        alts.append((UGE(i, bv64(len(v.items))), none()))
        return ctx.forks(alts)
    return NotImplemented
