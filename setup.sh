#!/bin/bash
# Offline setup: MIR dumps of the four wac crates (content-addressed cache) and the native replay crate.
set -e
cd "$(dirname "$0")"
export CARGO_NET_OFFLINE=true
mkdir -p .cache evidence out
[ -f replay/Cargo.lock ] || cp /repo/Cargo.lock replay/Cargo.lock
python3-vt m2s/mirdump.py wac-types wac-graph wac-parser wac-resolver
(cd replay && RUSTFLAGS="--cfg wac_verif" CARGO_TARGET_DIR=/verif/.cache/replay-target cargo build --offline -q)
[ -f fsreplay/Cargo.lock ] || cp replay/Cargo.lock fsreplay/Cargo.lock
python3-vt m2s/mirdump.py wac-resolver+wat wac-resolver+wit
for f in none wat wit; do
  (cd fsreplay && CARGO_TARGET_DIR=/verif/.cache/fsreplay-target-$f cargo build --offline -q $( [ $f != none ] && echo --features $f ))
done
echo setup ok
