"""The lexical rules of WAC as data: extraction of the logos attributes from lexer.rs, a parser for the regex subset they use,
two back ends: (a) z3 `re` terms (language equivalence queries, LEX), (b) a byte-level DFA whose run over a symbolic byte
buffer is encoded as a z3 formula (membership constraints inside M2S queries)."""
import re, os, itertools
import z3

def extract(lexer_rs):
    src = open(lexer_rs).read()
    subs = dict(re.findall(r'#\[logos\(subpattern (\w+) = r"([^"]*)"\)\]', src))
    skip = re.findall(r'#\[logos\(skip r"([^"]*)"\)\]', src)
    tok_src = src[src.index('pub enum Token'):src.index('impl fmt::Display for Token')]
    rules = []
    for m in re.finditer(r'#\[(regex|token)\((r?"(?:[^"\\]|\\.)*")(?:, ([^\]]*))?\)\]\s*(\w+)', tok_src):
        kind, lit, cb, name = m.groups()
        body = lit[2:-1] if lit.startswith('r') else lit[1:-1].replace('\\"', '"').replace('\\\\', '\\')
        rules.append(dict(kind=kind, pattern=body, callback=cb, name=name))
    return dict(subpatterns=subs, skip=skip, rules=rules)

# ---- regex AST: ('lit', bytes) | ('class', frozenset of byte values) | ('cat', [..]) | ('alt', [..]) | ('star', x) | ('plus', x) | ('opt', x)
ESC = {'n': 10, 't': 9, 'r': 13, 'f': 12}
def parse(p, subs):
    pos = 0
    def alt():
        nonlocal pos
        items = [seq()]
        while pos < len(p) and p[pos] == '|':
            pos += 1; items.append(seq())
        return ('alt', items) if len(items) > 1 else items[0]
    def seq():
        nonlocal pos
        items = []
        while pos < len(p) and p[pos] not in '|)':
            items.append(post())
        return ('cat', items) if len(items) != 1 else items[0]
    def post():
        nonlocal pos
        a = atom()
        while pos < len(p) and p[pos] in '?*+':
            a = ({'?': 'opt', '*': 'star', '+': 'plus'}[p[pos]], a); pos += 1
        return a
    def cls():
        nonlocal pos
        neg = False
        if p[pos] == '^': neg = True; pos += 1
        s = set()
        while p[pos] != ']':
            c = p[pos]
            if c == '\\':
                pos += 1; c = chr(ESC.get(p[pos], ord(p[pos])))
            pos += 1
            if p[pos] == '-' and p[pos + 1] != ']':
                hi = p[pos + 1]; pos += 2
                if hi == '\\': hi = chr(ESC.get(p[pos], ord(p[pos]))); pos += 1
                s |= set(range(ord(c), ord(hi) + 1))
            else: s.add(ord(c))
        pos += 1
        if neg: s = set(range(256)) - s          # byte-level complement (non-ASCII bytes included, as logos does for UTF-8 continuation)
        return ('class', frozenset(s))
    def atom():
        nonlocal pos
        c = p[pos]
        if c == '(':
            if p.startswith('(?&', pos):
                j = p.index(')', pos); name = p[pos + 3:j]; pos = j + 1
                return parse(subs[name], subs)
            pos += 1; a = alt(); assert p[pos] == ')', (p, pos); pos += 1; return a
        if c == '[':
            pos += 1; return cls()
        if c == '\\':
            pos += 2; return ('class', frozenset([ESC.get(p[pos - 1], ord(p[pos - 1]))]))
        if c == '.':
            pos += 1; return ('class', frozenset(set(range(256)) - {10}))
        pos += 1; return ('class', frozenset([ord(c)]))
    r = alt(); assert pos == len(p), (p, pos); return r

def lit(s): return ('cat', [('class', frozenset([b])) for b in s.encode()])

# ---- back end (a): z3 re over strings (one char per byte; queries restrict strings to ASCII)
def to_z3re(ast):
    k = ast[0]
    if k == 'class':
        s = sorted(x for x in ast[1] if x < 128)
        if not s: return z3.Empty(z3.ReSort(z3.StringSort()))
        # compress into ranges
        parts = []; a = s[0]; prev = s[0]
        for x in s[1:] + [None]:
            if x is not None and x == prev + 1: prev = x; continue
            parts.append(z3.Range(chr(a), chr(prev)) if prev > a else z3.Re(z3.StringVal(chr(a))))
            if x is not None: a = prev = x
        return z3.Union(*parts) if len(parts) > 1 else parts[0]
    if k == 'cat':
        if not ast[1]: return z3.Re(z3.StringVal(''))
        xs = [to_z3re(x) for x in ast[1]]; return z3.Concat(*xs) if len(xs) > 1 else xs[0]
    if k == 'alt':
        xs = [to_z3re(x) for x in ast[1]]; return z3.Union(*xs)
    if k == 'star': return z3.Star(to_z3re(ast[1]))
    if k == 'plus': return z3.Plus(to_z3re(ast[1]))
    if k == 'opt': return z3.Option(to_z3re(ast[1]))
    raise ValueError(ast)

# ---- back end (b): DFA over bytes
class DFA:
    def __init__(s, trans, accept, classes):
        s.trans = trans          # state -> {class index -> state}
        s.accept = accept        # set of accepting states
        s.classes = classes      # list of frozensets partitioning 0..255
        s.n = len(trans)

def to_dfa(ast):
    # Thompson NFA
    trans = []      # list of (src, set_or_None, dst)
    cnt = itertools.count()
    def build(a):
        k = a[0]
        s_, e = next(cnt), next(cnt)
        if k == 'class': trans.append((s_, a[1], e))
        elif k == 'cat':
            cur = s_
            for x in a[1]:
                xs, xe = build(x); trans.append((cur, None, xs)); cur = xe
            trans.append((cur, None, e))
        elif k == 'alt':
            for x in a[1]:
                xs, xe = build(x); trans.append((s_, None, xs)); trans.append((xe, None, e))
        elif k in ('star', 'plus', 'opt'):
            xs, xe = build(a[1]); trans.append((s_, None, xs)); trans.append((xe, None, e))
            if k in ('star', 'opt'): trans.append((s_, None, e))
            if k in ('star', 'plus'): trans.append((xe, None, xs))
        return s_, e
    start, end = build(ast)
    n = next(cnt)
    eps = {i: set() for i in range(n)}; moves = {i: [] for i in range(n)}
    sets = set()
    for a, c, b in trans:
        if c is None: eps[a].add(b)
        else: moves[a].append((c, b)); sets.add(c)
    def closure(S):
        st = list(S); seen = set(S)
        while st:
            x = st.pop()
            for y in eps[x]:
                if y not in seen: seen.add(y); st.append(y)
        return frozenset(seen)
    # alphabet partition
    sig = {}
    for b in range(256):
        key = tuple(sorted(id(c) for c in sets if b in c)); sig.setdefault(key, set()).add(b)
    classes = [frozenset(v) for v in sig.values()]
    d0 = closure({start}); states = {d0: 0}; work = [d0]; dtrans = {0: {}}
    while work:
        S = work.pop(); si = states[S]
        for ci, cl in enumerate(classes):
            rep = next(iter(cl)); T = set()
            for x in S:
                for c, b in moves[x]:
                    if rep in c: T.add(b)
            if not T: continue
            T = closure(T)
            if T not in states:
                states[T] = len(states); dtrans[states[T]] = {}; work.append(T)
            dtrans[si][ci] = states[T]
    accept = {i for S, i in states.items() if end in S}
    return DFA(dtrans, accept, classes)

def member(dfa, bytes_, length):
    """z3 formula: the first `length` (BV64 term) bytes of the list of BV8 terms are accepted by the DFA"""
    from z3 import BitVecVal, If, And, Or, ULT, BoolVal
    DEAD = dfa.n
    st = BitVecVal(0, 8)
    def cls_of(b):
        r = BitVecVal(len(dfa.classes), 8)       # no class: dead
        for ci, cl in enumerate(dfa.classes):
            s = sorted(cl); rngs = []; a = prev = s[0]
            for x in s[1:] + [None]:
                if x is not None and x == prev + 1: prev = x; continue
                rngs.append((a, prev))
                if x is not None: a = prev = x
            cond = Or([And(z3.UGE(b, BitVecVal(lo, 8)), z3.ULE(b, BitVecVal(hi, 8))) if hi > lo else b == BitVecVal(lo, 8) for lo, hi in rngs])
            r = If(cond, BitVecVal(ci, 8), r)
        return r
    for k, b in enumerate(bytes_):
        act = ULT(z3.BitVecVal(k, 64), length)
        c = cls_of(b)
        nxt = BitVecVal(DEAD, 8)
        for si, row in dfa.trans.items():
            for ci, ti in row.items():
                nxt = If(And(st == BitVecVal(si, 8), c == BitVecVal(ci, 8)), BitVecVal(ti, 8), nxt)
        st = If(act, nxt, st)
    return Or([st == BitVecVal(a, 8) for a in dfa.accept]) if dfa.accept else BoolVal(False)

def accepts(dfa, data):
    st = 0
    for b in data:
        ci = next((i for i, c in enumerate(dfa.classes) if b in c), None)
        if ci is None or ci not in dfa.trans[st]: return False
        st = dfa.trans[st][ci]
    return st in dfa.accept
