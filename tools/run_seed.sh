#!/bin/bash
# usage: tools/run_seed.sh <seed dir name e.g. C15-1> [check id (default: property of the seed)] [tier]
S="$1"; P="${2:-${S%%-*}}"; T="${3:-quick}"
cd /repo && git apply /verif/seeded/$S/patch.diff || { echo "apply failed"; exit 9; }
cd /verif && ./check "$P" --tier "$T" > /tmp/seeds/check_$S.$P.log 2>&1; rc=$?
git -C /repo checkout -- .
echo "SEED $S check=$P tier=$T rc=$rc"; grep -E "VIOLATION|INCONCLUSIVE|KNOWN" /tmp/seeds/check_$S.$P.log | cut -c1-260 | head -4
