#!/bin/bash
# usage: tools/confirm_seed.sh <PROP> <n>    (uses /tmp/seeds/wt_<PROP>, /tmp/seeds/out_<PROP>/mutant<n>.diff + demo<n>.rs)
# confirms: demo passes on clean tree, fails with patch; test suite identical with patch. Writes /verif/seeded/<PROP>-<n>/
P="$1"; N="$2"; WT=/tmp/seeds/wt_$P; OUT=/tmp/seeds/out_$P; D=/verif/seeded/$P-$N
export CARGO_NET_OFFLINE=true
set -o pipefail
cd "$WT" || exit 9
git checkout -q -- . && git clean -fdq -e target
demo="$OUT/demo$N.rs"; patch="$OUT/mutant$N.diff"
# where does the demo go?  look for a path ending in .rs under crates/ in the header comment
place=$(grep -m1 -oE '(crates|src|examples)/[A-Za-z0-9_/.-]+\.rs' "$demo")
cmd=$(grep -m1 -oE 'cargo test [^`*]*' "$demo" | sed 's/[[:space:]]*$//')
[ -z "$place" ] && { echo "cannot find placement in $demo"; exit 8; }
echo "placement: $place ; cmd: $cmd"
mkdir -p "$(dirname "$place")" && cp "$demo" "$place"
summ() { grep -E '^test result|^test .* (FAILED|failed)|passed|error: test failed' | sed 's/finished in .*//' ; }
echo "== demo on clean tree"; (eval "$cmd" 2>&1 | summ | tail -5); r_clean=${PIPESTATUS[0]}
eval "$cmd" >/dev/null 2>&1; r_clean=$?
git apply "$patch" || { echo "patch does not apply"; exit 7; }
echo "== demo with patch"; eval "$cmd" > /tmp/seeds/demo_$P$N.log 2>&1; r_mut=$?; summ < /tmp/seeds/demo_$P$N.log | tail -5
rm -f "$place"
echo "== suite with patch"; cargo test --workspace --no-fail-fast --offline 2>&1 | summ | sort | uniq -c > /tmp/seeds/suite_mut_$P$N.txt
git checkout -q -- . && git clean -fdq -e target
if [ ! -f /tmp/seeds/suite_base.txt ]; then cargo test --workspace --no-fail-fast --offline 2>&1 | summ | sort | uniq -c > /tmp/seeds/suite_base.txt; fi
if diff -q /tmp/seeds/suite_base.txt /tmp/seeds/suite_mut_$P$N.txt >/dev/null; then suite=same; else suite=DIFFERENT; diff /tmp/seeds/suite_base.txt /tmp/seeds/suite_mut_$P$N.txt | head; fi
echo "RESULT $P-$N demo_clean_rc=$r_clean demo_mut_rc=$r_mut suite=$suite"
if [ "$r_clean" = 0 ] && [ "$r_mut" != 0 ] && [ "$suite" = same ]; then
  mkdir -p "$D" && cp "$patch" "$D/patch.diff" && cp "$demo" "$D/demo.rs" && cp "$OUT/notes.md" "$D/notes.md"
  echo "{\"placement\": \"$place\", \"cmd\": \"$cmd\", \"demo_clean_rc\": $r_clean, \"demo_mut_rc\": $r_mut, \"suite\": \"$suite\"}" > "$D/confirm.json"
  echo CONFIRMED
else echo NOT-CONFIRMED; fi
