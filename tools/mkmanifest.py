#!/usr/bin/env python3
"""Regenerates /verif/MANIFEST.json from the table below (kept in one place so the manifest is always valid)."""
import json, os, subprocess
HERE = os.path.dirname(os.path.dirname(os.path.abspath(__file__)))

HOOK_COMMITS = subprocess.run(['git', '-C', '/repo', 'log', '--format=%h %s', '--grep', '^verif hook'], stdout=subprocess.PIPE, text=True).stdout.strip().split('\n')
HOOK_COMMITS = [c.split(' ')[0] for c in HOOK_COMMITS if c]

CLAIMED = {
 'C15': dict(
    technique='symbolic execution of rustc MIR (M2S) + z3 bit-vector queries; counterexamples replayed natively',
    text='Bounded solver verdicts over the real MIR of alternate_lookup_key, are_semver_compatible and NameMap::{insert,get}: no panic and '
         'agreement with the semver-track specification for every ASCII name up to the stated length; NameMap histories of up to 3/4 inserts '
         'with all orders, over abstract names (assume-guarantee on the key function). Bounded, not a proof.',
    note='Trusted: the MIR printer of the pinned nightly, the M2S executor, the semver parse model (validated natively each run), the IndexMap '
         'association-list model, z3. Names are ASCII; lengths bounded as written in the evidence.',
    design='DESIGN.md section 3 / C15'),
}

CLAIMED['C14'] = dict(
    technique='symbolic execution of rustc MIR (M2S) + z3 bit-vector queries over symbolic UTF-8 sources; counterexamples replayed through the public lexer API',
    text='Bounded solver verdicts over the real MIR of the span/slicing kernels of the front end: Lexer::span + to_source_span under the logos '
         'contract (every span inside the source and on char boundaries, all valid UTF-8 sources up to the stated length), detect_invalid_input '
         '(rejects exactly the first forbidden code point with its exact span), helpers::block_comment_length (= reference nesting counter, no '
         'overflow). Whole-pipeline crash freedom (parser productions, resolver, decoder, encoder) is NOT claimed.',
    note='Trusted: logos contract (0<=start<=end<=len on char boundaries), UTF-8 decoding model, z3. Kernel-level claim only; bounds in the evidence.',
    design='DESIGN.md section 3 / C14')

CLAIMED['C07'] = dict(
    technique='symbolic execution of rustc MIR (M2S) with assume-guarantee per rule: callee verdicts are uninterpreted predicates, z3 decides verdict == reference rule; models replayed through the real SubtypeChecker',
    text='For every rule function of SubtypeChecker (is_subtype_, ty, func, instance_exports, interface, world, module, core_extern, core_func, '
         'value_type, defined_type, result, enum_type, flags, record, variant, tuple, payload, primitive, resource) plus the memo wrapper and '
         'Types::resolve_value_type: on all lazily instantiated inputs with collections up to K entries, the verdict equals the reference '
         'component-model rule over the sub-verdicts, with no reachable panic. By induction on depth this fixes the implemented relation for '
         'types of any depth. Agreement of the reference rules with wasmparser, and resources beyond same-name, are outside the claim.',
    note='Trusted: reference rules in specs/c07.py (validated on Ok/Err witnesses against the real checker each run), M2S, z3, derive(PartialEq) of core types as uninterpreted equalities.',
    design='DESIGN.md section 3 / C07')

CLAIMED['C17'] = dict(
    technique='symbolic execution of rustc MIR (M2S) over a lazily instantiated AST; reference positions derived from the AST type declarations; z3 decides reachability of an execution that misses a position',
    text='For every access path from Document to a PackagePath/PackageName (derived mechanically from the struct/enum declarations of '
         'wac-parser/src/ast on every run, recursive types repeated up to D times): on every execution of PackageVisitor::visit over a document '
         'having a reference at that position (as first element, and as second element behind a same-shaped sibling, for every vector on the '
         'path) the callback receives that package; `new <own package>` is rejected at every position; the packages() callback skips the own '
         'package and records every other one. Templates per position are replayed through Document::parse + wac_resolver::packages.',
    note='Trusted: M2S, z3, the callback returns true; expression nesting deeper than 3 is outside the claim (cut paths are counted). The second half of the property (resolution with exactly the discovered set) is outside.',
    design='DESIGN.md section 3 / C17')

CLAIMED['C09'] = dict(
    technique='symbolic execution of rustc MIR (M2S): one inductive step of TypeAggregator::aggregate from an arbitrary state satisfying the naming invariant; merge rule with an uninterpreted preorder; z3 queries; native replay through TypeAggregator',
    text='(1) aggregate() naming/redirect step: from every state with <= K imports and <= R redirects satisfying the naming invariant (one import per '
         'semver track, redirects end at imports of the same track that are not lower) and every new name, the invariant is preserved, every old name '
         'still resolves to an import, the canonical name of the new name is the highest on its track, errors only when the opaque merge fails - hence '
         'for histories of any length. (2) find_semver_compatible_import on real strings = the semver-track relation. (3) merge_interface export rule: '
         'merged exports satisfy both contributors for an arbitrary preorder <: (known finding: the wider type of a nested instance export is kept). '
         'remap_* deep copies, merge_world, merge_module_type and used-type merging are outside the claim.',
    note='Trusted: alternate_lookup_key contract (C15), M2S, z3, IndexMap/HashMap association-list models. Names differing only in build metadata are outside the naming-step claim.',
    design='DESIGN.md section 3 / C09')

CLAIMED['C06'] = dict(
    technique='symbolic execution of rustc MIR (M2S) of each graph operation from an ARBITRARY bounded graph state satisfying a representation invariant (one inductive step), StableGraph / map models, z3; counterexamples rebuilt through the public API and replayed against the invariant hook',
    text='For remove_node, unexport, export, import, set/unset_instantiation_argument, alias_instance_export, unregister_package, define_type, '
         'instantiate and set_node_name: from every graph state within the bounds (node/edge slots, map entries, argument indexes, packages) that satisfies the '
         'representation invariant RI, with arbitrary live arguments: no panic, RI holds afterwards, and the documented effect / error condition '
         'holds. One inductive step covers histories of any length made of these operations. Four genuine defects found this way were repaired '
         '(fix: commits, see known_findings.json). register_package and "the graph still encodes" are outside the claim; node names are not part of the state view (set_node_name: no panic, RI and liveness preserved).',
    note='Trusted: RI as written in specs/c06.py (its clauses are also checked natively by the hook on every realised pre-state), petgraph/IndexMap/HashMap/HashSet models, '
         'uninterpreted types arena, subtype verdicts and name validity; stated realisability restrictions on pre-states; z3.',
    design='DESIGN.md section 3 / C06')

CLAIMED['C18'] = dict(
    technique='symbolic execution of rustc MIR (M2S) of FileSystemPackageResolver::resolve for three feature sets, the file system being uninterpreted functions of symbolic paths; z3 decides outcome == documented decision table; models replayed on real directory trees',
    text='For every file-system state (kind and readability of every candidate path as uninterpreted functions), every key shape (1-3 name '
         'segments, with / without version), override present / absent / dangling / of any extension, both unknown-package modes and the '
         'feature sets none / wat / wit: the outcome of resolve (which error, skipped, or the content of exactly which path, converted or not) '
         'equals the documented decision table; in particular the extension is appended to a version, `.wat` wins over `.wasm`, overrides apply '
         'to unversioned keys only. One key per call. WIT/WAT parsing is opaque.',
    note='Trusted: path model (components of dot-separated tokens), std::path / std::fs models, M2S, z3. Each witness and counterexample is replayed natively on a real temp directory with the resolver built with the same feature.',
    design='DESIGN.md section 3 / C18')

CLAIMED['C12'] = dict(
    technique='LEX: logos token rules extracted from lexer.rs as z3 regular expressions, language-equivalence queries against the reference lexical grammar; M2S symbolic execution of the lexical helper functions with token texts constrained by the DFA of the extracted rule',
    text='Lexical layer only: (1) the languages of the Ident / PackageName / PackagePath / line-comment rules equal the reference lexical grammar on all '
         'ASCII strings up to the stated length; the #[token] literals are exactly the grammar terminals, each keyword lies in L(id); the skip rule is '
         'whitespace on screened input; no rule matches the empty string. (2) detect_invalid_input rejects exactly the first forbidden code point; '
         'block_comment_length = nested-comment reference; helpers::string ends at the first quote. (3) PackagePath::parse / PackageName::parse split '
         'every token text of the rule language into the documented name / segments / version and reject exactly invalid semver with a span inside '
         'the token. The recursive-descent productions (acceptance of exactly the EBNF, tree shape, one-token-away rejection) are NOT claimed.',
    note='Trusted: logos implements longest match with token-over-regex priority for the rules it is given; the reference lexical grammar in specs/c12.py (WIT-style identifier words); semver automaton (validated in C15); z3 re theory.',
    design='DESIGN.md section 3 / C12')

CLAIMED['C11'] = dict(
    technique='symbolic execution of rustc MIR (M2S) of both target-conformance checks with an uninterpreted subtype relation and contract-level NameMap; z3 decides verdict == conformance predicate',
    text='wac_types::validate_target (binary check) and AstResolver::validate_target (resolution-time check): for every world and component with up to K imports / '
         'exports, arbitrary name identities and semver tracks, arbitrary sub-verdicts of `<:` and one implicitly imported interface, the verdict is Ok exactly when '
         'every component import is offered by the world (explicitly or through a used interface) with promote(world kind) <: import kind and every world export is '
         'provided with export kind <: promote(expected); the resolution-time check additionally returns the diagnostic class of the first failure. The binary check uses '
         'semver-aware name lookup (NameMap contract from C15), the resolution-time check exact names - the agreement of the two on versioned names, and agreement with the '
         'reference validator, are outside the claim (DESIGN.md records the observed divergence).',
    note='Trusted: `<:` uninterpreted (C07), NameMap contract (C15), World::implicit_imported_interfaces as an arbitrary input, M2S, z3. Counterexamples of the binary check are replayed through wac_types::validate_target on built Types; those of the resolution-time check are rule-level only.',
    design='DESIGN.md section 3 / C11')

CLAIMED['C04'] = dict(
    technique='symbolic execution of rustc MIR (M2S) of the argument-naming, access and export kernels of AstResolver; z3 decides agreement with the LANGUAGE.md rules; whole documents replayed through Document::parse + resolve',
    text='Kernel-level, bounded: (1) find_matching_interface_name on real byte strings (2 externs, names <= 9/11 bytes over an alphabet containing : / @ . - ): returns '
         'exactly the unique extern whose last path segment with the version stripped equals the identifier, and nothing when an extern has that exact name; '
         '(2) inferred_instantiation_arg and named_instantiation_arg over abstract names: the chosen argument name follows the documented precedence for every '
         'resolver state (interface id, then import / aliased export name, then last-segment match, then the identifier; string names verbatim); '
         '(3) spread_instantiation_arg with <= 2/3 expected imports and bound arguments: fills exactly the unspecified imports the instance exports, in import order, '
         'never overwrites, rejects non-instances and ineffective spreads; (4) new_expr with 1..3/4 arguments of any form: the argument table is the named / inferred '
         'arguments in order followed by the spread additions, duplicates, misplaced `...`, missing arguments and graph errors are reported as documented; '
         '(5) access: postfix_expr selects for `.id` the unique last-segment match among the instance exports, else the export named id, for `["s"]` the export named s '
         'verbatim, reports a missing export / non-instance and aliases nothing else; alias_export aliases exactly the named export of the given instance when its type has it; '
         '(6) export: infer_export_name = interface id of an instance, else import name, else aliased export name, else none; export_item refuses a name bound to a definition '
         'in the root scope, otherwise exports under exactly the given name and maps the graph verdict to duplicate / invalid export name; export_statement uses the inferred '
         'name (ExportRequiresAs when none), the `as` name verbatim, and for `...` exports every instance export not yet exported, in order, under its own name, rejecting a '
         'non-instance and an ineffective spread (instance types with <= 2/3 exports). NOT claimed: type checks inside the graph, implicit imports, import statements, `let` scoping, '
         'type / interface / world declarations; the quantifier over whole documents is replaced by these kernels (sub-resolutions by contract) plus a fixed battery of 27 documents.',
    note='Trusted: M2S, z3, State::local_item / Item::kind / alias_export / expr as arbitrary results, IndexMap association-list model. Documents in the battery are examples, not the claim.',
    design='DESIGN.md section 3 / C04')

CLAIMED['C10'] = dict(
    technique='symbolic execution of rustc MIR (M2S) of plug::plug with the graph API replaced by its contract (assume-guarantee on C06/C07/C15); z3 decides agreement with the documented matching; models realised as components and replayed through wac_graph::plug',
    text='Bounded: for sockets with <= 2 imports / <= 1 export (thorough: 3 / 2) and 1..2 plugs (thorough: up to 4 plugs with one export each, 3 with one, 2 with two) with <= 2 exports each, over abstract names carrying a semver '
         'track and abstract types with an uninterpreted `<:`: on every path of the real plug() MIR, Ok is returned exactly when something is offered, no socket import is '
         'offered twice and no graph call fails; then every offered socket import (exact name, else first semver-compatible import, filtered by `<:`) is supplied by an alias of '
         'exactly the offering export of an instance of exactly that plug, nothing else is supplied, a plug is instantiated once iff it offers something, every socket export is '
         're-exported under its own name from the socket instance; NoPlugHappened iff nothing is offered; two offers for one import give an error. '
         'Validity of the encoded result is observed on the replayed witnesses only.',
    note='Trusted: contracts of instantiate / alias_instance_export / set_instantiation_argument / export (C06 effect postconditions), `<:` uninterpreted (C07), are_semver_compatible = track relation (C15), M2S, z3. Larger sockets and 4 plugs with several exports each are outside the bound.',
    design='DESIGN.md section 3 / C10')

CLAIMED['C16'] = dict(
    technique='relational (2-safety) symbolic execution of rustc MIR (M2S): every std HashMap/HashSet iteration is executed in every order of its entries and z3 refutes "two orders, one input, different observable result"; counterexamples replayed in fresh processes (fresh hash seeds)',
    text='Bounded, for the hash-ordered maps on the composition path: CompositionGraph::define_type (edge list of the graph, <= 2/3 defined types, every RI pre-state), '
         'TypeAggregator::aggregate (imports and redirect function, <= 2/3 redirects), find_semver_compatible_interface (<= 3/4 interfaces, one id per track), '
         'AstResolver::world_include (result and diagnostic), CompositionGraph::imports (listing), spread_instantiation_arg (order of added arguments): the observable '
         'result is the same for all iteration orders. A census of the MIR of the four library crates lists every other hash iteration site with the reason it cannot '
         'influence an output order (retain with a pure predicate; keyed re-insertion); an unlisted site makes the check inconclusive. Whole-pipeline byte equality, '
         'printing and the remaining diagnostics are observed on the replayed scripts only.',
    note='Trusted: M2S, z3, RI of C06 as pre-state of define_type/imports, naming invariant of C09 for aggregate, the census regex over call sites (new iterator adaptors of HashMap would need a new pattern).',
    design='DESIGN.md section 3 / C16')

CLAIMED['C03'] = dict(
    technique='symbolic execution of rustc MIR (M2S) of resolve_imports / imports / encode_imports from arbitrary graph states satisfying the C06 representation invariant; aggregator and emission by contract; z3 decides agreement with the documented import resolution',
    text='Graph-side half of the property, bounded (3/4 node slots, 2 world imports per package, 1/2 packages, <= 2 explicit import nodes, 2/3 aggregated imports): '
         '(A) resolve_imports hands to the aggregator exactly the unsatisfied arguments of live instantiations (node order, world order) followed by the explicit imports, records '
         'them in implicit_imports / explicit_imports, returns ImplicitImportConflict exactly when a required name is an explicit import, ImportTypeMergeConflict exactly when the '
         'aggregator refuses, and never panics; (B) CompositionGraph::imports lists exactly the same requirements (so the two agree); (C) encode_imports emits every aggregated import '
         'once, instances first, and binds every implicit argument and explicit import node to the index of its canonical import; (D) import() reuses an interface that is already imported in the scope, otherwise emits one import of the item\'s own kind under the given name and records it for reuse. Sharing/naming of the aggregated imports is C09. '
         'NOT claimed: the bytes of the import/export sections (ComponentBuilder, TypeEncoder), exports, used-interface imports, independence of node creation order.',
    note='Trusted: RI of C06 as pre-state, contracts of TypeAggregator::{aggregate, imports, canonical_import_name} (C09), `self.import` as an event, M2S, z3. Counterexamples are rule-level (over the MIR); listing witnesses are replayed through the public API.',
    design='DESIGN.md section 9.2 / C03')

CLAIMED['C02'] = dict(
    technique='symbolic execution of rustc MIR (M2S) of the emission functions of CompositionGraphEncoder from arbitrary graph states satisfying the C06 representation invariant and an arbitrary node->index table; every wasm_encoder call is an event; z3 decides agreement of the events with the graph',
    text='Emission contracts, bounded (3/4 node slots, 2/3 edge slots, 2 packages, 2 world imports, 2 instance exports): (A) two instantiations in a row: one embedded/imported component per '
         'package *id* (component_raw with that package\'s bytes, or an import of its component type under its unlocked-dep name), each instantiation uses the component of its own package, its '
         'arguments are exactly the argument edges (import name of the argument index, kind and encoded index of the source node) followed by the recorded implicit arguments; (B) alias: '
         'InstanceExport{instance = encoded index of the alias source, name and kind = the designated export}; (C) encode_names: every named node once, under its encoded index and name, in '
         'the name map handed to the section of its own kind; (D) encode: import nodes go to encode_imports, every other node is emitted once in order by the function of its kind, every '
         'non-definition export is bound to (name, kind, encoded index) of its node in export order; (E) definition: the type is encoded by the encoder of its kind (an alias of an already '
         'exported type reuses its index), exported as a type under the node\'s name, the exported index recorded. NOT claimed: the bytes wasm_encoder produces for these calls, TypeEncoder, '
         '`toposort`, byte-identity of embedded packages beyond the identity of the slice passed.',
    note='Trusted: RI of C06 (plus: argument / alias edge indices are within the import / export lists they were taken from), event models of ComponentBuilder / NameMap / ComponentNameSection, M2S, z3. Counterexamples are rule-level; two fixed scripts (two versions of one package; a named core module) are inspected natively when the matching obligation fails.',
    design='DESIGN.md section 9.2 / C02')

CLAIMED['C08'] = dict(
    technique='symbolic execution of rustc MIR (M2S) of the conversion rules of TypeConverter with assume-guarantee per rule (the wasmparser arena is lazily instantiated from wasmparser\'s own declarations, every other converter is an uninterpreted contract); z3 decides agreement with the documented decoding; real components built from WIT are decoded natively as a cross-check',
    text='First half of the property (decoding), rule level, bounded (collections <= 2/3, alias chains <= 3/4): find_owner returns the owner of the first type on the alias chain that has one; '
         'entity / ty dispatch every kind to the converter of that kind on its own payload; component_val_type keeps primitives by name; component_func_type keeps parameter names, order, '
         'converted types, result and the async flag, and reuses a cached id; component_instance_type / component_type keep entries in order with names and converted entities, set the '
         'identifier only for `ns:pkg/..` names, call the ownership bookkeeping for exactly the type entries with their (referenced, created) ids; component_defined_type maps every constructor '
         'to the constructor of the same meaning with members in order; resource keeps the name and makes a second id of a known resource an alias owned by the owning interface; use_or_own '
         'records first ownership or a `use` of the owning interface with the original name on rename. By induction on type depth this fixes the decoded shape for any depth. NOT claimed: '
         'that wasmparser\'s arena is well formed (validator), core module types, and the second half of the property (re-encoded component types, substitution validity) except one kernel: '
         'TypeEncoder::use_aliases leaves in the scope\'s alias table exactly the used types of the interface being encoded, each aliased from the instance of its owning interface under its original name.',
    note='Trusted: wasmparser struct/enum declarations read from the registry sources, contracts of the sibling converters, arena model of Types::add_*, M2S, z3. Counterexamples are rule-level; two WIT documents (a 3-hop `use` chain with a rename, all value constructors) are decoded by the real Package::from_bytes on every run.',
    design='DESIGN.md section 9.2 / C08')

NOT_APPLICABLE = {
 'C01': 'validity is defined by an external 60 kLoC validator over whole-pipeline output; neither it nor the encoder can be executed symbolically here (DESIGN.md section 4)',
 'C02': 'emission functions interleave graph reads with wasm_encoder builder calls and TypeEncoder recursion; deciding the encoded wiring needs a validated model of the builder index spaces that was not built; graph-side bookkeeping is covered by C06, order by C16 (DESIGN.md 9.6)',
 'C03': 'the encoded import/export sections are produced by the same builder/TypeEncoder path as C02; the reachable halves are decided elsewhere (implicit-import naming and sharing: C09, which catches both C03 seeds; listing order: C16) but the property as stated (exact sections of the output) is not (DESIGN.md 9.6)',
 'C08': 'the converter input is wasmparser\'s validated type arena whose invariants are defined only by the validator; lazily instantiated inputs without them give false alarms, with them require encoding the validator (DESIGN.md 9.6)',
 'C05': 'needs wit-component as reference encoder and the validator subtype relation as comparison; out of reach of symbolic execution (DESIGN.md section 4)',
 'C13': 'round trip runs the logos automaton on printer output; symbolic text through the generated lexer does not terminate in either engine (DESIGN.md section 4)',
 'C19': 'process-level behaviour of an async CLI (argv, files, stdout, exit status); nothing for a solver to quantify over (DESIGN.md section 4)',
 'C20': 'async Warg client, tokio tasks and an HTTP registry; no MIR-level kernel and Kani has no concurrency support (DESIGN.md section 4)',
}
PENDING = 'check not built yet in this round (planned, see DESIGN.md section 3); not claimed until it runs green on the unchanged tree'
ALL = ['C%02d' % i for i in range(1, 21)]

def main():
    checks = []
    for pid, c in sorted(CLAIMED.items()):
        checks.append({
            'property_id': pid,
            'quick_cmd': f'./check {pid} --tier quick',
            'thorough_cmd': f'./check {pid} --tier thorough',
            'evidence_file': f'/verif/evidence/{pid}.json',
            'replay_cmd_template': f'./check {pid} --replay {{path}}',
            'engine': 'm2s',
            'level_claimed': {'category': 'model_checking', 'text': c['text'], 'design_ref': c['design']},
            'level_note': c['note'],
            'technique': c['technique'],
        })
    na = []
    for pid in ALL:
        if pid in CLAIMED: continue
        na.append({'property_id': pid, 'reason': NOT_APPLICABLE.get(pid, PENDING)})
    man = {
        'version': 1,
        'setup_cmd': './setup.sh',
        'hooks': {
            'guard': 'cfg(wac_verif)',
            'enable': 'RUSTFLAGS="--cfg wac_verif" (used only by the native replay crate /verif/replay; the MIR that is verified is dumped WITHOUT the flag)',
            'baseline_off_cmd': 'cd /repo && env -u RUST_BACKTRACE cargo test --workspace --no-fail-fast --offline',
            'source_commits': HOOK_COMMITS,
            'add_only': True,
        },
        'engines': [
            {'name': 'm2s', 'path': '/verif/m2s', 'serves_properties': sorted(CLAIMED), 'kind_free_text': 'symbolic executor for rustc MIR text (-Zunpretty=mir of /repo\'s working tree) producing z3 queries; model library for std/semver/indexmap; native replay of every witness and counterexample'},
        ],
        'checks': checks,
        'not_applicable': na,
        'notes': 'Exit codes of ./check: 0 held within bounds, 1 VIOLATION (reproduced natively), 2 inconclusive (unmodelled call, solver unknown, model mismatch) - never reported as success.',
    }
    json.dump(man, open(os.path.join(HERE, 'MANIFEST.json'), 'w'), indent=1)
    print('wrote MANIFEST.json with', len(checks), 'checks,', len(na), 'not applicable')

if __name__ == '__main__':
    main()
