#!/bin/bash
# usage: tools/try_mutant.sh <property id> <file under /repo> <sed expression>   -- applies, runs quick check, restores
id="$1"; f="$2"; expr="$3"
cd /repo && sed -i "$expr" "$f" && git diff --stat | tail -1
if git diff --quiet; then echo "NO CHANGE"; exit 3; fi
cd /verif && ./check "$id" --tier quick 2>&1 | grep -E "VIOLATION|INCONCLUSIVE|KNOWN|^\[$id\] tier|Error|error" | cut -c1-400 | head -8
git -C /repo checkout -- . 
