#!/usr/bin/env python3
"""Writes /verif/seeded/<id>/meta.json from the table below (what each seeded defect breaks, what it needs, what was run, which check catches it)."""
import json, os
S = {
 'C15-1': ('C15', 'NameMap::insert restores the previous holder of a track with the NEW (lower) version', 'three entries on one track inserted as highest, lower, in-between, then a non-exact lookup', 'C15 (NameMap part): VIOLATION namemap-wrong, replayed natively'),
 'C15-2': ('C15', 'alternate_lookup_key cuts the 0.minor track key at the LAST dot (rfind)', 'major 0, minor > 0 and build metadata containing a dot', 'C15 (alternate_lookup_key part): VIOLATION alt-key-wrong, replayed natively'),
 'C14-1': ('C14', 'Package::find_definitions guard `exports.len() != 1` weakened to `> 1`: unwrap on an empty export list', 'a valid component exporting a component type with zero exports', 'C14 (find_definitions part, added after the first miss): VIOLATION find-definitions-panic, replayed through Package::from_bytes'),
 'C14-2': ('C14', 'detect_invalid_input reports a 1-byte span for control codes', 'a C1 control character (2 bytes in UTF-8)', 'C14 and C12 (screening part): VIOLATION screen-wrong, replayed natively'),
 'C07-1': ('C07', 'SubtypeChecker::world checks component imports covariantly', 'component-kinded argument whose import is an instance type of different width', 'C07 (rule world): VIOLATION rule-world, replayed through the real checker'),
 'C07-2': ('C07', 'is_subtype inserts the pair into the memo before checking and never removes it', 'a failing check followed by a check reaching the same pair with the same memo', 'C07 (memo part): VIOLATION rule-is_subtype-memo (rule-level)'),
 'C06-1': ('C06', 'set_instantiation_argument returns Ok early when the source node is connected to the instantiation under ANY argument index', 'set(inst, a, f) then set(inst, b, f)', 'C06 (effect postcondition of set_instantiation_argument, added after the first miss): VIOLATION set_instantiation_argument-no-effect, replayed natively'),
 'C06-2': ('C06', 'define_type adds the reverse-order dependency edge in the wrong direction', 'a base type defined after a type that references it', 'C06 (define_type, RI clause dependencies <=> references, added after the first miss; hook extended): VIOLATION define_type-dependencies, replayed natively'),
 'C09-1': ('C09', 'aggregate() re-points old redirects by comparing with the wrong variable (loop never fires)', 'three semver-compatible versions in ascending order', 'C09 (naming step): VIOLATION aggregate-naming, replayed through TypeAggregator'),
 'C09-2': ('C09', 'find_semver_compatible_import matches track keys by textual prefix', 'track keys where one is a decimal prefix of the other (@1 vs @10), longer one aggregated first', 'C09 (find_semver_compatible_import on real strings): VIOLATION find-compatible-import, replayed natively'),
 'C17-1': ('C17', 'packages() compares the own package against `.string` (with version) instead of `.name`', 'a versioned document that refers to its own package by path', 'C17 (packages callback): VIOLATION packages-callback, replayed natively (versioned template added after the first miss)'),
 'C17-2': ('C17', 'PackageVisitor::expr returns after the first named argument', 'a nested `new` in a named argument that is not the first one', 'C17 (positions with a mirrored sibling): VIOLATION visitor-misses-..., replayed natively'),
 'C18-1': ('C18', '--dep override applied to versioned references', 'an override for N and a versioned reference to N', 'C18: VIOLATION fs-resolve-*, replayed on a real directory tree'),
 'C18-2': ('C18', '.wasm shadows .wat when both exist (feature wat)', 'sibling .wat and .wasm files', 'C18 (wat dump): VIOLATION fs-resolve-wat, replayed natively'),
 'C12-1': ('C12', 'PackagePath::parse splits at the LAST `/`', 'a package path with two or more segments', 'C12 (PackagePath::parse): VIOLATION PackagePath-parse, replayed through Document::parse'),
 'C12-2': ('C12', 'detect_invalid_input uses is_ascii_control', 'a C1 control code point inside a comment or string', 'C12 / C14 (screening part): VIOLATION screen-wrong, replayed natively'),
 'C11-1': ('C11', 'AstResolver::validate_target promotes the composition export kind', 'a world export whose name matches a root type declaration', 'C11 (resolution-time check): VIOLATION validate-target-resolver (rule-level)'),
 'C11-2': ('C11', 'wac_types::validate_target checks exports in the inverted direction', 'an exported instance whose member set differs from the world interface', 'C11 (binary check): VIOLATION validate-target-binary, replayed natively'),
 'C03-1': ('C03', 'aggregate() no longer re-points existing redirects when an import is renamed to a still-higher version', 'three versions on one track, highest created last', 'C09 (naming step; C03 itself is not claimed): VIOLATION aggregate-naming, replayed through TypeAggregator'),
 'C03-2': ('C03', 'aggregate() compares the names as strings instead of the versions', 'versions that differ in the number of digits of a component (1.9.0 / 1.10.0)', 'C09 (naming step, textual order of rendered names modelled exactly per track - added after the first run was inconclusive): VIOLATION aggregate-naming, replayed natively'),
 'C10-1': ('C10', 'plug() passes the two types to is_subtype in swapped order', 'same-named export/import whose instance types are strictly related', 'C10: VIOLATION plug-wiring / plug-error-class, realised with wider/narrower instance types and replayed through wac_graph::plug (realiser made asymmetric after the first run did not reproduce)'),
 'C10-2': ('C10', 'plug() drops the exact-name-first lookup (single semver-compatible find)', 'socket importing two versions of one track, exact one not first', 'C10: VIOLATION plug-wiring, replayed natively (contract of are_semver_compatible corrected: identical names are compatible)'),
 'C16-1': ('C16', 'new_expr collects the expected argument names into a HashSet', 'a spread argument that satisfies two or more imports', 'C16 (spread order part): VIOLATION spread-argument-order, confirmed in fresh processes'),
 'C16-2': ('C16', 'CompositionGraph::imports() lists explicit imports from the HashMap', 'two or more explicit imports', 'C16 (imports() part): VIOLATION imports-listing-order, confirmed in fresh processes'),
 'C02-1': ('C02', 'encoder caches embedded components by package name instead of package id', 'two versions of one package instantiated in one composition', 'C02 (two instantiations in a row): VIOLATION instantiation-wrong-package, confirmed natively (the encoded component embeds one component for two versions)'),
 'C02-2': ('C02', 'encode_names records core-module names in the component name map', 'a named node of core-module kind', 'C02 (encode_names): VIOLATION names-wrong-section, confirmed natively (name section read back with wasmparser)'),
 'C08-1': ('C08', 'TypeConverter::find_owner follows only one alias hop', 'a `use` chain of three interfaces', 'C08 (find_owner rule): VIOLATION convert-find_owner (alias chain of length >= 2), and the WIT battery reproduces it natively: decode-used-type / decode-owner (uses of `api` no longer point at `base`)'),
 'C08-2': ('C08', 'TypeEncoder::use_aliases no longer clears the per-scope alias table', 'two interfaces in one scope with equally named, different types', 'NOT DETECTED: the change is in TypeEncoder (encoding.rs), the second half of C08, which is outside the claim (DESIGN.md 9.6)'),
 'C04-1': ('C04', 'inferred_instantiation_arg tries the last-segment match before the bound import/export name', 'local name differs from the bound name and a unique import ends in /<local>', 'C04 (inferred argument precedence): VIOLATION inferred-arg-precedence, two battery documents replayed through the real resolver'),
 'C04-2': ('C04', 'spread_instantiation_arg overwrites already bound arguments', 'a spread instance exporting a name bound by an earlier argument', 'C04 (spread rule): VIOLATION spread-rule, documents replayed through the real resolver'),
}
for k, (prop, what, needs, caught) in S.items():
    d = f'/verif/seeded/{k}'
    if not os.path.isdir(d): continue
    c = json.load(open(f'{d}/confirm.json')) if os.path.exists(f'{d}/confirm.json') else {}
    meta = {'property': prop, 'breaks': what, 'needs_to_manifest': needs,
            'confirmed_by': {'demo_placement': c.get('placement'), 'demo_cmd': c.get('cmd'), 'demo_rc_clean_tree': c.get('demo_clean_rc'), 'demo_rc_with_patch': c.get('demo_mut_rc'),
                             'existing_suite_with_patch': c.get('suite'), 'procedure': 'tools/confirm_seed.sh in a scratch git worktree of /repo (removed afterwards)'},
            'detected_by': caught or 'NOT YET: no check for this property', 'how_checked': 'tools/run_seed.sh <id>: git apply to /repo, ./check <property> --tier quick, git checkout'}
    json.dump(meta, open(f'{d}/meta.json', 'w'), indent=1)
print('ok')
